#!/usr/bin/env python3
"""Run the registered checks against the seeded changes kept under /verif/seeded/<name>/.

For each change: apply patch.diff to /repo (git apply), run `./check <property> --tier quick` (and any extra
checks named in meta.json "also"), undo (git checkout -- .), and record the outcome in seeded/<name>/result.json.
Evidence files rewritten by these runs are restored from git afterwards.  /repo must be clean before starting.

usage: tools/seeded_run.py [name ...] [--tier quick|thorough] [--confirm]
  --confirm  additionally verify, in a scratch worktree, that the change applies, the pinned suite still passes and
             the demonstration fails on the changed tree and passes on the pristine one."""
import json
import os
import re
import shutil
import subprocess
import sys
import tempfile
import time
from pathlib import Path

V = Path(__file__).resolve().parent.parent
REPO = Path(os.environ.get("REPO", "/repo"))
PY = "/venv/bin/python"


def sh(cmd, cwd=None, timeout=3600, env=None):
    e = dict(os.environ)
    if env:
        e.update(env)
    p = subprocess.run(cmd, cwd=cwd, shell=isinstance(cmd, str), capture_output=True, text=True, timeout=timeout, env=e)
    return p.returncode, p.stdout + p.stderr


def stable_regressions(wt):
    import xml.etree.ElementTree as ET
    b = json.load(open("/root/.vp/BASELINE.json"))
    with tempfile.TemporaryDirectory() as d:
        x = os.path.join(d, "r.xml")
        sh(f"{PY} -m pytest -ra -q -p no:cacheprovider --timeout=900 --continue-on-collection-errors --junitxml={x}", cwd=wt)
        res = {}
        for tc in ET.parse(x).iter("testcase"):
            res[tc.get("classname") + "::" + tc.get("name")] = not any(c.tag in ("failure", "error", "skipped") for c in tc)
    return [n for n in b["stable_pass"] if not res.get(n)]


def confirm(d: Path):
    """scratch worktree: applies, suite passes, demo fails changed / passes pristine"""
    wt = Path(tempfile.mkdtemp(prefix="seedwt-", dir="/tmp"))
    shutil.rmtree(wt)
    out = {}
    try:
        rc, o = sh(["git", "-C", str(REPO), "worktree", "add", "--detach", str(wt), "HEAD"])
        assert rc == 0, o
        demo = next((d / n for n in ("demo.py", "demo.sh") if (d / n).exists()), None)
        runner = [PY, str(demo)] if demo and demo.suffix == ".py" else ["bash", str(demo)]
        if demo:
            rc, o = sh(runner, cwd=wt, timeout=600)
            out["demo_pristine_rc"] = rc
        rc, o = sh(["git", "apply", str(d / "patch.diff")], cwd=wt)
        out["applies"] = rc == 0
        if rc == 0:
            out["regressed"] = stable_regressions(wt)
            if demo:
                rc, o = sh(runner, cwd=wt, timeout=600)
                out["demo_changed_rc"] = rc
                out["demo_changed_tail"] = o[-600:]
    finally:
        sh(["git", "-C", str(REPO), "worktree", "remove", "--force", str(wt)])
        shutil.rmtree(wt, ignore_errors=True)
    out["confirmed"] = bool(out.get("applies") and not out.get("regressed") and out.get("demo_pristine_rc") == 0
                            and out.get("demo_changed_rc") not in (0, None))
    return out


def run_checks(d: Path, tier: str):
    meta = json.load(open(d / "meta.json"))
    props = [meta["property"]] + list(meta.get("also", []))
    rc, o = sh(["git", "-C", str(REPO), "status", "--porcelain", "--untracked-files=no"])
    assert o.strip() == "", "/repo is not clean: " + o
    rc, o = sh(["git", "-C", str(REPO), "apply", str(d / "patch.diff")])
    if rc != 0:
        # the tree moved on (a later fix: commit touched the same lines): the change is kept for the record but cannot be replayed as is
        return {meta["property"]: {"exit": None, "detected": False, "with_failing_input": False, "line": "patch does not apply to the current tree: " + o.strip()[:200],
                                   "wall_s": 0.0, "not_applicable": True}}
    res = {}
    try:
        for p in props:
            t0 = time.time()
            rc, o = sh(["./check", p, "--tier", tier], cwd=V, timeout=3000)
            lines = [l for l in o.splitlines() if l.startswith(("VIOLATION", "OK ", "KNOWN-FINDING", "ERROR"))]
            vio = [l for l in lines if l.startswith("VIOLATION")]
            replay = None
            if vio:
                m = re.search(r"replay=(\S+)", vio[0])
                replay = m.group(1) if m else None
            res[p] = {"exit": rc, "detected": rc == 1 and bool(vio), "with_failing_input": bool(vio) and not vio[0].rstrip().endswith("no-failing-input-found"),
                      "line": vio[0] if vio else (lines[-1] if lines else o[-300:]), "wall_s": round(time.time() - t0, 1)}
            if replay and (V / replay).exists():
                try:
                    r = json.load(open(V / replay))
                    res[p]["replay_kind"] = r.get("kind")
                    res[p]["replay_summary"] = json.dumps(r)[:400]
                except Exception:
                    pass
    finally:
        sh(["git", "-C", str(REPO), "checkout", "--", "."])
        # files the patch added are untracked: remove exactly those
        for line in open(d / "patch.diff"):
            if line.startswith("+++ b/"):
                f = REPO / line[6:].strip()
                rc2, o2 = sh(["git", "-C", str(REPO), "ls-files", "--error-unmatch", str(f.relative_to(REPO))])
                if rc2 != 0 and f.exists():
                    f.unlink()
    return res


def main():
    args = sys.argv[1:]
    tier = "quick"
    if "--tier" in args:
        i = args.index("--tier")
        tier = args[i + 1]
        del args[i:i + 2]
    do_confirm = "--confirm" in args
    args = [a for a in args if a != "--confirm"]
    names = args or sorted(p.name for p in (V / "seeded").iterdir() if (p / "patch.diff").exists())
    summary = []
    for n in names:
        d = V / "seeded" / n
        result = {"name": n, "tier": tier}
        if (d / "result.json").exists():
            try:
                result.update({k: v for k, v in json.load(open(d / "result.json")).items() if k in ("confirm",)})
            except Exception:
                pass
        if do_confirm:
            result["confirm"] = confirm(d)
        result["checks"] = run_checks(d, tier)
        json.dump(result, open(d / "result.json", "w"), indent=1)
        own = result["checks"][json.load(open(d / "meta.json"))["property"]]
        print(f"{n}: detected={own['detected']} failing_input={own['with_failing_input']} {own['wall_s']}s  "
              f"{'confirmed' if result.get('confirm', {}).get('confirmed') else ''} :: {own['line'][:140]}", flush=True)
        summary.append(result)
    # evidence written by runs on a changed tree must not stay
    sh(["git", "checkout", "--", "evidence"], cwd=V)
    sh(f"{PY} harness/extract.py >/dev/null 2>&1", cwd=V)
    missed = [r["name"] for r in summary if not any(c["detected"] or c.get("not_applicable") for c in r["checks"].values())]
    print(f"{len(summary) - len(missed)}/{len(summary)} detected; missed: {missed}")


if __name__ == "__main__":
    main()
