#!/bin/sh
# run every registered check with several seeds on the current tree; print only non-OK results
cd "$(dirname "$0")/.."
tier=${1:-quick}; shift
seeds=${*:-"1 2 3 4 5"}
for s in $seeds; do
  for id in $(python3 -c "import json;print(' '.join(c['property_id'] for c in json.load(open('MANIFEST.json'))['checks']))"); do
    out=$(VERIF_SEED=$s ./check $id --tier $tier 2>&1); rc=$?
    last=$(echo "$out" | grep -v KNOWN-FINDING | tail -1 | cut -c1-220)
    if [ $rc -ne 0 ]; then echo "seed=$s $id rc=$rc :: $last"; fi
  done
  echo "seed $s done"
done
git checkout -- evidence 2>/dev/null
