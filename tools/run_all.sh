#!/bin/sh
# run every registered check (quick tier by default) and report; evidence files are refreshed
cd "$(dirname "$0")/.."
tier=${1:-quick}
for id in $(python3 -c "import json;print(' '.join(c['property_id'] for c in json.load(open('MANIFEST.json'))['checks']))"); do
  start=$(date +%s)
  out=$(./check $id --tier $tier 2>&1 | tail -3)
  rc=$?
  echo "$id rc=$rc $(( $(date +%s) - start ))s :: $(echo "$out" | tail -1)"
done
