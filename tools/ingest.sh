#!/bin/sh
# ingest finished seeded changes from /tmp/wt/out/<name> into seeded/<name>, confirm and run the checks
cd "$(dirname "$0")/.."
for n in "$@"; do
  rm -rf seeded/$n; mkdir -p seeded/$n
  cp /tmp/wt/out/$n/patch.diff /tmp/wt/out/$n/demo.py /tmp/wt/out/$n/meta.json seeded/$n/ || exit 1
  echo "$n touches: $(grep '^diff' seeded/$n/patch.diff | awk '{print $4}' | tr '\n' ' ')"
done
python3 tools/seeded_run.py "$@" --confirm 2>&1 | tail -$(( $# + 1 ))
