#!/usr/bin/env python3
"""Run the repository's pinned test suite (guard off) and compare with /root/.vp/BASELINE.json stable_pass."""
import json, subprocess, sys, tempfile, os, xml.etree.ElementTree as ET
b = json.load(open('/root/.vp/BASELINE.json'))
with tempfile.TemporaryDirectory() as d:
    x = os.path.join(d, 'r.xml')
    subprocess.call(b['cmd'].replace('<file>', x), shell=True, stdout=subprocess.DEVNULL, stderr=subprocess.DEVNULL)
    res = {}
    for tc in ET.parse(x).iter('testcase'):
        res[tc.get('classname') + '::' + tc.get('name')] = not any(c.tag in ('failure', 'error', 'skipped') for c in tc)
bad = [n for n in b['stable_pass'] if not res.get(n)]
print('stable tests:', len(b['stable_pass']), 'regressed:', len(bad))
for n in bad: print('  ', n)
sys.exit(1 if bad else 0)
