#!/usr/bin/env python3
"""Regenerate the seeded-change table in DESIGN.md (between the SEEDED-TABLE markers) from seeded/*/meta.json and result.json."""
import json
import re
from pathlib import Path

V = Path(__file__).resolve().parent.parent
rows = []
for d in sorted((V / "seeded").iterdir()):
    if not (d / "meta.json").exists():
        continue
    m = json.load(open(d / "meta.json"))
    r = json.load(open(d / "result.json")) if (d / "result.json").exists() else {}
    own = (r.get("checks") or {}).get(m["property"], {})
    conf = r.get("confirm", {})
    what = re.sub(r"\s+", " ", m.get("summary", "")).strip()
    if len(what) > 230:
        what = what[:227] + "..."
    trig = re.sub(r"\s+", " ", str(m.get("trigger", ""))).strip()
    if len(trig) > 150:
        trig = trig[:147] + "..."
    kind = own.get("replay_kind") or ""
    how = {"property-fails-on-implementation": "spec predicate / oracle on the real output", "correspondence-broken": "model vs implementation",
           "proof-obligation-broken": "kernel (generated table / theorem)"}.get(kind, kind)
    det = "yes" if own.get("detected") else "NO"
    if own.get("detected") and not own.get("with_failing_input"):
        det += " (no-failing-input-found)"
    rows.append(f"| {d.name} | {what.replace('|', '/')} | {trig.replace('|', '/')} | {'yes' if conf.get('confirmed') else '?'} | {det} | {how} |")
table = ("| change | what it does | needs | confirmed (applies, suite passes, demo fails) | `./check` detects | by |\n|---|---|---|---|---|---|\n" + "\n".join(rows))
p = V / "DESIGN.md"
s = p.read_text()
a, b = "<!-- SEEDED-TABLE-BEGIN -->", "<!-- SEEDED-TABLE-END -->"
s = s[:s.index(a) + len(a)] + "\n" + table + "\n" + s[s.index(b):]
p.write_text(s)
print(len(rows), "rows")
