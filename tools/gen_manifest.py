#!/usr/bin/env python3
"""Regenerate MANIFEST.json from the table below (kept valid against /root/.vp/MANIFEST.schema.json)."""
import json, os, sys
from pathlib import Path
V = Path(__file__).resolve().parent.parent
props = [json.loads(l) for l in open(V / "properties.jsonl")]

COMMON_NOTE = ("Trusted: Lean 4.33 kernel; axioms propext/Classical.choice/Quot.sound only (audited each run); the hand-written "
               "executable Lean model, tied to /repo by the correspondence run of the same check (differential, generator-bounded); "
               "harness/extract.py for generated tables. ")

CHECKS = {
 "C10": dict(
   text="Lean theorem C10_from_payloads: for every erase-block size >= 1 and every list of (URI, payload) slots, the bytes the model of "
        "CachePartition emits satisfy the executable predicate Cache.check (single indefinite map, exactly the supplied pairs plus zero-filled "
        "empty-key padding, 4-byte payload lengths, later slots aligned) - by induction over the slot list, no bound on sizes. The model is tied "
        "to cmd_cache_create.py by byte-for-byte correspondence over the complete (eb, residue, first/later) plane and sampled sequences and merges; "
        "Cache.check is also evaluated on every file the real tool wrote.",
   design="4 C10",
   note=COMMON_NOTE + "Domain: eb >= 1, non-empty URIs, payload < 2^32, lengths < 2^53 (float ceil exact). Merge preservation is shown by "
        "correspondence + Cache.check on merged files, not yet by a theorem.",
   technique="Lean 4 proof (induction over slots, omega arithmetic) + model/implementation correspondence"),
 "C12": dict(
   text="Lean theorems C12_record / C12_record_checks (record = version 1, policy bytes, twelve 0xFF, vendor and class UUID, 0xFF padding, at the given "
        "address and nowhere else; for every SHA-1 function, name, address, size), C12_policy_table, C12_merge / C12_merge_checks (merged file = area with every "
        "input byte at its address and 0xFF elsewhere, followed by the digest of the area, for every digest function), C12_reject_outside, C12_reject_overlap, "
        "C12_merge_keeps; file level C12_record_file / C12_area_file (the text of the hex file, as the model of the intelhex writer produces it for the image, reads back as exactly the image). Tie: cmd_mpi.main run on all 12 policies x names x addresses and on merges of up to 8 records inside/border/outside/overlapping; "
        "hex files read back with the verifier's reader and compared with the model image; Mpi.checkRecord / checkMerge evaluated on the real files.",
   design="4 C12",
   note=COMMON_NOTE + "Domain: size >= 48. The third-party intelhex writer is modelled (IHexWrite / IHexImage), proved to read back, and compared with the tool's text on every run (files are also read back with IHex.read); hashlib vs. Lean SHA compared through every case.",
   technique="Lean 4 proof (model => executable spec predicate, for all hash functions) + model/implementation correspondence"),
 "C16": dict(
   text="Lean theorems C16_record (length 16+8n; little-endian fields read back as magic 0x55AA55AA, 1, partition address, size; zero cache entries; for all values below 2^32), "
        "C16_record_rejects, C16_storage_image, C16_dfu_image (address dfu+i holds byte i, nothing else defined), C16_storage_checks / C16_dfu_checks (model => Spec predicate), "
        "C16_dfu_file / C16_storage_file (file level: the text of both hex files, as the model of the intelhex writer produces it, reads back with the strict reader as exactly the image; IHexWrite / IHexText, all addresses and sizes below 2^32). "
        "Tie: cmd_image.main(image=update) on a grid of sizes x addresses (64 KiB, 16 MiB, 2^32 boundaries) x cache counts; both hex files are read back with the "
        "verifier's Intel-HEX reader, compared with the model image, and judged by Update.checkStorage / checkDfu.",
   design="4 C16",
   note=COMMON_NOTE + "Domain: address + size within 32 bits. The intelhex writer is third-party code: it is modelled (IHexWrite.lean), the model is proved to read back, and its text is compared with the tool's file on every run (writer-model counters in the evidence); every file is also read by the verifier's strict reader.",
   technique="Lean 4 proof (byte-level layout lemmas, omega) + model/implementation correspondence"),
 "C20": dict(
   text="Lean theorems C20_order_partial (for versions with the same number of numeric fields and no explicit '.0' pre-release number, semver precedence = zero-padded "
        "list order; unbounded field values; induction on the field lists), C20_full_fails_mixed / C20_full_fails_zero (kernel-checked counter-examples of the full "
        "statement: findings F10a, F10b), C20_rejects (any part that is neither numeric nor alpha/beta/rc makes the whole string a ValueError), C20_seq_strict "
        "(omega: (M<<24)+(m<<16)+(p<<8)+t strictly follows lexicographic order when m,p,t < 256), C20_seq_needs_range. Tie: every version of the bounded grammar is "
        "parsed by the real SuitComponentVersion and the model, all ordered pairs compared by the Lean reference on the implementation's lists; VERSION files through "
        "append_default_version_values.",
   design="4 C20",
   note=COMMON_NOTE + "ASCII strings; parse(render v) = conv v tied bounded-exhaustively, not by a theorem; known findings F10a/F10b in known_findings.json are the "
        "complement of the partial theorem's hypotheses.",
   technique="Lean 4 proof (induction, omega, decide witnesses) + bounded-exhaustive model/implementation correspondence"),
 "C17": dict(
   text="Lean theorem C17_closed: for every schema, class, budget and byte string, the model of from_cbor (all node kinds of common.py and the special classes) "
        "yields a node, ValueError or SUITError - never an internal error - when the four guards are in place (mutual induction over the interpreter, no bound on "
        "size or nesting); C17_guards_all ties the guards to the running code through probe inputs re-executed by the translator on every run; C17_parse_clean is the "
        "corollary for the extracted schema; C17_validate / C17_empty for the length pre-validation; C17_needs_* are kernel-checked witnesses that each guard is "
        "necessary (the fixed findings F5a-d). Partial: termination within time/memory proportional to the input and the interpreter's stack limit are runtime "
        "behaviour - monitored by the harness (wall time per input against a linear budget, nesting sweep to 400 levels), not proved.",
   design="4 C17",
   note=COMMON_NOTE + "cbor2.loads is modelled on definite-length items without floats / exotic simple values / semantic tags (inputs outside are checked "
        "directly on the implementation only). Runtime monitors are not theorems.",
   technique="Lean 4 proof (mutual induction over a generic interpreter, decide for generated flags) + type-confusion correspondence sweep"),
 "C08": dict(
   text="Kernel-checked (decide +kernel) over the tables re-extracted from the live classes on every run: C08_registry_present (every registered (space, name, code) is what the "
        "code defines), C08_nodup (no repeated name or code in any vocabulary-bearing class), C08_tags (107/18/96), C08_hash_lengths; generic theorems for every key space: "
        "C08_decode_encode, C08_encode_name (one-to-one under nodup), C08_foreign_rejected, C08_foreign_code_rejected. Tie: the finite (key space x name) plane is enumerated "
        "completely through the public from_obj/to_cbor/from_cbor/to_obj API in both directions, every name in every other space, real classes vs model vs registry.",
   design="4 C08",
   note=COMMON_NOTE + "Registry.lean (the spec side) is written from memory of the drafts/RFCs offline; vendor-specific entries are pinned to the pinned commit.",
   technique="Lean 4 proof (decide +kernel over generated tables, list lemmas) + exhaustive model/implementation/registry correspondence"),
 "C01": dict(
   text="Lean theorems. C01_rec_step / C01_rec_bytes (every level: the recursive predicate Spec.checkRec is this level's check1 and the recursive predicate of each nested envelope, so what create writes satisfies it as soon as its nested envelopes do; with C05_dep_inline the recursion is closed level by level). C01_create_digests (node level, any schema): the tree create serialises holds in its authentication wrapper the declared hash of the to_cbor() bytes of "
        "the bstr-wrapped manifest of that same tree, and every digest reference to a present severed member equals the declared hash of that member's to_cbor() bytes (loop "
        "invariant over update_severable_digests, then update_digest; any file system, hash function, description, nesting). C01_bytes (byte level, the schema extracted from the "
        "running code): whatever create writes satisfies Spec.check1 - own strict CBOR reader, digest table by COSE identifier - provided the envelope, the authentication wrapper, "
        "the digest and the manifest are encodable (lengths and integers below 2^64). It rests on the typing theorem Typing.fromObj_typed (node shape per schema class, for all "
        "schemas, by induction over the nine mutually recursive from_obj functions), on C01_schema_paths (the digest paths of the extracted schema: kernel evaluation, found by "
        "unification so that renumbering of classes does not disturb it), on shape preservation through both digest updates, and on dictionary-lookup lemmas for to_cbor of key-value "
        "nodes (flattened payload maps have text keys only, integer keys pairwise different). C01_supplied_ignored; C01_wrapped_header (23/24, 255/256, 65535/65536 are ordinary "
        "cases); C01_span; C01_hash_table and C01_hash_enum (decide: algorithm names, identifiers and SHAKE lengths are the registry's). The same predicate at every nesting level "
        "(Spec.checkRec) is evaluated on every envelope the real tool creates.",
   design="4 C01 and 8.4",
   note=COMMON_NOTE + "Not a theorem: Spec.checkRec at nested levels of integrated dependencies (each level is an instance of C01_bytes for the child's own create; the composition is "
        "evaluated, not proved); cbor2 dumps/loads modelled as enc/dec on the plain subset.",
   technique="Lean 4 proof (typing theorem + loop invariant + byte-level theorem over the extracted schema, for all hash functions) + byte-exact model/implementation correspondence + executable byte-level spec"),
 "C02": dict(
   text="Decomposed. Lean: C02_vocabulary (every registered name has its registered integer in the running code's tables: kernel evaluation over the re-extracted schema), "
        "C02_wrap_members / C02_wrap_fields (bstr .cbor at exactly the members / tuple fields the CDDL prescribes, 40 + 14 rows checked by the kernel against the extracted class "
        "graph), C02_command_sequences_flat (command sequences group by two), and about the encoder for all inputs: C02_wrapped_once (one byte-string layer around the content's "
        "encoding), C02_envelope_is_enc + C02_shortest (the envelope is enc of one value, which the strict definite-length shortest-form reader accepts and returns), "
        "C02_list_order, C02_flat_pairs (code1,arg1,code2,arg2,... in description order), C02_map_order (map pairs in description order, nothing sorted, dropped or duplicated); "
        "C02_typed (typing theorem: every tree from_obj builds has, at every class, the node shape the schema prescribes - any schema, description, file system, hash) with its "
        "corollaries C02_layer_present (exactly one byte-string layer at a bstr .cbor class) and C02_layer_absent_map / _tag (none at a map or tag class). "
        "Tie and decision: a reference encoder written from the CDDL by the verifier (harness/ref_encode.py, no suit_generator import) is compared byte-for-byte with the real tool "
        "and with the model on every generated description; the strict reader runs on the real tool's bytes. Partial: no theorem that the model's whole encoder equals the "
        "reference encoder; constructs outside the reference's scope (delegation chains, inline text) are excluded and counted.",
   design="4 C02",
   note=COMMON_NOTE + "Known finding F8 (CWT payload encoded without the CWT integer keys / bstr claim layout the property's cited specification prescribes).",
   technique="Lean 4 proof (encoder lemmas for all inputs, wrap tables by kernel evaluation on the generated schema) + three-way byte comparison tool / model / independent reference encoder"),
 "C05": dict(
   text="Lean theorems, each for all file systems and all hash functions: C05_file_digest ({file:p} -> hash under the named algorithm of exactly fs p), C05_file_direct_digest, "
        "C05_file_missing (error, no default), C05_size_file (= length of fs p), C05_size_envelope (= length of the child created on its own), C05_payload_path, "
        "C05_dep_inline (embedded = create child), C05_dep_digest_inline + C05_dep_digest_same_bytes (the parent records the hash, under the parent's algorithm, of the very "
        "manifest bytes the child's own refreshed wrapper digests), C05_hex_roundtrip(_upper) (hex text is a faithful carrier). Tie: generated descriptions with all four "
        "reference forms; real create vs model byte-for-byte; every reference re-computed from the files with hashlib/len on the envelope the real tool created.",
   design="4 C05",
   note=COMMON_NOTE + "Known finding F9 (hex-looking file names). Dependency by path relies on C03's round trip (F4 region excluded).",
   technique="Lean 4 proof (per reference form, parametric in fs and hash) + byte-exact correspondence + recomputation from files"),
 "C03": dict(
   text="Partial. Proved for all inputs: C03_deser_enc (deserialize_cbor(cbor2.dumps(v)) = v for every well-formed value cbor2 hands over unchanged, every head width and "
        "nesting) with C03_validate_enc; from it every scalar kind of from_cbor (C03_uint, C03_int, C03_imageSize, C03_tstr, C03_bool, C03_null, C03_bstr, C03_uuid, C03_bchar, "
        "C03_enum + C03_enum_tables by kernel over the extracted schema) and the description half for the scalar kinds (C03_recreate_*: from_obj(to_obj(n)) = n; C03_enum_names). "
        "Inductive read-back steps (ReadsBack.lean, ReadsKv.lean): the decoder builds exactly the node create built, closed under byte-string wrapping, tags, lists, positional "
        "structures (also with a repeating member occurring zero times), [code, argument] pairs, integer-keyed maps and unions given that earlier alternatives reject. Assembled "
        "on the schema extracted from the running code (class numbers by unification from schema.envelope): C03_digest_current, C03_auth_wrapper_current, "
        "C03_manifest_head_current and C03_minimal_envelope_current (for every digest algorithm, digest value, version and sequence number the envelope class builds from the "
        "smallest envelope a node whose own encoding is that envelope). Kernel-checked: C03_full_fails (raw content h'0506' does not round-trip: finding F4) and "
        "C03_unambiguous_example. Not a theorem: the induction applying the steps at every node of the whole language (per-union rejection premises - false inside F4 -, text-keyed "
        "and flattened maps, grouped lists, the to_obj / from_obj half for containers). The composite is decided on every generated envelope: parse of the real tool vs the model "
        "(descriptions equal), and the envelope re-created by the real tool from YAML and JSON files, with and without hierarchy expansion, compared span by span (keys 2, 3, 15-23, "
        "text-keyed members) with the original, incl. envelopes signed by the real command with all five algorithms; failures are accepted only inside the syntactic F4 region predicate.",
   design="4 C03",
   note=COMMON_NOTE + "Known finding F4 (region predicate ambiguous_positions, incl. the null case at a component part); fixed finding F4c. The whole-language induction is open: "
        "the deciding evidence for the composite is the correspondence.",
   technique="Lean 4 proof (decode-after-encode for all values, read-back steps closed under the containers, whole-envelope statement assembled on the generated schema, "
             "kernel-evaluated witness of F4) + model/implementation correspondence on parse and on create after parse"),
 "C04": dict(
   text="Lean theorems for every signature primitive: C04_appended (for an envelope without a COSE_Sign1, the output is the same tag over the same map with only the value of key 2 "
        "replaced by the same wrapper list plus one element bstr .cbor #6.18([protected, {}, nil, sig]), sig = primitive applied to the Sig_structure of the envelope's own digest), "
        "mapSet_present / mapSet_keys (all other members and the order kept), C04_protected (strict reading of the protected header gives {1: alg, 4: bstr .cbor keyId} for every "
        "keyId in [-2^64, 2^64)), C04_verifies (under verify(sign m) m the appended signature verifies over the Sig_structure of the block's own header and the digest), "
        "C04_rs_fixed / C04_rs_total (r||s is exactly 2w bytes and decodes to (r, s): leading zeros are the general case), C04_refused, C04_cose_ids. Tie: cmd_sign.main "
        "with the real sign script and file KMS (calls recorded), 5 algorithms x key ids at CBOR widths; model output vs real bytes; Spec.checkSigned on the real output; "
        "cryptographic verification (cryptography, pycryptodome) over the Sig_structure the spec builds; _create_cose_es_signature driven with chosen (r, s).",
   design="4 C04",
   note=COMMON_NOTE + "The signature schemes are parameters (hypothesis: verify pk m (sign sk m)); cbor2 load/dump modelled as dec/enc.",
   technique="Lean 4 proof (parametric in the signature primitive) + correspondence with recorded KMS calls + cryptographic oracle"),
 "C09": dict(
   text="Lean theorems: C09_error, C09_skip (unchanged, KMS never consulted), C09_remove_old (a singly signed envelope ends with exactly the new block), C09_append, "
        "C09_keymatch (complete 5x5 table), C09_omit_leaf, C09_key_required, C09_dependency_checked (absent / not bytes / not an envelope => refused), C09_dependency_is_envelope (what is accepted is tag 107 of a map), and by induction over "
        "the configuration tree: signEnvelope_keeps, signDeps_keeps, C09_manifest_untouched (at every level the manifest and every integer-keyed member other than the "
        "wrapper is the same value, so digests recorded by parents stay valid). Tie: the 5 x 3 x 2 x key-type single-level matrix and random dependency trees to depth 3 "
        "with per-node keys / algorithms / omit-signing / actions and failing configurations, through cmd_sign.main; model vs real bytes; every level verified with that "
        "node's public key; unnamed members compared byte-for-byte; no output file on failure.",
   design="4 C09",
   note=COMMON_NOTE + "Environment-variable defaults for the scripts are not modelled. Fixed findings F1, F6, F12.",
   technique="Lean 4 proof (case analysis on actions, induction over the configuration tree) + correspondence + per-node cryptographic verification"),
 "C11": dict(
   text="Lean theorems: C11_untouched (mutual induction over the recursion through dependency envelopes: at every level the output is the same tag over a map whose "
        "integer-keyed members - manifest, authentication wrapper, severed members - are the same values as the input's), C11_moved (the payloads popped from a level are "
        "added to the cache by exactly add_cache_slot(name, member value), in order, and the map loses exactly those members - the cache content is then characterised by "
        "C10), C11_extract_one / C11_replace / C11_extract_keeps for payload_extract. For all predicates standing for the two regular expressions. Tie: hierarchies to "
        "depth 3 x 5 x 6 pattern classes through cmd_cache_create.main, payload_extract with/without replacement and output file; model vs real bytes; multiset conservation "
        "between input hierarchy, output hierarchy and decoded cache; integer-keyed members compared byte-for-byte at every level.",
   design="4 C11",
   note=COMMON_NOTE + "The hierarchical multiset-conservation statement itself is checked on every case, the theorems give its two halves (untouched members; moved payloads). "
        "re.fullmatch enters as a predicate evaluated by Python.",
   technique="Lean 4 proof (mutual induction over the dependency recursion) + correspondence + multiset conservation check on real output"),
 "C06": dict(
   text="Lean theorems: C06_aad (kernel-checked: the AAD bytes captured from the running encrypt script ARE the Enc_structure ['Encrypt', protected, h''] of the protected header "
        "{1:3} that is published - the tie between the two sites that the tests lack), C06_algs, C06_split (generate-info: iv(12)||tag(16)||ct reassembles the blob, emitted "
        "payload = blob without its first 12 bytes), C06_info_shape (strict reading of the info gives exactly IV, key id, key-wrap algorithm and CEK that went in, for all key "
        "ids in [-2^64,2^64)), C06_decrypts (under the AES-GCM hypothesis, decrypting with the IV read from the info, the Enc_structure of the *published* header and "
        "encrypted_content.bin split at 16 yields the firmware; all keys, nonces, plaintexts), C06_create_accepts. Tie: cmd_encrypt.main with the real script and KMS "
        "(recorded), sizes 0..64 KiB+1, five digests; model vs real files; independent AESGCM.decrypt; generate-info on random blobs.",
   design="4 C06",
   note=COMMON_NOTE + "AES-GCM is a parameter with the hypothesis gcmDec k n a (gcmEnc k n a p) = p and 16-byte tags; cryptography's AESGCM is the oracle.",
   technique="Lean 4 proof (kernel-checked constant, strict-decoder lemmas, parametric in AES-GCM) + correspondence + decryption oracle"),
 "C14": dict(
   text="Partial (entropy is runtime). Model: a state machine whose only state is the position in an entropy stream. Lean theorems: C14_iv_from_this_call (the info of a call "
        "holds under key 5 exactly the 12 bytes drawn by this call, which are the nonce handed to AES-GCM), C14_no_reuse_of_draws (induction over the history: the i-th call "
        "publishes the i-th window), C14_disjoint_ranges, C14_pairwise_distinct (under StreamFresh the published IVs of any history are pairwise distinct). No theorem covers "
        "that the OS source does not repeat. Tie: os.urandom wrapped (not replaced): for each of 3000 (quick) / 10^5 (thorough) calls the published IV must be a window of this "
        "call's draws and of no earlier call's; decryption with the published IV must succeed; identical firmware in one process and in separate CLI invocations; pairwise "
        "comparison.",
   design="4 C14",
   note=COMMON_NOTE + "Hypothesis StreamFresh stands for the entropy source; observed, not proved.",
   technique="Lean 4 proof (induction over the call history of an entropy-stream state machine) + history correspondence with recorded draws"),
 "C07": dict(
   text="Lean theorems: over the layout tables re-extracted from the running code (decide +kernel): C07_layout_disjoint (all 11 slots of each SoC pairwise disjoint, across "
        "domains), C07_layout_roles_unique, C07_layout_roles_known, C07_slot_keys; general: findSub_sound + C07_class_at_offset (wherever the 32-byte component-id pattern is "
        "found, the 16 bytes at the recorded offset are the pattern's UUID - no first-occurrence caveat), C07_pattern_prefix (the +16), C07_slot (every segment of a domain "
        "image is the slot map of a stored envelope of that domain at base+offset followed by 0xFF to the slot size - and nothing else), C07_no_partial_output (a rejected "
        "envelope means no image at all), C07_reject_duplicate, C07_file_reads_back (file level: the text of a domain's hex file, as the model of the intelhex writer produces it for any canonical image of several blocks, reads back as exactly that image). Partial: 'the stored envelope is the input stripped, manifest and wrapper byte-identical' rests on the C03 "
        "round trip, which is not a theorem; it is checked on every stored slot. Tie: sets of 1-11 envelopes, both SoCs, random bases, kconfig, signed/unsigned, failing "
        "sets; real hex files read with the verifier's reader vs the model images; every slot decoded and checked.",
   design="4 C07",
   note=COMMON_NOTE + "Model = create(sever(parse(file))) through the generic interpreter; intelhex writer not modelled (files read back).",
   technique="Lean 4 proof (decide over generated layout, list lemmas for find/slot) + correspondence on memory images + per-slot direct check"),
 "C13": dict(
   text="Lean theorems, for every SHA-1 function and all names: C13_agree (the class identifier built by SuitUUID.from_obj from namespace+name, the one written into the MPI "
        "record and the one keyed in the role table are uuid5(uuid5(DNS, vendor), class); the vendor identifier is uuid5(DNS, vendor)), C13_dns (decide: the interpreter's "
        "NAMESPACE_DNS), C13_assign_exact + tblSet_other (an assignment changes the role of exactly that class id), tblSet_has, C13_kconfig_duplicate_rejected, "
        "C13_kconfig_examples (kernel-evaluated through the whole .config parser). Tie: names at the three sites through the real code (create, mpi generate, image boot "
        "with generated build configurations incl. collisions between roles / with defaults / missing class names); expected identifiers recomputed with hashlib by the "
        "harness; the envelope must land in exactly the configured role's slot.",
   design="4 C13",
   note=COMMON_NOTE + "SHA-1 is a parameter of the theorems; the driver's SHA-1 and the harness's hashlib computation are compared through every case.",
   technique="Lean 4 proof (three modelled sites unified, table lemmas, kernel-evaluated parser examples) + end-to-end correspondence"),
 "C15": dict(
   text="convert: Lean theorems C15_fixed_width (X||Y is exactly 2w bytes, both halves read back as the coordinates; leading zero bytes are the general case; 64/96/132 by "
        "C15_sizes), C15_total, C15_format_roundtrip / C15_array_roundtrip (tokenising the formatted array gives back exactly the bytes, for every byte list, column count "
        "and indentation of spaces or tabs - induction over the bytes), C15_layout_only (options change formatting only). keys (partial: key generation and serialisation "
        "are the cryptography library's): the model is the glue only, C15_keys_atomic (both files or none). Tie: NIST keys constructed so that X or Y has leading zero bytes "
        "(found by search), Ed25519/Ed448, all layout options, through cmd_convert.main: whole C file vs model text, array tokenised and compared with the public key the "
        "harness computes; keys over the complete 40-combination option space through cmd_keys.main, both files loaded with the standard loaders and paired.",
   design="4 C15",
   note=COMMON_NOTE + "The keys half is decided by direct checking over the complete finite option space, not by a theorem. Fixed findings F2, F3.",
   technique="Lean 4 proof (fixed-width arithmetic, induction for the tokeniser round trip) + correspondence on the C text + exhaustive option-space check for keys"),
 "C18": dict(
   text="Partial. The models of create, parse, storage, MPI and cache generation are pure functions (no state between calls), so history-independence holds of them by "
        "construction; Lean theorems cover the non-trivial clause: C18_sign_diff_only_sig (two signing runs of the same envelope are F(sig1), F(sig2) for one F: they can "
        "differ only in the signature bytes) and C18_encrypt_diff_only_iv (two encryption runs publish infos that read identically except for the IV). The property is "
        "decided by the correspondence over histories: the same operations run each in a fresh interpreter (PYTHONHASHSEED 0/1/2/random, different working directories, "
        "absolute paths) and all in one interpreter in permuted orders must equal the stateless model on every operation; descriptions whose referenced files have the same "
        "names but different contents; JSON vs YAML files of one description; create twice on the same mutated description object; signing / encryption twice compared "
        "outside signature / IV / ciphertext.",
   design="4 C18",
   note=COMMON_NOTE + "Histories are sampled permutations (not all interleavings); create_mutation_idempotent of DESIGN.md is checked by execution, not proved.",
   technique="Lean 4 proof for the sign/encrypt clause + stateless-model correspondence over permuted and fresh-process histories"),
 "C19": dict(
   text="Lean theorems about the template model (Template.root / Template.top: the description the rendered YAML loads to, index bookkeeping as list arithmetic), for all names, "
        "versions, child names and all 2^3 presence combinations: C19_component_count, C19_indices_declared (every index of the shared sequence, validate, invoke and the literal "
        "0 is below the number of declared components), C19_components_are_manifests + C19_dependencies_are_components, C19_fetch_has_dependency (fetched '#name' URIs = names "
        "of the integrated dependencies, and the file whose manifest digest is verified is the file integrated under that name), C19_class_ids / C19_component_order, C19_top. "
        "The digest equality itself is C05_dep_digest_same_bytes. Tie: the Jinja files are rendered by ncs.build.render_template over the COMPLETE finite configuration space "
        "(7 image subsets x 3 variable settings x default / custom / YAML-significant names; top template x 3) and the loaded YAML must equal the model's Obj; the created "
        "envelope is walked by the verifier's manifest interpreter (indices, dependencies, fetch -> integrated dependency with equal manifest digest, class ids).",
   design="4 C19",
   note=COMMON_NOTE + "Jinja2 / PyYAML enter through the rendered document (not modelled). Fixed findings F11, F11v (unquoted interpolation).",
   technique="Lean 4 proof (list arithmetic over all presence combinations) + exhaustive configuration-space correspondence + manifest walk on real output"),
}

NA_REASON = "check not yet built in this revision (work in progress; DESIGN.md section 4 describes the planned model and theorems)"

m = {
 "version": 1,
 "setup_cmd": "./setup.sh",
 "hooks": {"guard": "SUIT_GENERATOR_VERIF", "enable": "no source hooks are needed: the harness calls the repository's code in-process and through its CLI entry points",
           "baseline_off_cmd": "python3 tools/check_baseline.py", "source_commits": [], "add_only": True},
 "engines": [{"name": "lean-model", "path": "lean/", "serves_properties": sorted(CHECKS), "kind_free_text": "Lean 4 model + theorems (lake), native JSON-lines driver"},
             {"name": "harness", "path": "harness/", "serves_properties": sorted(CHECKS), "kind_free_text": "Python correspondence harness, translator (extract.py), decision procedure"}],
 "checks": [],
 "not_applicable": [],
 "notes": "Every check: ./check <id> --tier quick|thorough ; replays under replays/ ; known findings in known_findings.json ; see DESIGN.md.",
}
for p in props:
    i = p["id"]
    if i in CHECKS:
        c = CHECKS[i]
        m["checks"].append({
            "property_id": i,
            "quick_cmd": f"./check {i} --tier quick",
            "thorough_cmd": f"./check {i} --tier thorough",
            "evidence_file": f"evidence/{i}.json",
            "replay_cmd_template": f"./check {i} --replay {{path}}",
            "engine": "lean-model",
            "level_claimed": {"category": "proof", "text": c["text"], "design_ref": c["design"]},
            "level_note": c["note"],
            "technique": c["technique"],
        })
    else:
        m["not_applicable"].append({"property_id": i, "reason": NA_REASON})
json.dump(m, open(V / "MANIFEST.json", "w"), indent=1)
try:
    import jsonschema
    jsonschema.validate(m, json.load(open("/root/.vp/MANIFEST.schema.json")))
    print("MANIFEST.json valid;", len(m["checks"]), "checks")
except ImportError:
    print("written (jsonschema not available to validate)")
