"""Entry point of every check: ./check Cxx [--tier quick|thorough] [--replay FILE]"""
import argparse
import importlib
import json
import os
import sys
import traceback

from . import common


def _kill_descendants():
    """worker and model processes of this run must not outlive it"""
    import signal
    parents = {}
    for d in os.listdir("/proc"):
        if d.isdigit():
            try:
                with open(f"/proc/{d}/stat") as fh:
                    parents[int(d)] = int(fh.read().rsplit(")", 1)[1].split()[1])
            except OSError:
                pass
    me, todo, victims = os.getpid(), [os.getpid()], []
    while todo:
        x = todo.pop()
        for pid, pp in parents.items():
            if pp == x and pid != me:
                victims.append(pid)
                todo.append(pid)
    for pid in victims:
        try:
            os.kill(pid, signal.SIGKILL)
        except OSError:
            pass


def _watchdog(prop, tier):
    """a check never hangs: if the run is not over after many times its normal duration, the tool is stuck on some input of this run (outside the
    guarded worker pools).  That is reported as a violation without a minimal input - the stack of every thread goes into the replay file - and the
    process ends."""
    import faulthandler
    import threading
    limit = int(os.environ.get("VERIF_WATCHDOG_S", "2400" if tier == "quick" else "21600"))

    def fire():
        path = common.VERIF / "replays" / f"{prop}-watchdog.json"
        path.parent.mkdir(exist_ok=True)
        dump = common.VERIF / "replays" / f"{prop}-watchdog.stacks.txt"
        with open(dump, "w") as fh:
            faulthandler.dump_traceback(file=fh, all_threads=True)
        path.write_text(json.dumps({"kind": "check-did-not-finish", "property": prop, "tier": tier, "limit_s": limit, "stacks": str(dump.relative_to(common.VERIF)),
                                    "note": "the run did not finish within the limit: the tool does not answer on some input of this run; the stacks show where"}, indent=1))
        print(f"VIOLATION property={prop} replay={path.relative_to(common.VERIF)} no-failing-input-found", flush=True)
        _kill_descendants()
        os._exit(1)
    t = threading.Timer(limit, fire)
    t.daemon = True
    t.start()


def main():
    ap = argparse.ArgumentParser()
    ap.add_argument("prop")
    ap.add_argument("--tier", default=os.environ.get("VERIF_TIER", "quick"), choices=["quick", "thorough"])
    ap.add_argument("--replay")
    a = ap.parse_args()
    seed = int(os.environ.get("VERIF_SEED", "0") or 0)
    try:
        mod = importlib.import_module(f"harness.props.{a.prop.lower()}")
    except ModuleNotFoundError:
        print(f"no check for {a.prop}")
        return 2
    try:
        if a.replay:
            payload = json.loads(open(a.replay).read())
            return mod.replay(payload)
        _watchdog(a.prop, a.tier)
        return mod.run(a.tier, seed)
    except (KeyError, IndexError, TypeError, AttributeError, AssertionError) as e:
        # the harness could not make sense of an answer of the tool (an "ok" that is not there, a None where bytes were expected ...): on the unchanged
        # tree this never happens (every tier, many seeds), so the tool's behaviour has changed in a way the run could not follow - the property is no
        # longer shown to hold.  Reported like a broken correspondence, with the traceback as the replay; environment trouble (OSError, MemoryError,
        # a dead model process) stays a harness error.
        if a.replay:
            traceback.print_exc()
            return 2
        tb = traceback.format_exc()
        traceback.print_exc()
        path = common.VERIF / "replays" / f"{a.prop}-harness-lost.json"
        path.parent.mkdir(exist_ok=True)
        path.write_text(json.dumps({"kind": "correspondence-broken", "property": a.prop, "exception": type(e).__name__, "traceback": tb[-6000:],
                                    "note": "the harness could not interpret an answer of the tool; no failing input was isolated"}, indent=1))
        print(f"VIOLATION property={a.prop} replay={path.relative_to(common.VERIF)} no-failing-input-found")
        return 1
    except Exception as e:
        traceback.print_exc()
        # an exception of any other class that was raised *inside the tool's own code* and reached the harness where the unchanged tool never raises
        # (a ValueError while reading a VERSION file, say): the tool's behaviour changed in a way the run could not follow - same report as above
        frames = traceback.extract_tb(e.__traceback__)
        in_tool = any(str(f.filename).startswith(str(common.REPO) + os.sep) for f in frames)
        if in_tool and not a.replay and not isinstance(e, (OSError, MemoryError)):
            path = common.VERIF / "replays" / f"{a.prop}-harness-lost.json"
            path.parent.mkdir(exist_ok=True)
            path.write_text(json.dumps({"kind": "correspondence-broken", "property": a.prop, "exception": type(e).__name__, "traceback": traceback.format_exc()[-6000:],
                                        "note": "the tool raised where the unchanged tool answers; no failing input was isolated"}, indent=1))
            print(f"VIOLATION property={a.prop} replay={path.relative_to(common.VERIF)} no-failing-input-found")
            return 1
        print(f"HARNESS-ERROR property={a.prop}")
        return 2


if __name__ == "__main__":
    sys.exit(main())
