"""Entry point of every check: ./check Cxx [--tier quick|thorough] [--replay FILE]"""
import argparse
import importlib
import json
import os
import sys
import traceback

from . import common


def main():
    ap = argparse.ArgumentParser()
    ap.add_argument("prop")
    ap.add_argument("--tier", default=os.environ.get("VERIF_TIER", "quick"), choices=["quick", "thorough"])
    ap.add_argument("--replay")
    a = ap.parse_args()
    seed = int(os.environ.get("VERIF_SEED", "0") or 0)
    try:
        mod = importlib.import_module(f"harness.props.{a.prop.lower()}")
    except ModuleNotFoundError:
        print(f"no check for {a.prop}")
        return 2
    try:
        if a.replay:
            payload = json.loads(open(a.replay).read())
            return mod.replay(payload)
        return mod.run(a.tier, seed)
    except Exception:
        traceback.print_exc()
        print(f"HARNESS-ERROR property={a.prop}")
        return 2


if __name__ == "__main__":
    sys.exit(main())
