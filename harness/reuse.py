"""Objects of the tool reused for a sequence of requests (library use): every answer must be the answer a fresh object gives to the
same request.  Shared by C04 / C09 (Signer), C06 / C14 (Encryptor), C15 (KeyGenerator) and C18 (all of them)."""
from __future__ import annotations

import importlib.util
import os
import shutil
import tempfile

from . import common, signing


def _load(path, name):
    spec = importlib.util.spec_from_file_location(name, path)
    mod = importlib.util.module_from_spec(spec)
    spec.loader.exec_module(mod)
    return mod


def _party_dirs(d):
    """two key directories holding keys of the *same names* and different key material"""
    from cryptography.hazmat.primitives.asymmetric import ec, ed25519
    from cryptography.hazmat.primitives import serialization
    out = {}
    for party in ("vendor_a", "vendor_b"):
        pd = os.path.join(d, party)
        os.makedirs(pd)
        keys = {"sign_ed": ed25519.Ed25519PrivateKey.generate(), "sign_p256": ec.generate_private_key(ec.SECP256R1())}
        for name, k in keys.items():
            with open(os.path.join(pd, name + ".pem"), "wb") as fh:
                fh.write(k.private_bytes(serialization.Encoding.PEM, serialization.PrivateFormat.PKCS8, serialization.NoEncryption()))
        aes = os.urandom(32)
        with open(os.path.join(pd, "fw_key.bin"), "wb") as fh:
            fh.write(aes)
        out[party] = {"dir": pd, "keys": keys, "aes": aes}
    return out


def _verify_last_block(envelope_bytes, key, alg):
    """does the last COSE_Sign1 of the envelope verify under `key` over the envelope's digest? (None: there is no block)"""
    from . import cbortree as ct
    from cryptography.exceptions import InvalidSignature
    from cryptography.hazmat.primitives import hashes
    from cryptography.hazmat.primitives.asymmetric import ec
    from cryptography.hazmat.primitives.asymmetric.utils import encode_dss_signature
    root = ct.decode(envelope_bytes)
    wrapper = next(v for k, v in root.children[0].children if k.major == 0 and k.arg == 2)
    items = ct.decode(wrapper.data).children
    blocks = [x for x in items[1:] if x.major == 2 and x.data[:1] == b"\xd2"]
    if not blocks:
        return None
    arr = ct.decode(blocks[-1].data).children[0].children
    prot, sig = arr[0].data, arr[3].data
    msg = ct.encode(ct.arr([ct.tstr("Signature1"), ct.bstr(prot), ct.bstr(b""), ct.bstr(items[0].data)]))
    pub = key.public_key()
    try:
        if alg == "eddsa":
            pub.verify(sig, msg)
        else:
            w = len(sig) // 2
            pub.verify(encode_dss_signature(int.from_bytes(sig[:w], "big"), int.from_bytes(sig[w:], "big")), msg, ec.ECDSA(hashes.SHA256()))
        return True
    except InvalidSignature:
        return False


def signer_reuse(res, envelope_bytes: bytes, prop: str):
    """one Signer object serving a sequence of requests (contexts, keys, algorithms, already-signed actions)"""
    import cbor2
    from suit_generator.suit_sign_script_base import SuitSignAlgorithms, SignatureAlreadyPresentActions
    mod = _load(common.REPO / "ncs" / "sign_script.py", "verif_sign_reuse")
    kms = str(common.REPO / "ncs" / "basic_kms.py")
    with tempfile.TemporaryDirectory(prefix="verif_reuse_") as d:
        parties = _party_dirs(d)

        def request(signer, env_bytes, party, key_name, alg, action):
            try:
                out = signer.sign_envelope(cbor2.loads(env_bytes), key_name, 0x40022100, SuitSignAlgorithms(alg), parties[party]["dir"], kms,
                                           SignatureAlreadyPresentActions(action))
                return cbor2.dumps(out)
            except BaseException as e:  # noqa
                return "error:" + type(e).__name__
        presigned = request(mod.Signer(), envelope_bytes, "vendor_a", "sign_ed", "eddsa", "error")
        if not isinstance(presigned, bytes):
            res.spec_failures.append({"reuse": "signer", "what": "signing an unsigned envelope with a fresh signer failed: " + str(presigned)})
            return
        # a second, different envelope: what one call learnt about its envelope (digest, wrapper) is of no use to the next (C04-t)
        env2 = None
        try:
            from . import suitcases as _sc
            from .props.c04 import strip_blocks as _sb
            for _i in range(5, 12):
                d2, f2, _ = _sc.make_case(778, _i, depth=0)
                c2 = _sc.run_impl_create(_sb(d2), f2)
                if "ok" in c2 and bytes.fromhex(c2["ok"]) != envelope_bytes:
                    env2 = bytes.fromhex(c2["ok"])
                    break
        except Exception:  # noqa
            env2 = None
        seq = [(envelope_bytes, "vendor_a", "sign_ed", "eddsa", "error")] + ([(env2, "vendor_a", "sign_ed", "eddsa", "error"), (env2, "vendor_b", "sign_p256", "es-256", "error")] if env2 else []) + [
               (envelope_bytes, "vendor_b", "sign_ed", "eddsa", "error"),
               (presigned, "vendor_b", "sign_ed", "eddsa", "skip"), (envelope_bytes, "vendor_b", "sign_p256", "es-256", "error"),
               (envelope_bytes, "vendor_a", "sign_p256", "es-256", "error"), (presigned, "vendor_a", "sign_ed", "eddsa", "error"),
               (envelope_bytes, "vendor_a", "sign_ed", "eddsa", "skip"), (presigned, "vendor_b", "sign_ed", "eddsa", "remove-old"),
               (envelope_bytes, "vendor_a", "sign_ed", "eddsa", "error")]
        for order_name, order in (("forward", seq), ("backward", list(reversed(seq)))):
            shared = mod.Signer()
            for k, (env, party, key_name, alg, action) in enumerate(order):
                got = request(shared, env, party, key_name, alg, action)
                fresh = request(mod.Signer(), env, party, key_name, alg, action)
                res.case(["signer-reuse", prop, order_name, k], nontrivial=True)
                res.count("reuse:signer")
                what = None
                if isinstance(got, str) or isinstance(fresh, str):
                    if got != fresh:
                        what = f"reused signer answers {got if isinstance(got, str) else 'a signed envelope'}, a fresh signer {fresh if isinstance(fresh, str) else 'a signed envelope'}"
                elif alg == "eddsa" and got != fresh:
                    what = "reused signer and fresh signer produce different envelopes for a deterministic signature"
                elif env is envelope_bytes or env is env2 or action == "remove-old":
                    v = _verify_last_block(got, parties[party]["keys"][key_name], alg)
                    if v is not True:
                        what = ("the envelope came back without a signature" if v is None else
                                f"the signature does not verify under the key of {party} (the context of this call)")
                if what:
                    res.spec_failures.append({"reuse": "signer", "order": order_name, "position": k, "request": [party, key_name, alg, action, "presigned" if env is presigned else "unsigned"],
                                              "what": what})


def encryptor_reuse(res, prop: str):
    """one Encryptor object serving requests with different contexts (key directories) and key-wrap algorithms"""
    from cryptography.hazmat.primitives.ciphers.aead import AESGCM
    from suit_generator.suit_encrypt_script_base import SuitDigestAlgorithms, SuitKWAlgorithms
    from . import cbortree as ct
    mod = _load(common.REPO / "ncs" / "encrypt_script.py", "verif_encrypt_reuse")
    kms = str(common.REPO / "ncs" / "basic_kms.py")
    with tempfile.TemporaryDirectory(prefix="verif_reuse_") as d:
        parties = _party_dirs(d)
        fw = bytes(range(200))
        shared = mod.suit_encryptor_factory()
        for k, party in enumerate(["vendor_a", "vendor_b", "vendor_b", "vendor_a"]):
            res.case(["encryptor-reuse", prop, k], nontrivial=True)
            res.count("reuse:encryptor")
            if k == 1:
                # in between, the same object converts a blob whose key was wrapped with AES-KW (another key-wrap algorithm than the calls around it):
                # each call's info names the algorithm of *that* call (C06-s)
                try:
                    _c, _t, kwinfo = shared.generate(bytes(12) + bytes(16) + b"blob", bytes(range(40)), 7, SuitKWAlgorithms("aes-kw-256"))[:3]
                    kit = ct.decode(kwinfo)
                    kenc = (kit.nested if kit.nested is not None else ct.decode(kit.data)).children[0].children
                    kalg = dict((kk.arg, vv) for kk, vv in ct.decode(kenc[3].children[0].children[0].data).children)
                    res.count("reuse:encryptor:aes-kw-in-between")
                except BaseException as e:  # noqa
                    res.count("reuse:encryptor:aes-kw-in-between:" + type(e).__name__)
            try:
                content, tag, info, digest, ln = shared.encrypt_and_generate(fw, "fw_key", 7, parties[party]["dir"], SuitDigestAlgorithms("sha-256"),
                                                                             SuitKWAlgorithms("direct"), kms)
            except BaseException as e:  # noqa
                res.spec_failures.append({"reuse": "encryptor", "position": k, "what": "a reused encryptor failed on a valid request: " + type(e).__name__})
                continue
            it = ct.decode(info)
            enc = (it.nested if it.nested is not None else ct.decode(it.data)).children[0].children
            iv = dict((kk.arg, vv) for kk, vv in enc[1].children)[5].data
            # the recipients of this call's info are this call's: exactly one, naming the key identifier asked for (nothing left over from earlier calls)
            try:
                recips = enc[3].children
                kids = [ct.decode(dict((kk.arg, vv) for kk, vv in r.children[1].children)[4].data).arg for r in recips]
            except Exception:  # noqa
                recips, kids = None, None
            try:
                r0 = recips[0].children
                alg_here = [(-1 - vv.arg if vv.major == 1 else vv.arg) for kk, vv in r0[1].children if kk.arg == 1]
                ct0 = r0[2]
            except Exception:  # noqa
                alg_here, ct0 = None, None
            if alg_here != [-6] or ct0 is None or not (ct0.major == 7 and ct0.arg == 22):
                res.spec_failures.append({"reuse": "encryptor", "position": k, "context": party, "recipient_algorithm": alg_here,
                                          "what": "a direct-key call on a reused encryptor does not publish the direct recipient (algorithm -6, nil wrapped key) of this call"})
            if recips is None or len(recips) != 1 or kids != [7]:
                res.spec_failures.append({"reuse": "encryptor", "position": k, "context": party, "recipients": None if recips is None else len(recips), "key_ids": kids,
                                          "what": "the encryption info of a later call in the same process does not list exactly the one recipient of this call"})
            aad = ct.encode(ct.arr([ct.tstr("Encrypt"), ct.bstr(enc[0].data), ct.bstr(b"")]))
            try:
                ok = AESGCM(parties[party]["aes"]).decrypt(iv, content + tag, aad) == fw
            except Exception:
                ok = False
            if not ok:
                res.spec_failures.append({"reuse": "encryptor", "position": k, "context": party,
                                          "what": f"the artifacts do not decrypt with the key named fw_key of {party} (the context of this call)"})


def keygen_reuse(res, prop: str):
    """one KeyGenerator object asked for a sequence of key pairs of different types"""
    from cryptography.hazmat.primitives import serialization
    from suit_generator import cmd_keys
    from suit_generator.exceptions import GeneratorError
    with tempfile.TemporaryDirectory(prefix="verif_reuse_") as d:
        gen = cmd_keys.KeyGenerator()
        seq = [("secp256r1", "pem", "pkcs8", "default"), ("ed25519", "pem", "pkcs8", "default"), ("ed25519", "pem", "pkcs1", "default"),
               ("secp384r1", "der", "pkcs1", "default"), ("ed448", "der", "pkcs8", "default"), ("secp521r1", "pem", "pkcs8", "default")]
        for k, (ktype, enc, pf, pubf) in enumerate(seq):
            prefix = os.path.join(d, f"reuse{k}")
            res.case(["keygen-reuse", prop, k], nontrivial=True)
            res.count("reuse:keygen")
            try:
                gen.create_key_pair(prefix, ktype, enc, pf, pubf, "none")
                outcome = "ok"
            except GeneratorError:
                outcome = "GeneratorError"
            except BaseException as e:  # noqa
                outcome = type(e).__name__
            unsupported = ktype.startswith("ed") and pf == "pkcs1"
            if unsupported:
                if outcome != "GeneratorError":
                    res.spec_failures.append({"reuse": "keygen", "position": k, "request": [ktype, enc, pf, pubf], "what": f"an unsupported combination was not reported by a reused generator ({outcome})"})
                continue
            if outcome != "ok":
                res.spec_failures.append({"reuse": "keygen", "position": k, "request": [ktype, enc, pf, pubf], "what": "a reused generator failed on a supported request: " + outcome})
                continue
            pb = open(f"{prefix}_priv.{enc}", "rb").read()
            priv = (serialization.load_pem_private_key if enc == "pem" else serialization.load_der_private_key)(pb, None)
            kind = priv.curve.name if hasattr(priv, "curve") else type(priv).__name__.lower()
            if ktype not in kind:
                res.spec_failures.append({"reuse": "keygen", "position": k, "request": [ktype, enc, pf, pubf], "file_holds": kind,
                                          "what": f"asked for a {ktype} key, the private key file written by a reused generator holds a {kind} key"})


def signature_value_sweep(res, envelope_bytes: bytes, prop: str, n: int):
    """the signature value is random: sign the same envelope again and again (ECDSA P-256 / P-384 / P-521, both EdDSA forms) so that values with every
    leading byte occur - among them those that look like the start of another encoding (0x30 DER sequence, 0x02, 0x00, 0x80, 0xff); each must be
    attached as it is and verify"""
    import cbor2
    from collections import Counter
    from suit_generator.suit_sign_script_base import SuitSignAlgorithms, SignatureAlreadyPresentActions
    from . import cbortree as ct
    mod = _load(common.REPO / "ncs" / "sign_script.py", "verif_sign_sweep")
    kms = str(common.REPO / "ncs" / "basic_kms.py")
    env = cbor2.loads(envelope_bytes)
    firsts = Counter()
    plan = [("es-256", "key_p256", 0.7), ("es-384", "key_p384", 0.2), ("es-521", "key_p521", 0.05), ("eddsa", "key_ed25519", 0.05)]
    for alg, key_name, share in plan:
        key = signing.load_private(key_name)
        failures = 0
        for i in range(max(3, int(n * share))):
            res.case(["signature-sweep", prop, alg, i], nontrivial=(i == 0))
            try:
                out = cbor2.dumps(mod.Signer().sign_envelope(cbor2.loads(envelope_bytes), key_name, 0x10, SuitSignAlgorithms(alg), signing.keys_dir(), kms,
                                                             SignatureAlreadyPresentActions("error")))
            except BaseException as e:  # noqa
                res.spec_failures.append({"sweep": alg, "attempt": i, "what": f"signing the same valid envelope failed at attempt {i} (the outcome depends on the random signature value): "
                                                                               + type(e).__name__ + ": " + str(e)[:120]})
                failures += 1
                if failures >= 2:
                    break
                continue
            v = _verify_last_block(out, key, alg if alg != "es-384" and alg != "es-521" else alg)
            root = ct.decode(out)
            wrapper = next(vv for kk, vv in root.children[0].children if kk.major == 0 and kk.arg == 2)
            sig = ct.decode(ct.decode(wrapper.data).children[-1].data).children[0].children[3].data
            firsts[sig[0]] += 1
            width = {"es-256": 64, "es-384": 96, "es-521": 132, "eddsa": 64}[alg]
            if len(sig) != width:
                res.spec_failures.append({"sweep": alg, "attempt": i, "signature": sig.hex(), "what": f"the signature value has {len(sig)} bytes, not the fixed {width}"})
            elif alg.startswith("es-") and not _verify_ecdsa(key, sig, out) or (alg == "eddsa" and v is not True):
                res.spec_failures.append({"sweep": alg, "attempt": i, "signature": sig.hex(), "what": "a signature value attached by the signer does not verify"})
            if len(res.spec_failures) > 5:
                return
    res.count("signature-sweep:distinct-leading-bytes", len(firsts))
    res.count("signature-sweep:leading-0x30", firsts.get(0x30, 0))


def _verify_ecdsa(key, sig, envelope_bytes):
    from . import cbortree as ct
    from cryptography.exceptions import InvalidSignature
    from cryptography.hazmat.primitives import hashes
    from cryptography.hazmat.primitives.asymmetric import ec
    from cryptography.hazmat.primitives.asymmetric.utils import encode_dss_signature
    root = ct.decode(envelope_bytes)
    wrapper = next(v for k, v in root.children[0].children if k.major == 0 and k.arg == 2)
    items = ct.decode(wrapper.data).children
    arr = ct.decode(items[-1].data).children[0].children
    msg = ct.encode(ct.arr([ct.tstr("Signature1"), ct.bstr(arr[0].data), ct.bstr(b""), ct.bstr(items[0].data)]))
    h = {256: hashes.SHA256(), 384: hashes.SHA384(), 521: hashes.SHA512()}[key.curve.key_size]
    w = len(sig) // 2
    try:
        key.public_key().verify(encode_dss_signature(int.from_bytes(sig[:w], "big"), int.from_bytes(sig[w:], "big")), msg, ec.ECDSA(h))
        return True
    except InvalidSignature:
        return False


def converter_reuse(res, prop: str):
    """one KeyConverter object asked for its output more than once (a preview, then the file; the file twice): every output is the first output"""
    from cryptography.hazmat.primitives import serialization
    from cryptography.hazmat.primitives.asymmetric import ec, ed25519, ed448
    from suit_generator import cmd_convert
    gens = [lambda: ec.derive_private_key(326, ec.SECP256R1()), lambda: ec.derive_private_key(77, ec.SECP384R1()), lambda: ec.derive_private_key(5, ec.SECP521R1()),
            lambda: ed25519.Ed25519PrivateKey.from_private_bytes(bytes(range(32))), lambda: ed448.Ed448PrivateKey.from_private_bytes(bytes(range(57)))]
    with tempfile.TemporaryDirectory(prefix="verif_reuse_") as d:
        for k, g in enumerate(gens):
            key = g()
            inp, outp = os.path.join(d, f"k{k}.pem"), os.path.join(d, f"k{k}.c")
            with open(inp, "wb") as fh:
                fh.write(key.private_bytes(serialization.Encoding.PEM, serialization.PrivateFormat.PKCS8, serialization.NoEncryption()))
            res.case(["converter-reuse", prop, k], nontrivial=True)
            res.count("reuse:converter")
            try:
                conv = cmd_convert.KeyConverter(inp, outp, columns_count=[8, 12, 1, 64, 5][k])
                first = conv.prepare_file_contents()
                second = conv.prepare_file_contents()
                conv.generate_c_file()
                written = open(outp).read()
                conv.generate_c_file()
                written2 = open(outp).read()
            except BaseException as e:  # noqa
                res.spec_failures.append({"reuse": "converter", "position": k, "what": "a converter used more than once failed: " + type(e).__name__})
                continue
            if not (first == second == written == written2):
                which = "second preview" if first != second else ("file" if first != written else "second file")
                res.spec_failures.append({"reuse": "converter", "position": k, "first_output": first[:300], "differing_output": (second if first != second else written if first != written else written2)[:300],
                                          "what": f"one converter object, several outputs: the {which} is not the first output (the C array of the same key)"})
