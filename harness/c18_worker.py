"""Worker for C18: executes a list of operations in the given order inside ONE interpreter and prints one JSON line
with the outputs (hex / text) keyed by operation id.  Run as a subprocess by harness/props/c18.py, possibly with a
different PYTHONHASHSEED and working directory."""
import copy
import io
import json
import os
import sys
import tempfile


def main():
    spec = json.load(open(sys.argv[1]))
    repo = spec["repo"]
    sys.path.insert(0, repo)
    sys.path.insert(1, os.path.join(repo, "ncs"))
    import logging
    logging.disable(logging.CRITICAL)
    out = {}
    work = tempfile.mkdtemp(prefix="verif_c18w_")
    rounds = int(spec.get("rounds", 1))
    first = {}
    drift = []
    for rnd in range(rounds):
        # a long-lived interpreter (a build server, a test bench): the whole list again and again; the n-th answer is the first answer
        for op in spec["ops"]:
            run_op(op, out, work)
            oid = op["id"]
            if rnd == 0:
                first[oid] = out[oid]
            elif out[oid] != first[oid] and len(drift) < 5:
                drift.append({"operation": oid, "round": rnd, "now": json.dumps(out[oid])[:300], "first": json.dumps(first[oid])[:300]})
    out = first
    if drift:
        out["__drift__"] = drift
    print("C18RESULT " + json.dumps(out))


def run_op(op, out, work):
    if True:
        oid = op["id"]
        try:
            if op.get("pre_write"):
                # "@RW@" = a directory private to this interpreter: the same path spelling for every operation of this history
                op = json.loads(json.dumps(op).replace("@RW@", work))
            for wp, hx in (op.get("pre_write") or {}).items():
                with open(wp, "wb") as fh:          # the operation's own input files, (re)written just before it runs
                    fh.write(bytes.fromhex(hx))
            if op["kind"] == "create":
                from suit_generator.input_output import InputOutputMixin
                if op.get("cwd"):
                    os.chdir(op["cwd"])
                desc = copy.deepcopy(op["desc"])
                b = InputOutputMixin.prepare_suit_data(desc)
                if op.get("twice"):
                    # same (mutated) description object again
                    b2 = InputOutputMixin.prepare_suit_data(desc)
                    out[oid] = [b.hex(), b2.hex()]
                else:
                    out[oid] = b.hex()
            elif op["kind"] == "create_file":
                from suit_generator import cmd_create
                if op.get("cwd"):
                    os.chdir(op["cwd"])
                o = os.path.join(work, f"{oid}.suit")
                cmd_create.main(input_file=op["path"], input_format="AUTO", output_file=o)
                out[oid] = open(o, "rb").read().hex()
            elif op["kind"] == "parse":
                from suit_generator.suit.envelope import SuitEnvelopeTagged
                out[oid] = json.dumps(SuitEnvelopeTagged.from_cbor(bytes.fromhex(op["bytes"])).to_obj(), sort_keys=False)
            elif op["kind"] == "parse_file":
                from suit_generator import cmd_parse
                dd = os.path.join(work, f"pf{oid}")
                os.makedirs(dd, exist_ok=True)
                inp, outp = os.path.join(dd, "in.suit"), os.path.join(dd, "out." + op["fmt"])
                open(inp, "wb").write(bytes.fromhex(op["bytes"]))
                cmd_parse.main(input_file=inp, output_file=outp, output_format=op["fmt"], parse_hierarchy=op["hierarchy"])
                out[oid] = open(outp).read()
            elif op["kind"] == "mpi":
                from suit_generator import cmd_mpi
                o = os.path.join(work, f"{oid}.hex")
                cmd_mpi.main(mpi="generate", output_file=o, **op["args"])
                out[oid] = open(o).read()
            elif op["kind"] == "cache":
                from suit_generator import cmd_cache_create as m
                c = m.CachePartition(op["eb"])
                for u, p in op["slots"]:
                    c.add_cache_slot(u, bytes.fromhex(p))
                o = os.path.join(work, f"{oid}.bin")
                c.close_and_save_cache(o)
                out[oid] = open(o, "rb").read().hex()
            elif op["kind"] == "cache_env":
                from suit_generator import cmd_cache_create
                dd = os.path.join(work, f"ce{oid}")
                os.makedirs(dd, exist_ok=True)
                inp, oc, oe = os.path.join(dd, "in.suit"), os.path.join(dd, "cache.bin"), os.path.join(dd, "out.suit")
                open(inp, "wb").write(bytes.fromhex(op["envelope"]))
                cmd_cache_create.main(cache_create_subcommand="from_envelope", eb_size=op["eb"], input_envelope=inp, output_envelope=oe, output_file=oc,
                                      omit_payload_regex=op.get("omit"), dependency_regex=op.get("dep"))
                out[oid] = {"cache": open(oc, "rb").read().hex(), "envelope": open(oe, "rb").read().hex()}
            elif op["kind"] == "boot":
                from suit_generator.cmd_image import ImageCreator
                d = os.path.join(work, f"boot{oid}")
                os.makedirs(d, exist_ok=True)
                paths = []
                for i, hx in enumerate(op["files"]):
                    p = os.path.join(d, f"e{i}.suit")
                    open(p, "wb").write(bytes.fromhex(hx))
                    paths.append(p)
                od = os.path.join(d, "out")
                os.makedirs(od, exist_ok=True)
                ImageCreator.create_files_for_boot(paths, od, op["base"], None, op["soc"])
                out[oid] = {f: open(os.path.join(od, f)).read() for f in sorted(os.listdir(od))}
        except BaseException as e:  # noqa
            out[oid] = {"err": type(e).__name__}


if __name__ == "__main__":
    main()
