"""Shared machinery of the checks: paths, the Lean build/audit stage, the native model driver,
evidence / replay writers, the known-findings file and the verdict logic (DESIGN.md section 2.5)."""
from __future__ import annotations

import fcntl
import hashlib
import json
import os
import random
import re
import subprocess
import sys
import tempfile
import time
from contextlib import contextmanager
from pathlib import Path

VERIF = Path(__file__).resolve().parent.parent
LEAN = VERIF / "lean"
REPO = Path(os.environ.get("REPO", "/repo"))
DRIVER = LEAN / ".lake" / "build" / "bin" / "driver"
PY = "/venv/bin/python"
ALLOWED_AXIOMS = {"propext", "Classical.choice", "Quot.sound"}
FORBIDDEN = re.compile(r"\b(sorry|admit|native_decide|bv_decide|implemented_by|unsafe)\b|^\s*axiom\s|maxHeartbeats\s+0")

TRUSTED_BASE = [
    "Lean 4.33 kernel (lake build; leanchecker re-check in the thorough tier)",
    "axioms allowed: propext, Classical.choice, Quot.sound (audited per theorem with Lean.collectAxioms); no sorry/native_decide/bv_decide/own axioms",
    "hand-written executable Lean model of the Python code path, tied to /repo by the correspondence run of this check",
    "harness/extract.py: tables and behavioural flags re-extracted from /repo's live Python objects on every run",
]


STALE = b"\xa5STALE-OUTPUT-OF-AN-EARLIER-RUN\n" * 700      # ~22 KB: longer than most outputs


_prep_counter = [0]


def make_stale(path):
    """state of an output path before a command runs, alternating from call to call: it already exists and holds a longer file from an
    earlier run (a command must replace it, not write over its head) / it does not exist (a refused command must not create it)"""
    _prep_counter[0] += 1
    if _prep_counter[0] % 3 == 0:
        if os.path.exists(path):
            os.unlink(path)
        return
    with open(path, "wb") as fh:
        fh.write(STALE)


def was_written(path) -> bool:
    """has the command written this output (as opposed to: the stale file of make_stale is still there / nothing is there)?"""
    if not os.path.exists(path):
        return False
    with open(path, "rb") as fh:
        return fh.read(len(STALE) + 1) != STALE


def run_cli(args, cwd, timeout=120):
    """the real command line (argparse and all) in its own interpreter; the log file goes to cwd"""
    env = dict(os.environ)
    env["PYTHONPATH"] = str(REPO)
    # paths below the working directory are written the ways users write them: absolute, relative ("out.hex", "sub/out.hex") or with a leading "./";
    # the form is a function of the argument list, so a replay meets the same one
    import zlib
    args = [str(a) for a in args]
    form = zlib.crc32(" ".join(args).encode()) % 3
    cwd_abs = os.path.realpath(cwd)
    if form:
        def respell(a):
            if os.path.isabs(a) and os.path.realpath(a).startswith(cwd_abs + os.sep):
                rel = os.path.relpath(os.path.realpath(a), cwd_abs)
                return rel if form == 1 else "./" + rel
            return a
        args = [respell(a) if i > 0 and args[i - 1].startswith("--") and not a.startswith("-") else a for i, a in enumerate(args)]
    try:
        p = subprocess.run([PY, str(REPO / "suit_generator" / "cli.py")] + args, cwd=cwd, env=env, capture_output=True, text=True, timeout=timeout)
    except subprocess.TimeoutExpired:
        return None, f"no answer within {timeout} s"
    return p.returncode, (p.stdout + p.stderr)[-1500:]


def call_main(main, cwd, **kwargs):
    """`main(**kwargs)` in-process the way a user invokes the command from a directory: path arguments that lie below `cwd` are given absolute, relative
    ("out.hex", "sub/out.hex") or with a leading "./" - the form is a function of the arguments, so a replay meets the same one - with `cwd` as the
    working directory.  Lists of paths and "URI,path" items are treated alike."""
    import zlib
    from pathlib import Path as _P
    cwd_abs = os.path.realpath(cwd)
    form = zlib.crc32(repr(sorted((k, str(v)) for k, v in kwargs.items())).encode()) % 3

    def respell(a):
        if isinstance(a, (list, tuple)):
            return type(a)(respell(x) for x in a)
        was_path = isinstance(a, _P)
        t = str(a) if was_path else a
        if not isinstance(t, str):
            return a
        prefix = ""
        if "," in t and not os.path.isabs(t) and os.path.isabs(t.split(",", 1)[1]):
            prefix, t = t.split(",", 1)[0] + ",", t.split(",", 1)[1]
        if os.path.isabs(t) and os.path.realpath(t).startswith(cwd_abs + os.sep):
            rel = os.path.relpath(os.path.realpath(t), cwd_abs)
            t = rel if form == 1 else "./" + rel
            return _P(t) if was_path else prefix + t
        return a
    old = os.getcwd()
    try:
        if form:
            kwargs = {k: respell(v) for k, v in kwargs.items()}
        os.chdir(cwd)
        return main(**kwargs)
    finally:
        os.chdir(old)


def run_ncs_build(args, cwd, core_config=None, timeout=120, cores=("sysbuild",)):
    """ncs/build.py as the NCS build system starts it (a script with --core / --zephyr-base and a sub-command), in its own interpreter"""
    env = dict(os.environ)
    env["PYTHONPATH"] = str(REPO)
    kc = core_config
    if kc is None:
        kc = os.path.join(cwd, "core.config")
        if not os.path.exists(kc):
            with open(kc, "w") as fh:
                fh.write("CONFIG_BOARD=\"nrf54h20dk\"\n")
    cmd = [PY, str(REPO / "ncs" / "build.py"), str(args[0])] + [x for c_ in cores for x in ("--core", f"{c_},,,{kc}")] + ["--zephyr-base", str(cwd)] + [str(a) for a in args[1:]]
    try:
        p = subprocess.run(cmd, cwd=cwd, env=env, capture_output=True, text=True, timeout=timeout)
    except subprocess.TimeoutExpired:
        return None, f"no answer within {timeout} s"
    return p.returncode, (p.stdout + p.stderr)[-1500:]


def spellings(n: int):
    """the ways a number is written on a command line; each must be read as the number it denotes"""
    out = [str(n), hex(n), "0x%X" % n, "0x%08x" % n]
    return list(dict.fromkeys(out))


# decimal numbers whose digits are also hex digits of a plausible width, powers of ten, and identifiers as Nordic writes them
CLI_NUMBERS = [12345678, 40022100, 99999999, 10000000, 4096, 65536, 16, 100, 255, 256, 0, 7, 0x40022100, 0x7FFFFFE0, 0xFFFFFFFF, 1234, 20240926]


def ensure_repo_on_path():
    p = str(REPO)
    if p not in sys.path:
        sys.path.insert(0, p)
    ncs = str(REPO / "ncs")
    if ncs not in sys.path:
        sys.path.insert(1, ncs)


def speed_patch():
    """`log_call` walks the whole stack with inspect.stack() on every call (93 % of create/parse time).
    Replace it *in this process only* by a cheap equivalent; a sampled fraction of cases runs unpatched."""
    import inspect

    if getattr(inspect, "_verif_patched", False):
        return
    orig = inspect.stack

    def fast_stack(context=1):
        f = sys._getframe(1)
        out = []
        n = 0
        while f is not None and n < 3:
            out.append(inspect.FrameInfo(f, f.f_code.co_filename, f.f_lineno, f.f_code.co_name, None, None))
            f = f.f_back
            n += 1
        return out

    inspect._verif_orig_stack = orig
    inspect.stack = fast_stack
    inspect._verif_patched = True


@contextmanager
def build_lock():
    lock = LEAN / ".build.lock"
    with open(lock, "w") as fh:
        fcntl.flock(fh, fcntl.LOCK_EX)
        try:
            yield
        finally:
            fcntl.flock(fh, fcntl.LOCK_UN)


def run(cmd, cwd=None, timeout=3600, env=None):
    e = dict(os.environ)
    if env:
        e.update(env)
    p = subprocess.run(cmd, cwd=cwd, stdout=subprocess.PIPE, stderr=subprocess.STDOUT, text=True, timeout=timeout, env=e)
    return p.returncode, p.stdout


class StageA:
    """Translator + kernel stage.  `ok_driver`: the model driver is built; `ok_proofs`: the property's theorem
    module compiles; `axioms`: theorem -> axioms used."""

    def __init__(self):
        self.ok_extract = True
        self.ok_driver = False
        self.ok_proofs = False
        self.log = ""
        self.axioms = {}
        self.missing = []
        self.bad_axioms = {}
        self.forbidden_hits = []
        self.extract_notes = {}
        self.wall = 0.0

    @property
    def ok(self):
        return self.ok_extract and self.ok_driver and self.ok_proofs and not self.missing and not self.bad_axioms and not self.forbidden_hits


def expected_obligations(prop: str) -> list[str]:
    ob = json.loads((LEAN / "obligations.json").read_text())
    return ob.get(prop, [])


def scan_forbidden() -> list[str]:
    hits = []
    for f in list((LEAN / "SuitVerif").rglob("*.lean")):
        in_block = 0
        for i, line in enumerate(f.read_text().splitlines(), 1):
            # strip comments (line comments and nested block comments, approximately)
            s = line
            out = ""
            j = 0
            while j < len(s):
                if s.startswith("/-", j):
                    in_block += 1
                    j += 2
                elif s.startswith("-/", j) and in_block:
                    in_block -= 1
                    j += 2
                elif in_block:
                    j += 1
                elif s.startswith("--", j):
                    break
                else:
                    out += s[j]
                    j += 1
            if FORBIDDEN.search(out):
                hits.append(f"{f.relative_to(LEAN)}:{i}: {line.strip()}")
    return hits


def stage_a(prop: str, thorough: bool = False) -> StageA:
    """extract -> lake build driver -> lake build Props.<prop> -> axiom audit."""
    st = StageA()
    t0 = time.time()
    with build_lock():
        rc, out = run([PY, str(VERIF / "harness" / "extract.py"), "--json"], cwd=VERIF, env={"REPO": str(REPO)})
        if rc != 0:
            st.ok_extract = False
            st.log += "extract.py failed:\n" + out[-4000:]
        else:
            try:
                st.extract_notes = json.loads(out.strip().splitlines()[-1])
            except Exception:
                st.extract_notes = {}
        rc, out = run(["lake", "build", "driver"], cwd=LEAN)
        st.ok_driver = rc == 0 and DRIVER.exists()
        if rc != 0:
            st.log += "lake build driver failed:\n" + out[-6000:]
            # the tables regenerated from the source no longer compile (the source changed shape).  The obligation is broken; to be able to
            # search for a failing input, fall back to the last committed tables (the model of the unchanged code) and rebuild the driver.
            rc2, _ = run(["git", "checkout", "--", "lean/SuitVerif/Generated"], cwd=VERIF)
            rc3, out3 = run(["lake", "build", "driver"], cwd=LEAN)
            if rc2 == 0 and rc3 == 0 and DRIVER.exists():
                st.ok_driver = True
                st.generated_fallback = True
                st.log += "\nfell back to the committed Generated/*.lean for the failing-input search\n"
        mod = f"SuitVerif.Props.{prop}"
        rc, out = run(["lake", "build", mod], cwd=LEAN)
        st.ok_proofs = rc == 0 and not getattr(st, "generated_fallback", False)
        if rc != 0:
            st.log += f"lake build {mod} failed:\n" + out[-8000:]
        if st.ok_proofs:
            run(["lake", "build", "SuitVerif.AuditCmd"], cwd=LEAN)      # the audit command itself (not imported by any model file): built on a fresh tree
            src = f"import {mod}\nimport SuitVerif.AuditCmd\n#audit_json SuitVerif.Props.{prop}\n"
            with tempfile.NamedTemporaryFile("w", suffix=".lean", dir=LEAN, delete=False) as fh:
                fh.write(src)
                tmp = fh.name
            try:
                rc, out = run(["lake", "env", "lean", tmp], cwd=LEAN)
            finally:
                os.unlink(tmp)
            m = re.search(r"AUDIT_JSON (\{.*\})", out)
            if rc == 0 and m:
                st.axioms = json.loads(m.group(1))
            else:
                st.log += "audit failed:\n" + out[-3000:]
                st.ok_proofs = False
            if thorough and st.ok_proofs:
                rc, out = run(["lake", "env", "leanchecker", mod], cwd=LEAN, timeout=3000)
                if rc != 0:
                    st.ok_proofs = False
                    st.log += "leanchecker failed:\n" + out[-3000:]
                else:
                    st.extract_notes["leanchecker"] = "ok"
        exp = expected_obligations(prop)
        short = {k.split(".")[-1]: v for k, v in st.axioms.items()}
        st.missing = [t for t in exp if t not in short]
        st.bad_axioms = {t: a for t, a in short.items() if not set(a) <= ALLOWED_AXIOMS}
        st.forbidden_hits = scan_forbidden()
    st.wall = time.time() - t0
    return st


class Driver:
    """The native Lean model driver behind a JSON-lines pipe."""

    def __init__(self):
        self.p = subprocess.Popen([str(DRIVER)], stdin=subprocess.PIPE, stdout=subprocess.PIPE, text=True, bufsize=1, preexec_fn=_unlimit_memory)
        self.calls = 0

    def call(self, req: dict) -> dict:
        self.p.stdin.write(json.dumps(req) + "\n")
        self.p.stdin.flush()
        line = self.p.stdout.readline()
        self.calls += 1
        if not line:
            raise RuntimeError(f"model driver died on request {json.dumps(req)[:300]}")
        r = json.loads(line)
        if "bad" in r:
            raise RuntimeError(f"model driver rejected request: {r['bad']} :: {json.dumps(req)[:300]}")
        return r

    def batch(self, reqs: list[dict]) -> list[dict]:
        """Pipeline many requests (writer thread avoids pipe deadlock)."""
        import threading

        def w():
            for r in reqs:
                self.p.stdin.write(json.dumps(r) + "\n")
            self.p.stdin.flush()

        t = threading.Thread(target=w)
        t.start()
        out = []
        for r in reqs:
            line = self.p.stdout.readline()
            if not line:
                raise RuntimeError("model driver died in batch")
            o = json.loads(line)
            if "bad" in o:
                raise RuntimeError(f"model driver rejected request: {o['bad']} :: {json.dumps(r)[:300]}")
            out.append(o)
        t.join()
        self.calls += len(reqs)
        return out

    def close(self):
        try:
            self.p.stdin.close()
            self.p.wait(timeout=10)
        except Exception:
            self.p.kill()


def impl_err(e: BaseException) -> dict:
    """Canonical error class of an implementation exception."""
    return {"err": type(e).__name__}


class Findings:
    """known_findings.json: entries {property, id, kind: 'known'|'fixed', what, region, witness}."""

    def __init__(self):
        self.path = VERIF / "known_findings.json"
        self.entries = json.loads(self.path.read_text()) if self.path.exists() else []

    def known(self, prop):
        return [e for e in self.entries if e["property"] == prop and e["kind"] == "known"]


class Result:
    """Accumulates the outcome of one check run."""

    def __init__(self, prop: str, tier: str, seed: int):
        self.prop = prop
        self.tier = tier
        self.seed = seed
        self.t0 = time.time()
        self.evaluations = 0
        self.nontrivial = set()
        self.dist = {}
        self.samples = []
        self.mismatches = []      # correspondence disagreements (stage B)
        self.spec_failures = []   # property failures on the implementation's own output (stage C)
        self.known_hits = {}      # finding id -> count
        self.notes = {}
        self.exhaustive = False

    def count(self, key, n=1):
        self.dist[key] = self.dist.get(key, 0) + n

    def case(self, canon, nontrivial=True):
        self.evaluations += 1
        if nontrivial:
            self.nontrivial.add(hashlib.sha1(json.dumps(canon, sort_keys=True, default=str).encode()).hexdigest())

    def sample(self, s, limit=6):
        if len(self.samples) < limit:
            self.samples.append(s)


def write_replay(prop: str, payload: dict) -> str:
    d = VERIF / "replays"
    d.mkdir(exist_ok=True)
    h = hashlib.sha1(json.dumps(payload, sort_keys=True, default=str).encode()).hexdigest()[:12]
    p = d / f"{prop}-{h}.json"
    p.write_text(json.dumps(payload, indent=1, default=str))
    return str(p.relative_to(VERIF))


def finish(res: Result, st: StageA, rule: str, level_note: list[str], obligations_extra: dict | None = None) -> int:
    """Write evidence, print the verdict lines, return the exit code."""
    prop = res.prop
    exp = expected_obligations(prop)
    short = {k.split(".")[-1]: v for k, v in st.axioms.items()}
    discharged = [t for t in exp if t in short and set(short[t]) <= ALLOWED_AXIOMS] if st.ok_proofs else []
    violations = 0
    lines = []
    # inputs on which the tool never answered (or took its interpreter down) are failing inputs: the property promises an outcome for them
    for fname, item, what in PMAP_FAILURES[:3]:
        res.spec_failures.insert(0, {"harness_function": fname, "item": json.loads(json.dumps(item, default=lambda o: o.hex() if isinstance(o, (bytes, bytearray)) else repr(o)))
                                     if not isinstance(item, (bytes, bytearray)) else item.hex(), "what": f"no usable answer of the tool on this input: {what}"})
    # stage C failures: concrete violation
    for f in res.spec_failures[:5]:
        path = write_replay(prop, {"kind": "property-fails-on-implementation", **f})
        lines.append(f"VIOLATION property={prop} replay={path}")
        violations += 1
    if not res.spec_failures:
        def _is_err(x):
            return (isinstance(x, dict) and "err" in x) or (isinstance(x, str) and (x.startswith('{"err"') or x.endswith("Error") or x.endswith("Exit")))

        def _is_ok(x):
            return (isinstance(x, dict) and "ok" in x) or (isinstance(x, str) and (x == "ok" or x.startswith('{"ok"')))
        refused = [m for m in res.mismatches if _is_err(m.get("impl")) and _is_ok(m.get("model"))]
        if refused:
            # the input itself is the failing input: the model - which is proved to meet the property - yields the output for it, the tool yields none
            m = refused[0]
            path = write_replay(prop, {"kind": "property-fails-on-implementation", "correspondence": m.get("op", "?"), "first_mismatch": m,
                                       "what": "the tool refuses an input of the property's domain (the model, proved to meet the property, produces the output for it): "
                                               "the property's conclusion cannot hold for this input", "refused_inputs": len(refused), "mismatches": len(res.mismatches)})
            lines.append(f"VIOLATION property={prop} replay={path}")
            violations += 1
        elif res.mismatches:
            m = res.mismatches[0]
            path = write_replay(prop, {"kind": "correspondence-broken", "correspondence": m.get("op", "?"),
                                       "first_mismatch": m, "mismatches": len(res.mismatches),
                                       "note": "model and implementation disagree; the targeted search found no input on which the property itself fails"})
            lines.append(f"VIOLATION property={prop} replay={path} no-failing-input-found")
            violations += 1
        elif not st.ok:
            what = {"extract_ok": st.ok_extract, "driver_ok": st.ok_driver, "proofs_ok": st.ok_proofs,
                    "missing_theorems": st.missing, "bad_axioms": st.bad_axioms, "forbidden": st.forbidden_hits[:10]}
            path = write_replay(prop, {"kind": "proof-obligation-broken", "theorem_module": f"SuitVerif.Props.{prop}",
                                       "status": what, "lake_output": st.log[-6000:],
                                       "note": "a theorem or generated-table obligation no longer checks; the search found no failing input"})
            lines.append(f"VIOLATION property={prop} replay={path} no-failing-input-found")
            violations += 1
    fnd = Findings()
    for e in fnd.known(prop):
        if res.known_hits.get(e["id"], 0) > 0:
            print(f"KNOWN-FINDING: property={prop} {e['id']}: {e['what']} (witnessed {res.known_hits[e['id']]}x this run)")
    ev = {
        "property_id": prop,
        "tier": res.tier,
        "seed": res.seed,
        "level": "proof",
        "coverage": {
            "obligations": len(exp),
            "discharged": len(discharged),
            "checker_cmd": f"cd lean && lake build SuitVerif.Props.{prop} && lake env lean <audit of namespace SuitVerif.Props.{prop}>"
                           + (" && lake env leanchecker SuitVerif.Props." + prop if res.tier == "thorough" else ""),
            "trusted_base": TRUSTED_BASE + level_note,
            "theorems": {t: short.get(t) for t in exp},
            "open_obligations": [t for t in exp if t not in discharged],
            "evaluations": res.evaluations,
            "distinct_nontrivial": len(res.nontrivial),
            "rule": rule,
            "samples": res.samples,
            "distribution": res.dist,
            "correspondence_mismatches": len(res.mismatches),
            "spec_failures_on_implementation": len(res.spec_failures),
            "known_finding_hits": res.known_hits,
            "exhaustive": res.exhaustive,
            "stage_a": {"extract_ok": st.ok_extract, "driver_ok": st.ok_driver, "proofs_ok": st.ok_proofs,
                        "wall_s": round(st.wall, 2), "notes": st.extract_notes},
            **(obligations_extra or {}),
            **res.notes,
        },
        "assumptions": level_note,
        "wall_s": round(time.time() - res.t0, 2),
        "violations": violations,
    }
    (VERIF / "evidence").mkdir(exist_ok=True)
    (VERIF / "evidence" / f"{prop}.json").write_text(json.dumps(ev, indent=1, default=str))
    for l in lines:
        print(l)
    if violations == 0:
        print(f"OK property={prop} tier={res.tier} seed={res.seed} theorems={len(discharged)}/{len(exp)} "
              f"cases={res.evaluations} distinct={len(res.nontrivial)} wall={ev['wall_s']}s")
    return 1 if violations else 0


def rng_for(seed: int, tag: str) -> random.Random:
    return random.Random(f"{seed}:{tag}")


# ---- parallel map with one model driver per worker process ----------------------------------------------
_worker_driver = None


def worker_driver() -> "Driver":
    global _worker_driver
    if _worker_driver is None:
        _worker_driver = Driver()
    return _worker_driver


# inputs on which the tool gave no answer (endless loop, runaway memory, a dead interpreter): (function name, item, what happened)
PMAP_FAILURES: list = []
WORKER_MEMORY_LIMIT = 3 << 30


def _limit_memory():
    """a runaway allocation in the tool ends in MemoryError inside the worker instead of taking the machine (and the check) down"""
    import resource
    try:
        soft, hard = resource.getrlimit(resource.RLIMIT_AS)
        lim = WORKER_MEMORY_LIMIT if hard == resource.RLIM_INFINITY else min(WORKER_MEMORY_LIMIT, hard)
        resource.setrlimit(resource.RLIMIT_AS, (lim, hard))
    except Exception:  # noqa
        pass


def _unlimit_memory():
    import resource
    try:
        soft, hard = resource.getrlimit(resource.RLIMIT_AS)
        resource.setrlimit(resource.RLIMIT_AS, (hard, hard))
    except Exception:  # noqa
        pass


def _pmap_init():
    ensure_repo_on_path()
    import logging
    logging.disable(logging.CRITICAL)
    _limit_memory()


class _ItemError:
    """the harness function raised on this item: it could not read what the tool answered (picklable marker)"""

    def __init__(self, what):
        self.what = what


def _guarded(func, x):
    try:
        return func(x)
    except (OSError, MemoryError):
        raise                       # environment trouble is a harness error, not a finding
    except Exception as e:  # noqa
        import traceback
        return _ItemError(f"{type(e).__name__}: {str(e)[:200]} :: " + " | ".join(traceback.format_exc().strip().splitlines()[-4:])[:600])


def _run_chunk(fc):
    func, xs = fc
    return [_guarded(func, x) for x in xs]


def _collect_item_errors(func, items, out):
    for i, r in enumerate(out):
        if isinstance(r, _ItemError):
            PMAP_FAILURES.append((getattr(func, "__name__", "?"), items[i], "the harness could not read what the tool answered for this input - " + r.what))
            out[i] = None
    return out


def _isolated(func, item, timeout):
    """`func(item)` in a forked child of its own with a time limit; returns (result, None) or (None, what happened)"""
    import multiprocessing as mp
    ctx = mp.get_context("fork")
    rd, wr = ctx.Pipe(duplex=False)

    def child():
        global _worker_driver
        _worker_driver = None
        _pmap_init()
        try:
            wr.send(("ok", func(item)))
        except BaseException as e:  # noqa
            try:
                wr.send(("exc", f"{type(e).__name__}: {e}"[:500]))
            except BaseException:  # noqa
                pass
        finally:
            os._exit(0)
    p = ctx.Process(target=child)
    p.start()
    wr.close()
    try:
        if rd.poll(timeout):
            try:
                kind, val = rd.recv()
            except EOFError:
                p.join(5)
                return None, f"the interpreter died (exit code {p.exitcode})"
            return (val, None) if kind == "ok" else (None, "the harness function raised " + val)
        return None, f"no answer within {timeout} s"
    finally:
        if p.is_alive():
            p.kill()
        p.join(5)
        rd.close()


def pmap(func, items, workers=None, chunk=64, chunk_timeout=420, item_timeout=90):
    """order-preserving parallel map (fork); `func` may call worker_driver().

    A worker that never answers (endless loop in the tool) or dies (killed for its memory) must not hang the check: every chunk has a time limit;
    when it passes, the pool is dropped and the outstanding items are run one by one, each in a process of its own with a time limit.  An item
    without an answer yields None and is recorded in PMAP_FAILURES, which `finish` reports as a failing input."""
    import multiprocessing as mp

    items = list(items)
    workers = workers or min(16, os.cpu_count() or 4)
    if len(items) < 2 * chunk or workers <= 1:
        ensure_repo_on_path()
        import logging
        logging.disable(logging.CRITICAL)
        return _collect_item_errors(func, items, [_guarded(func, x) for x in items])
    ctx = mp.get_context("fork")
    out = []
    pool = ctx.Pool(workers, initializer=_pmap_init)
    try:
        chunks = [(func, items[i:i + chunk]) for i in range(0, len(items), chunk)]
        it = pool.imap(_run_chunk, chunks)
        try:
            for _ in chunks:
                out += it.next(timeout=chunk_timeout)
        except mp.TimeoutError:
            pass
    finally:
        pool.terminate()
        pool.join()
    if len(out) == len(items):
        return _collect_item_errors(func, items, out)
    # isolation mode for what is outstanding (bounded: the items of the chunks in flight first; the rest is skipped)
    from concurrent.futures import ThreadPoolExecutor
    rest = items[len(out):]
    budget = rest[: max(workers * chunk * 2, 400)]

    def one(x):
        r, what = _isolated(func, x, item_timeout)
        if what is not None:
            PMAP_FAILURES.append((getattr(func, "__name__", "?"), x, what))
        return r
    with ThreadPoolExecutor(max_workers=workers) as ex:
        out += list(ex.map(one, budget))
    out += [None] * (len(items) - len(out))
    return _collect_item_errors(func, items, out)
