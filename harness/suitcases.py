"""Shared case production for the SUIT-layer properties (C01, C02, C03, C05, C18): generate a description,
materialise its files in a scratch directory, run the real create / parse and the model on it."""
from __future__ import annotations

import json
import os
import random

from . import common, suitio
from .gen_desc import Gen, resolve


def make_case(seed: int, index: int, big=False, ambiguous=False, depth=2, pad=None):
    """-> (description, files) fully resolved (children by file created with the real tool)."""
    rng = random.Random(f"{seed}:{index}")
    g = Gen(rng, big=big, ambiguous=ambiguous, depth=depth)
    desc = g.envelope(pad_manifest_to=pad)
    files = dict(g.files)

    children = []

    def create_fn(sub, fs):
        children.append(sub)
        if "@encinfo" in sub:
            from suit_generator.suit.manifest import SuitEncryptionInfo
            return SuitEncryptionInfo.from_obj(sub["@encinfo"]).to_cbor()
        r = run_impl_create(sub, fs)
        if "ok" not in r:
            raise ChildFailed(r["err"])
        return bytes.fromhex(r["ok"])

    desc = resolve(desc, create_fn, files)
    LAST_CHILDREN[:] = children
    return desc, files, sorted(g.features)


HEADER_KEYS = {"suit-cose-algorithm-id", "suit-cose-key-id", "suit-cose-iv"}
ONE_CHAR = ["1", "_", "0", "-", " ", "9", "~", "@"]
DIGIT_HEX = ["1234", "2024", "00", "0123", "99", "10", "0b11", "1e10", "4142", "20240926", "7", "007"]


def perturb(desc, rng, feats=None):
    """description-level variations the grammar generator never produces (applied after it, with their own PRNG, so the generator's stream is
    unchanged): COSE header maps listed in non-ascending label order, and hex strings for int-or-bstr members made of decimal digits only"""
    feats = feats if feats is not None else set()
    if isinstance(desc, dict):
        items = [(k, perturb(v, rng, feats)) for k, v in desc.items()]
        if len(items) >= 2 and set(desc) <= HEADER_KEYS and rng.random() < 0.4:
            items.reverse()
            feats.add("header-labels-descending")
        # positional structures (SUIT_Digest, COSE_Sign1, COSE_Encrypt, COSE_recipient, the authentication wrapper) are written by member
        # *name* in a description: the order in which the names are listed (sorted keys, hand-written YAML) must not matter
        keys = set(desc)
        positional = (keys == {"suit-digest-algorithm-id", "suit-digest-bytes"} or {"protected", "unprotected"} <= keys
                      or ("SuitDigest" in keys and all(k == "SuitDigest" or k.startswith("SuitAuthentication") for k in keys)))
        if positional and len(items) >= 2 and rng.random() < 0.35:
            if "SuitDigest" in keys:
                # keep the numbered blocks in their relative order (their order is the order on the wire), move only SuitDigest
                items = [it for it in items if it[0] != "SuitDigest"] + [it for it in items if it[0] == "SuitDigest"]
            else:
                items = sorted(items, key=lambda it: it[0]) if rng.random() < 0.5 else list(reversed(items))
            feats.add("positional-members-out-of-order")
        out = {}
        for k, v in items:
            if k == "suit-components" and isinstance(v, list) and rng.random() < 0.4:
                # one-character identifier parts that are not letters (a one-character string is the byte of that character, whatever it is)
                v = [list(c) + [rng.choice(ONE_CHAR)] if isinstance(c, list) and rng.random() < 0.6 else c for c in v]
                feats.add("one-char-part-not-a-letter")
            if k in ("suit-parameter-content", "suit-cose-key-id") and isinstance(v, str) and rng.random() < 0.35:
                v = rng.choice([h for h in DIGIT_HEX if len(h) % 2 == 0])
                feats.add("digits-only-hex")
            out[k] = v
        return out
    if isinstance(desc, list):
        return [perturb(v, rng, feats) for v in desc]
    return desc


SPECIAL_TEXT = ["\u0085", "\u2028", "\u2029", "\t", " ", "\u00a0", "\ufeff", "'", '"', ": ", " #", "\\", "\u007f", "\u200b", "é", "\U0001f600"]


def perturb_text(desc, rng, feats=None):
    """text strings with characters that text formats treat specially (line breaks of every kind, leading / trailing blanks, quotes,
    comment and mapping indicators), and language maps whose component entries come before their manifest-level text keys"""
    feats = feats if feats is not None else set()
    if isinstance(desc, dict):
        out = {}
        for k, v in desc.items():
            if k.startswith("suit-text-") and isinstance(v, str) and rng.random() < 0.3:
                ch = rng.choice(SPECIAL_TEXT)
                pos = rng.choice(["start", "end", "middle"])
                v = ch + v if pos == "start" else (v + ch if pos == "end" else v[: len(v) // 2] + ch + v[len(v) // 2:])
                feats.add("text:special-character")
            out[k] = perturb_text(v, rng, feats)
        keys = list(out)
        if len(keys) >= 2 and any(k.startswith("suit-text-") for k in keys) and any(k.startswith("[") for k in keys) and rng.random() < 0.6:
            rng.shuffle(keys)
            out = {k: out[k] for k in keys}
            feats.add("text:component-entry-before-text-key")
        return out
    if isinstance(desc, list):
        return [perturb_text(v, rng, feats) for v in desc]
    return desc


LAST_CHILDREN = []   # descriptions of the children / encryption infos materialised as files by the last make_case


class ChildFailed(Exception):
    pass


_scratch = None


def scratch_dir():
    global _scratch
    if _scratch is None:
        import tempfile, atexit, shutil
        _scratch = tempfile.mkdtemp(prefix="verif_suit_")
        atexit.register(lambda: shutil.rmtree(_scratch, ignore_errors=True))
    return _scratch


def write_files(files, d):
    for name, content in files.items():
        p = os.path.join(d, name)
        if "/" in name:
            os.makedirs(os.path.dirname(p), exist_ok=True)
        with open(p, "wb") as fh:
            fh.write(content)


def clear_files(files, d):
    for name in files:
        try:
            os.unlink(os.path.join(d, name))
        except OSError:
            pass


def run_impl_create(desc, files):
    d = scratch_dir()
    write_files(files, d)
    try:
        return suitio.impl_create(desc, cwd=d)
    finally:
        clear_files(files, d)


def share_equal(x, seen=None):
    """equal non-empty containers of a description become one object, so that the YAML dumper writes an anchor and aliases"""
    import json
    seen = {} if seen is None else seen
    if isinstance(x, dict):
        x = {k: share_equal(v, seen) for k, v in x.items()}
    elif isinstance(x, list):
        x = [share_equal(v, seen) for v in x]
    else:
        return x
    if not x:
        return x
    return seen.setdefault(json.dumps(x, sort_keys=False), x)


def write_description(desc, path, fmt):
    """the same description in the text forms users and tools write: compact / indented JSON, escaped / literal non-ASCII, block / flow / mixed YAML,
    anchors and aliases for repeated parts, LF / CRLF line ends, a document start marker.  The form rotates; every one must give the same envelope."""
    import json
    import yaml
    import zlib
    form = zlib.crc32(json.dumps(desc, sort_keys=True, default=str).encode()) % 8      # a function of the description: a replay meets the same form
    if fmt == "yaml" and any(c in json.dumps(desc, ensure_ascii=False, default=str) for c in "\x85\u2028\u2029"):
        # PyYAML's own writer does not round-trip NEL / LS / PS when it writes them literally (it folds them like line breaks): a harness matter,
        # not the tool's - such text goes out escaped (double-quoted "\N", "\L", "\P")
        form = 1 if form % 2 == 0 else 7
    if fmt == "json":
        text = [lambda: json.dumps(desc), lambda: json.dumps(desc, indent=4), lambda: json.dumps(desc, ensure_ascii=False), lambda: json.dumps(desc, indent="\t"),
                lambda: json.dumps(desc, indent=2).replace("\n", "\r\n"), lambda: json.dumps(desc, separators=(",", ":")), lambda: json.dumps(desc) + "\n",
                lambda: "\n  " + json.dumps(desc, indent=1, ensure_ascii=False) + "\n\n"][form]()
    else:
        dump = lambda **kw: yaml.dump(desc if not kw.pop("share", False) else share_equal(desc), sort_keys=False, **kw)   # noqa: E731
        text = [lambda: dump(allow_unicode=True), lambda: dump(allow_unicode=False), lambda: dump(allow_unicode=True, default_flow_style=False),
                lambda: dump(allow_unicode=True, default_flow_style=True), lambda: dump(allow_unicode=True, share=True),
                lambda: dump(allow_unicode=True, width=1000), lambda: "---\n" + dump(allow_unicode=True, indent=4) + "...\n",
                lambda: dump(allow_unicode=True, default_style='"')][form]()
        if form == 2:
            text = text.replace("\n", "\r\n") if "\r" not in text and "|" not in text and ">" not in text else text
    with open(path, "w", encoding="utf-8", newline="") as fh:
        fh.write(text)


def run_cli_create(desc, files, fmt, decoy=False):
    """through the CLI entry point cmd_create.main with a real JSON / YAML description file.
    decoy: the description lives in a sub-directory that holds files of the same names with other contents"""
    import json
    import yaml
    import shutil
    from suit_generator import cmd_create

    d = scratch_dir()
    write_files(files, d)
    # the format comes from the suffix (AUTO) or is named explicitly - then the file may be called anything, also after the other format
    import zlib as _z
    how = _z.crc32(json.dumps(desc, sort_keys=True, default=str).encode()) % 5
    in_name, in_format = [("input." + fmt, "AUTO"), ("input." + fmt, "AUTO"), ("input." + fmt, fmt), ("input.txt", fmt),
                          ("input." + ("json" if fmt == "yaml" else "yaml"), fmt)][how]
    inp = os.path.join(d, in_name)
    cfgdir = os.path.join(d, "config_dir")
    if decoy:
        os.makedirs(cfgdir, exist_ok=True)
        for name, content in files.items():
            if "/" not in name:
                with open(os.path.join(cfgdir, name), "wb") as fh:
                    fh.write(bytes(x ^ 0x3C for x in content) + b"decoy")
        inp = os.path.join(cfgdir, in_name)
    outp = os.path.join(d, "out.suit")
    write_description(desc, inp, fmt)
    old = os.getcwd()
    try:
        os.chdir(d)
        from . import common as _c
        _c.make_stale(outp)
        cmd_create.main(input_file=inp, input_format=in_format, output_file=outp)
        with open(outp, "rb") as fh:
            return {"ok": fh.read().hex()}
    except BaseException as e:  # noqa
        from suit_generator.exceptions import SUITError
        # the CLI wraps ValueError / FileNotFoundError into SUITError
        if isinstance(e, SUITError) and e.__cause__ is not None:
            return {"err": suitio.err_class(e.__cause__)}
        return {"err": suitio.err_class(e)}
    finally:
        os.chdir(old)
        clear_files(files, d)
        if decoy:
            shutil.rmtree(cfgdir, ignore_errors=True)
        for p in (inp, outp):
            try:
                os.unlink(p)
            except OSError:
                pass


def manifest_len(envelope_bytes: bytes) -> int:
    from . import cbortree as ct
    root = ct.decode(envelope_bytes)
    for k, v in root.children[0].children:
        if k.major == 0 and k.arg == 3:
            return v.arg
    return -1


def case_with_manifest_len(seed, index, target, create):
    """a generated description whose bstr-wrapped manifest content is exactly `target` bytes long (None if not reached)"""
    pad = 0
    rng = random.Random(f"{seed}:{index}:min")
    for _ in range(8):
        try:
            if target < 200:
                from .gen_desc import ALGS
                desc = {"SUIT_Envelope_Tagged": {
                    "suit-authentication-wrapper": {"SuitDigest": {"suit-digest-algorithm-id": ALGS[index % 5], "suit-digest-bytes": "abcd"}},
                    "suit-manifest": {"suit-manifest-version": 1, "suit-manifest-sequence-number": index % 7,
                                      "suit-reference-uri": "u" * max(0, pad)}}}
                files, feats = {}, ["minimal"]
            else:
                desc, files, feats = make_case(seed, index, depth=0, pad=pad)
        except ChildFailed:
            return None
        r = create(desc, files)
        if "ok" not in r:
            return None
        n = manifest_len(bytes.fromhex(r["ok"]))
        if n == target:
            return desc, files, feats
        pad = pad + (target - n)
        if pad < 0:
            return None
    return None
