"""Shared case production for the SUIT-layer properties (C01, C02, C03, C05, C18): generate a description,
materialise its files in a scratch directory, run the real create / parse and the model on it."""
from __future__ import annotations

import json
import os
import random

from . import common, suitio
from .gen_desc import Gen, resolve


def make_case(seed: int, index: int, big=False, ambiguous=False, depth=2, pad=None):
    """-> (description, files) fully resolved (children by file created with the real tool)."""
    rng = random.Random(f"{seed}:{index}")
    g = Gen(rng, big=big, ambiguous=ambiguous, depth=depth)
    desc = g.envelope(pad_manifest_to=pad)
    files = dict(g.files)

    def create_fn(sub, fs):
        if "@encinfo" in sub:
            from suit_generator.suit.manifest import SuitEncryptionInfo
            return SuitEncryptionInfo.from_obj(sub["@encinfo"]).to_cbor()
        r = run_impl_create(sub, fs)
        if "ok" not in r:
            raise ChildFailed(r["err"])
        return bytes.fromhex(r["ok"])

    desc = resolve(desc, create_fn, files)
    return desc, files, sorted(g.features)


class ChildFailed(Exception):
    pass


_scratch = None


def scratch_dir():
    global _scratch
    if _scratch is None:
        import tempfile, atexit, shutil
        _scratch = tempfile.mkdtemp(prefix="verif_suit_")
        atexit.register(lambda: shutil.rmtree(_scratch, ignore_errors=True))
    return _scratch


def write_files(files, d):
    for name, content in files.items():
        p = os.path.join(d, name)
        with open(p, "wb") as fh:
            fh.write(content)


def clear_files(files, d):
    for name in files:
        try:
            os.unlink(os.path.join(d, name))
        except OSError:
            pass


def run_impl_create(desc, files):
    d = scratch_dir()
    write_files(files, d)
    try:
        return suitio.impl_create(desc, cwd=d)
    finally:
        clear_files(files, d)
