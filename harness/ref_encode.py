"""The verifier's reference encoder for C02: a direct recursive encoder of the description language written from
the CDDL of the SUIT manifest / trust-domains / update-management drafts and RFC 9052 (DESIGN.md Appendix C), sharing
nothing with suit-generator or with the Lean interpreter model: own CBOR writer (cbortree), own tables (the Lean
Registry, fetched once), hashlib for digests.  `NotInScope` marks the forms the property excludes (F7a) and the
description features that are not part of the language proper."""
from __future__ import annotations

import hashlib
import json
import uuid

from . import cbortree as ct


class NotInScope(Exception):
    pass


class Rejected(Exception):
    """the description is not in the language (the tool raises ValueError / an error for it)"""


HASH = {"cose-alg-sha-256": lambda b: hashlib.sha256(b).digest(), "cose-alg-sha-384": lambda b: hashlib.sha384(b).digest(),
        "cose-alg-sha-512": lambda b: hashlib.sha512(b).digest(), "cose-alg-shake128": lambda b: hashlib.shake_128(b).digest(16),
        "cose-alg-shake256": lambda b: hashlib.shake_256(b).digest(32)}

SEVERABLE = ["suit-payload-fetch", "suit-install", "suit-dependency-resolution", "suit-candidate-verification", "suit-install-legacy"]
CMDSEQ_MEMBERS = ["suit-validate", "suit-load", "suit-invoke", "suit_uninstall"]


class Ref:
    def __init__(self, registry: dict, files: dict):
        self.reg = {sp: dict(es) for sp, es in registry["spaces"]}
        self.files = files
        self.f8_positions = 0     # CWT payloads met (known finding F8: encoded the tool's way, everything else by the book)

    # ---- primitives ----------------------------------------------------------------------------------
    def code(self, space, name):
        try:
            return self.reg[space][name]
        except KeyError:
            raise Rejected(f"{name} not in {space}")

    def integer(self, n):
        if isinstance(n, bool) or not isinstance(n, int):
            raise Rejected("int")
        return ct.uint(n) if n >= 0 else ct.nint(-1 - n)

    def uint(self, n):
        if isinstance(n, bool) or not isinstance(n, int) or n < 0:
            raise Rejected("uint")
        return ct.uint(n)

    def hexbytes(self, s):
        if not isinstance(s, str):
            raise Rejected("hex")
        try:
            return bytes.fromhex(s) if " " not in s else (_ for _ in ()).throw(ValueError())
        except ValueError:
            raise Rejected("hex")

    def wrap(self, item):
        return ct.bstr(ct.encode(item))

    def file(self, path):
        if path not in self.files:
            raise Rejected("no such file")
        return self.files[path]

    # ---- identifiers ---------------------------------------------------------------------------------
    def uuid(self, d):
        if not isinstance(d, dict):
            raise Rejected("uuid")
        if "RFC4122_UUID" in d:
            u = d["RFC4122_UUID"]
            if isinstance(u, dict):
                ns = uuid.uuid5(uuid.NAMESPACE_DNS, u["namespace"]) if "namespace" in u else uuid.NAMESPACE_DNS
                return ct.bstr(uuid.uuid5(ns, u["name"]).bytes)
            return ct.bstr(uuid.uuid5(uuid.NAMESPACE_DNS, u).bytes)
        if "raw" in d:
            return ct.bstr(self.hexbytes(d["raw"]))
        raise Rejected("uuid")

    def component_id(self, parts):
        out = []
        for p in parts:
            if isinstance(p, dict):
                out.append(self.uuid(p))
            elif isinstance(p, str) and len(p) == 1:
                out.append(ct.bstr(p.encode()))
            elif isinstance(p, str):
                out.append(self.wrap(ct.tstr(p)))
            elif isinstance(p, int) and not isinstance(p, bool):
                out.append(self.wrap(self.integer(p)))
            else:
                raise Rejected("component id part")
        return ct.arr(out)

    # ---- digests -------------------------------------------------------------------------------------
    def digest(self, d, depth=0):
        """SUIT_Digest = [alg, bstr]"""
        if not isinstance(d, dict) or "suit-digest-algorithm-id" not in d:
            raise Rejected("digest")
        alg = d["suit-digest-algorithm-id"]
        code = self.code("SuitCoseHashAlg", alg)
        b = d.get("suit-digest-bytes", "")
        if b is None:
            raise NotInScope("digest bytes left without a value (the tool may refuse the placeholder)")
        if isinstance(b, dict):
            if "file" in b:
                val = HASH[alg](self.file(b["file"]))
            elif "envelope" in b:
                child = self.envelope(b["envelope"]) if isinstance(b["envelope"], dict) else self.file(b["envelope"])
                val = HASH[alg](manifest_span(child))
            elif "raw" in b:
                val = self.hexbytes(b["raw"])
            elif "file_direct" in b:
                val = self.file(b["file_direct"])
            else:
                raise Rejected("digest reference")
        else:
            val = self.hexbytes(b)
        return ct.arr([self.integer(code), ct.bstr(val)])

    # ---- COSE ----------------------------------------------------------------------------------------
    def header_map(self, h):
        if not isinstance(h, dict):
            raise Rejected("header map")
        out = []
        for k, v in h.items():
            c = self.code("SuitHeaderMap", k)
            if k == "suit-cose-algorithm-id":
                out.append((ct.uint(c), self.integer(self.code("SuitcoseAlg", v))))
            elif k == "suit-cose-key-id":
                out.append((ct.uint(c), self.wrap(self.integer(v)) if isinstance(v, int) and not isinstance(v, bool) else ct.bstr(self.hexbytes(v))))
            else:
                out.append((ct.uint(c), ct.bstr(self.hexbytes(v))))
        return ct.mp(out)

    def sign1(self, blk):
        s = blk["CoseSign1Tagged"]
        payload = s["payload"]
        pl = ct.simple(22)
        if payload is not None:
            # known finding F8: RFC 9052 makes the payload `bstr / nil` (a CWT would be `bstr .cbor claims`); the tool emits the claims map bare.
            # The reference follows the tool *at this one position* (and records it) so that everything else in such a description is still compared.
            self.f8_positions += 1
            claims = {"Issuer": (1, "s"), "Subject": (2, "s"), "Audience": (3, "s"), "Expiration Time": (4, "i"), "Not Before": (5, "i"), "Issued At": (6, "i"), "CW ID": (7, "b")}
            if not isinstance(payload, dict):
                raise Rejected("CWT payload")
            ents = []
            for k, v in payload.items():
                if k not in claims:
                    raise Rejected("CWT claim " + str(k))
                code, t = claims[k]
                if t == "s":
                    if not isinstance(v, str):
                        raise Rejected("CWT claim type")
                    ents.append((ct.uint(code), ct.tstr(v)))
                elif t == "i":
                    ents.append((ct.uint(code), self.integer(v)))
                else:
                    ents.append((ct.uint(code), ct.bstr(self.hexbytes(v))))
            pl = ct.mp(ents)
        return ct.tag(18, ct.arr([self.wrap(self.header_map(s["protected"])), self.header_map(s["unprotected"]), pl, ct.bstr(self.hexbytes(s["signature"]))]))

    def recipient(self, r):
        prot = r["protected"]
        p = ct.bstr(b"") if prot in ({}, "") else self.wrap(self.header_map(prot))
        out = [p, self.header_map(r["unprotected"]), ct.simple(22) if r["ciphertext"] is None else ct.bstr(self.hexbytes(r["ciphertext"]))]
        for k, v in r.items():
            if k.startswith("recipients"):
                out.append(ct.arr([self.recipient(x) for x in v]))
        return ct.arr(out)

    def enc_info(self, e):
        if "CoseEncryptTagged" in e:
            c = e["CoseEncryptTagged"]
            return self.wrap(ct.tag(96, ct.arr([self.wrap(self.header_map(c["protected"])), self.header_map(c["unprotected"]),
                                               ct.simple(22) if c["ciphertext"] is None else ct.bstr(self.hexbytes(c["ciphertext"])),
                                               ct.arr([self.recipient(r) for r in c["recipients"]])])))
        raw = self.hexbytes(e["raw"]) if "raw" in e else self.file(e["file"])
        it = ct.decode(raw)          # already bstr .cbor COSE_Encrypt_Tagged
        if it.major != 2:
            raise Rejected("encryption info")
        return ct.bstr(it.data)

    # ---- commands ------------------------------------------------------------------------------------
    def policy(self, bits):
        if not isinstance(bits, list):
            raise Rejected("policy")
        if len(set(bits)) != len(bits):
            raise NotInScope("repeated reporting bit")
        return ct.uint(sum(self.code("SuitRepPolicyBits", b) for b in bits))

    def version_list(self, v):
        if isinstance(v, str):
            out = []
            for part in v.replace("-", ".").split("."):
                if part.isdigit():
                    out.append(int(part))
                elif part in ("alpha", "beta", "rc"):
                    out.append({"alpha": -3, "beta": -2, "rc": -1}[part])
                else:
                    raise Rejected("version")
            v = out
        return ct.arr([self.integer(x) for x in v])

    def params(self, p, depth):
        out = []
        for k, v in p.items():
            c = ct.uint(self.code("SuitParameters", k))
            if k.endswith("-identifier"):
                out.append((c, self.uuid(v)))
            elif k == "suit-parameter-image-digest":
                out.append((c, self.wrap(self.digest(v, depth))))
            elif k in ("suit-parameter-component-slot", "suit-parameter-source-component"):
                out.append((c, self.uint(v)))
            elif k in ("suit-parameter-strict-order", "suit-parameter-soft-failure"):
                out.append((c, ct.simple(21 if v else 20)))
            elif k == "suit-parameter-image-size":
                if "raw" in v:
                    n = v["raw"]
                elif "file" in v:
                    n = len(self.file(v["file"]))
                elif "envelope" in v:
                    n = len(self.envelope(v["envelope"]) if isinstance(v["envelope"], dict) else self.file(v["envelope"]))
                else:
                    n = int(self.file(v["file_direct"]).decode())
                out.append((c, self.uint(n)))
            elif k == "suit-parameter-content":
                out.append((c, self.wrap(self.uint(v)) if isinstance(v, int) and not isinstance(v, bool) else ct.bstr(self.hexbytes(v))))
            elif k == "suit-parameter-encryption-info":
                out.append((c, self.enc_info(v)))
            elif k == "suit-parameter-uri":
                out.append((c, ct.tstr(v)))
            elif k == "suit-parameter-invoke-args":
                out.append((c, self.wrap(ct.mp([(ct.uint(self.code("SuitParameterInvokeArgs", kk)), ct.simple(21 if vv else 20) if kk == "suit-synchronous-invoke" else self.uint(vv))
                                                for kk, vv in v.items()]))))
            elif k == "suit-parameter-version":
                (kk, vv), = v.items()
                out.append((c, self.wrap(ct.arr([ct.uint(self.code("SuitParameterVersion", kk)), self.version_list(vv)]))))
            else:
                raise Rejected(k)
        return ct.mp(out)

    def cmdseq(self, seq, depth):
        out = []
        flat = []
        for cmd in seq:
            kinds = {k in self.reg["SuitCondition"] for k in cmd}
            if len(cmd) == 0 or len(kinds) != 1:
                raise NotInScope("empty command item, or conditions and directives under one item")
            flat += list(cmd.items())         # several commands of one kind under one item: all of them, in order
        for k, v in flat:
            if k in self.reg["SuitCondition"]:
                out += [ct.uint(self.reg["SuitCondition"][k]), self.policy(v)]
                continue
            c = ct.uint(self.code("SuitDirective", k))
            if k == "suit-directive-set-component-index":
                if isinstance(v, bool):
                    a = ct.simple(21 if v else 20)
                elif isinstance(v, int):
                    a = self.uint(v)
                else:
                    a = ct.arr([self.integer(x) for x in v])
            elif k == "suit-directive-try-each":
                a = ct.arr([self.wrap(self.cmdseq(s, depth)) for s in v])
            elif k == "suit-directive-run-sequence":
                a = self.wrap(self.cmdseq(v, depth))
            elif k in ("suit-directive-set-parameters", "suit-directive-override-parameters"):
                a = self.params(v, depth)
            else:
                a = self.policy(v)
            out += [c, a]
        return ct.arr(out)

    # ---- text ----------------------------------------------------------------------------------------
    def text_map(self, t):
        out = []
        for lang, lm in t.items():
            entries = []
            for k, v in lm.items():
                if k in self.reg["SuitTextKeys"]:
                    entries.append((ct.uint(self.reg["SuitTextKeys"][k]), ct.tstr(v)))
                else:
                    try:
                        cid = json.loads(k)
                    except ValueError:
                        raise Rejected("text key")
                    if not isinstance(cid, list):
                        raise NotInScope("text key that is not a component identifier")
                    entries.append((self.component_id(cid), ct.mp([(ct.uint(self.code("SuitTextComponentKeys", kk)), ct.tstr(vv)) for kk, vv in v.items()])))
            out.append((ct.tstr(lang), ct.mp(entries)))
        return ct.mp(out)

    # ---- manifest / envelope -------------------------------------------------------------------------
    def manifest(self, m, severed_bytes, depth):
        out = []
        for k, v in m.items():
            c = ct.uint(self.code("SuitManifest", k))
            if k in ("suit-manifest-version", "suit-manifest-sequence-number"):
                out.append((c, self.uint(v)))
            elif k == "suit-common":
                cm = []
                for kk, vv in v.items():
                    cc = ct.uint(self.code("SuitCommon", kk))
                    if kk == "suit-dependencies":
                        cm.append((cc, ct.mp([(self.uint(int(i)), ct.mp([(ct.uint(self.code("SuitDependencyMetadata", a)), self.component_id(b)) for a, b in meta.items()]))
                                             for i, meta in vv.items()])))
                    elif kk == "suit-components":
                        cm.append((cc, ct.arr([self.component_id(x) for x in vv])))
                    else:
                        cm.append((cc, self.wrap(self.cmdseq(vv, depth))))
                out.append((c, self.wrap(ct.mp(cm))))
            elif k == "suit-reference-uri":
                out.append((c, ct.tstr(v)))
            elif k == "suit-manifest-component-id":
                out.append((c, self.component_id(v)))
            elif k == "suit-current-version":
                out.append((c, self.wrap(self.version_list(v))))
            elif k in CMDSEQ_MEMBERS:
                out.append((c, self.wrap(self.cmdseq(v, depth))))
            elif k in SEVERABLE or k == "suit-text":
                if isinstance(v, dict) and "suit-digest-algorithm-id" in v:
                    d = self.digest({**v, "suit-digest-bytes": v.get("suit-digest-bytes", "") if not isinstance(v.get("suit-digest-bytes"), dict) else v["suit-digest-bytes"]}, depth)
                    if k in severed_bytes:       # present in the envelope: the digest is that of the member as it sits there
                        d = ct.arr([d.children[0], ct.bstr(HASH[v["suit-digest-algorithm-id"]](severed_bytes[k]))])
                    out.append((c, d))
                elif k == "suit-text":
                    raise NotInScope("text map embedded unsevered in the manifest (F7a)")
                else:
                    out.append((c, self.wrap(self.cmdseq(v, depth))))
            else:
                raise Rejected(k)
        return ct.mp(out)

    def envelope(self, desc, depth=0) -> bytes:
        e = desc["SUIT_Envelope_Tagged"]
        if "suit-delegation" in e:
            raise NotInScope("suit-delegation (F7a)")

        def null_digest(o):
            if isinstance(o, dict):
                return ("suit-digest-bytes" in o and o["suit-digest-bytes"] is None) or any(null_digest(v) for v in o.values())
            return isinstance(o, list) and any(null_digest(v) for v in o)
        if depth == 0 and null_digest(desc):
            raise NotInScope("digest bytes left without a value (the tool may refuse the placeholder)")
        severed_items = {}
        for k in SEVERABLE:
            if k in e:
                severed_items[k] = self.wrap(self.cmdseq(e[k], depth))
        if "suit-text" in e:
            severed_items["suit-text"] = self.wrap(self.text_map(e["suit-text"]))
        severed_bytes = {k: ct.encode(v) for k, v in severed_items.items()}
        man = self.wrap(self.manifest(e["suit-manifest"], severed_bytes, depth))
        auth = e["suit-authentication-wrapper"]
        alg = auth["SuitDigest"]["suit-digest-algorithm-id"]
        dg = ct.arr([self.integer(self.code("SuitCoseHashAlg", alg)), ct.bstr(HASH[alg](ct.encode(man)))])
        blocks = [self.wrap(self.sign1(v)) for k, v in auth.items() if k.startswith("SuitAuthentication")]
        wrapper = self.wrap(ct.arr([self.wrap(dg)] + blocks))
        out = []
        text_members = []
        for k, v in e.items():
            if k == "suit-manifest":
                out.append((ct.uint(self.code("SuitEnvelope", k)), man))
            elif k == "suit-authentication-wrapper":
                out.append((ct.uint(self.code("SuitEnvelope", k)), wrapper))
            elif k in severed_items:
                out.append((ct.uint(self.code("SuitEnvelope", k)), severed_items[k]))
            elif k in ("suit-integrated-payloads", "suit-integrated-dependencies"):
                pos = len(out)
                for name, pv in v.items():
                    if isinstance(pv, dict):
                        b = self.envelope(pv, depth + 1)
                    elif isinstance(pv, str) and all(ch in "0123456789abcdefABCDEF" for ch in pv):
                        b = bytes.fromhex(pv)
                    else:
                        b = self.file(pv)
                    # a name given twice keeps its first position and takes the later value
                    for i, (kk, _) in enumerate(out):
                        if kk.major == 3 and kk.data == name.encode():
                            out[i] = (kk, ct.bstr(b))
                            break
                    else:
                        out.append((ct.tstr(name), ct.bstr(b)))
            else:
                raise Rejected(k)
        return ct.encode(ct.tag(107, ct.mp(out)))


def manifest_span(envelope: bytes) -> bytes:
    root = ct.decode(envelope)
    for k, v in root.children[0].children:
        if k.major == 0 and k.arg == 3:
            return ct.encode(v)
    raise Rejected("no manifest")
