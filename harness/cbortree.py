"""The harness's own CBOR tree: decode (definite lengths), nested byte-string contents, node replacement,
re-encoding.  Used to build type-confusion inputs for C17 and to walk envelopes independently of cbor2."""
from __future__ import annotations

import struct


class Malformed(Exception):
    pass


class Item:
    __slots__ = ("major", "arg", "data", "children", "nested", "raw_head")

    def __init__(self, major, arg=0, data=b"", children=None, nested=None):
        self.major = major
        self.arg = arg
        self.data = data          # payload of major 2/3; for major 7 floats the raw bytes
        self.children = children  # list[Item] (4), list[(Item, Item)] (5), [Item] (6)
        self.nested = nested      # Item if the byte string content is itself one complete CBOR item
        self.raw_head = None

    def clone(self):
        if self.major == 4:
            ch = [c.clone() for c in self.children]
        elif self.major == 5:
            ch = [(k.clone(), v.clone()) for k, v in self.children]
        elif self.major == 6:
            ch = [self.children[0].clone()]
        else:
            ch = None
        return Item(self.major, self.arg, self.data, ch, self.nested.clone() if self.nested else None)


def head(major, n):
    if n < 24:
        return bytes([major << 5 | n])
    if n < 256:
        return bytes([major << 5 | 24, n])
    if n < 65536:
        return bytes([major << 5 | 25]) + struct.pack(">H", n)
    if n < 2 ** 32:
        return bytes([major << 5 | 26]) + struct.pack(">I", n)
    return bytes([major << 5 | 27]) + struct.pack(">Q", n)


def decode_at(b: bytes, pos: int, depth=0, nest=True):
    if depth > 500:
        raise Malformed("depth")
    if pos >= len(b):
        raise Malformed("eof")
    ib = b[pos]
    major, ai = ib >> 5, ib & 31
    pos += 1
    if ai < 24:
        arg = ai
    elif ai in (24, 25, 26, 27):
        w = 1 << (ai - 24)
        if pos + w > len(b):
            raise Malformed("eof in head")
        arg = int.from_bytes(b[pos:pos + w], "big")
        pos += w
    else:
        raise Malformed("indefinite or reserved")
    if major in (0, 1):
        return Item(major, arg), pos
    if major in (2, 3):
        if pos + arg > len(b):
            raise Malformed("eof in string")
        data = b[pos:pos + arg]
        it = Item(major, arg, data)
        if major == 2 and nest and data:
            try:
                sub, end = decode_at(data, 0, depth + 1)
                # only when re-encoding gives the same bytes back (shortest heads all the way down): encode(decode(x)) == x must hold
                if end == len(data) and encode(sub) == data:
                    it.nested = sub
            except Malformed:
                pass
        return it, pos + arg
    if major == 4:
        ch = []
        for _ in range(arg):
            c, pos = decode_at(b, pos, depth + 1)
            ch.append(c)
        return Item(4, arg, children=ch), pos
    if major == 5:
        ch = []
        for _ in range(arg):
            k, pos = decode_at(b, pos, depth + 1)
            v, pos = decode_at(b, pos, depth + 1)
            ch.append((k, v))
        return Item(5, arg, children=ch), pos
    if major == 6:
        c, pos = decode_at(b, pos, depth + 1)
        return Item(6, arg, children=[c]), pos
    # major 7
    if ai in (25, 26, 27):
        return Item(7, arg, data=b"float%d" % ai), pos
    return Item(7, arg), pos


def decode(b: bytes) -> Item:
    it, end = decode_at(b, 0)
    if end != len(b):
        raise Malformed("trailing bytes")
    return it


def encode(it: Item) -> bytes:
    m = it.major
    if m in (0, 1):
        return head(m, it.arg)
    if m == 2:
        data = encode(it.nested) if it.nested is not None else it.data
        return head(2, len(data)) + data
    if m == 3:
        return head(3, len(it.data)) + it.data
    if m == 4:
        return head(4, len(it.children)) + b"".join(encode(c) for c in it.children)
    if m == 5:
        return head(5, len(it.children)) + b"".join(encode(k) + encode(v) for k, v in it.children)
    if m == 6:
        return head(6, it.arg) + encode(it.children[0])
    if it.data.startswith(b"float"):
        ai = int(it.data[5:])
        w = 1 << (ai - 24)
        return bytes([7 << 5 | ai]) + it.arg.to_bytes(w, "big")
    if it.arg < 24:
        return bytes([7 << 5 | it.arg])
    return bytes([7 << 5 | 24, it.arg])


def paths(it: Item, path=()):
    """every node position: path elements are ints (array index / tag child 0), ('k', i), ('v', i), 'n' (nested)"""
    yield path, it
    if it.major == 4:
        for i, c in enumerate(it.children):
            yield from paths(c, path + (i,))
    elif it.major == 5:
        for i, (k, v) in enumerate(it.children):
            yield from paths(k, path + (("k", i),))
            yield from paths(v, path + (("v", i),))
    elif it.major == 6:
        yield from paths(it.children[0], path + (0,))
    elif it.major == 2 and it.nested is not None:
        yield from paths(it.nested, path + ("n",))


def replace(root: Item, path, new: Item) -> Item:
    if not path:
        return new.clone()
    r = root.clone()
    cur = r
    for p in path[:-1]:
        cur = _child(cur, p)
    _set_child(cur, path[-1], new.clone())
    return r


def _child(it, p):
    if p == "n":
        return it.nested
    if isinstance(p, tuple):
        kind, i = p
        return it.children[i][0 if kind == "k" else 1]
    return it.children[p]


def _set_child(it, p, new):
    if p == "n":
        it.nested = new
    elif isinstance(p, tuple):
        kind, i = p
        k, v = it.children[i]
        it.children[i] = (new, v) if kind == "k" else (k, new)
    else:
        it.children[p] = new


def uint(n):
    return Item(0, n)


def nint(n):
    return Item(1, n)


def bstr(b):
    return Item(2, len(b), b)


def tstr(s):
    d = s.encode()
    return Item(3, len(d), d)


def arr(xs):
    return Item(4, len(xs), children=list(xs))


def mp(kvs):
    return Item(5, len(kvs), children=list(kvs))


def tag(t, x):
    return Item(6, t, children=[x])


def simple(n):
    return Item(7, n)


def flt(ai, bits):
    return Item(7, bits, data=b"float%d" % ai)


def representatives():
    """(name, item, in_model_domain)"""
    return [
        ("uint0", uint(0), True), ("uint1", uint(1), True), ("uint2^32", uint(2 ** 32), True), ("nint-1", nint(0), True), ("nint-big", nint(2 ** 40), True),
        ("uint2^56", uint(2 ** 56), True), ("uint2^63", uint(2 ** 63), True), ("uint-max", uint(2 ** 64 - 1), True), ("nint-min", nint(2 ** 64 - 1), True),
        ("bstr-empty", bstr(b""), True), ("bstr-ff", bstr(b"\xff\x01"), True), ("bstr-cbor", bstr(b"\x05"), True), ("bstr16", bstr(bytes(range(16))), True),
        ("tstr-empty", tstr(""), True), ("tstr-a", tstr("a"), True), ("tstr-long", tstr("x" * 30), True),
        ("arr0", arr([]), True), ("arr1", arr([uint(1)]), True), ("arr2", arr([uint(1), bstr(b"\x02")]), True), ("arr3", arr([uint(1), uint(2), uint(3)]), True),
        ("map0", mp([]), True), ("map-int", mp([(uint(1), uint(2))]), True), ("map-unk", mp([(uint(99), uint(1))]), True),
        ("map-str", mp([(tstr("k"), bstr(b"\xff"))]), True), ("map-neg", mp([(nint(0), mp([(tstr("x"), bstr(b"\x01"))]))]), True),
        ("tag107", tag(107, mp([])), True), ("tag18", tag(18, arr([bstr(b""), mp([]), simple(22), bstr(b"")])), True), ("tag96", tag(96, arr([])), True),
        ("tag999", tag(999, uint(0)), True),
        ("false", simple(20), True), ("true", simple(21), True), ("null", simple(22), True), ("undefined", simple(23), True),
        ("float", flt(27, 0x3FF8000000000000), False), ("float1.0", flt(25, 0x3C00), False), ("simple5", simple(5), False),
        ("tag-date", tag(1, uint(0)), False), ("tag-bignum", tag(2, bstr(b"\x01" * 9)), False),
    ]


def model_domain(it: Item) -> bool:
    """inside the compared domain of the Lean model? (no floats, exotic simple values, semantic tags)"""
    for _, n in paths(it):
        if n.major == 7 and (n.data.startswith(b"float") or n.arg not in (20, 21, 22, 23)):
            return False
        if n.major == 6 and n.arg not in (18, 96, 107, 999):
            return False
        if n.major == 3:
            try:
                n.data.decode("utf-8")
            except UnicodeDecodeError:
                pass
        if n.major == 5:
            # boolean keys alias integers in Python dictionaries: kept out of the compared domain
            for k, _ in n.children:
                if k.major == 7:
                    return False
    return True


def depth(it: Item) -> int:
    d = 0
    for p, _ in paths(it):
        d = max(d, len(p))
    return d
