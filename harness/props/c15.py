"""C15 - generated key pairs match and convert emits the exact public key."""
from __future__ import annotations

import os
import re
import tempfile

from .. import common
from ..common import Result, Driver, stage_a, finish, rng_for

PROP = "C15"
RULE = ("convert: private keys of all five types, including NIST keys constructed from chosen scalars so that X or Y has 1-2 leading zero bytes (found by search), "
        "crossed with column / indentation / tab / const / length / header / footer options, through cmd_convert.main; the C file is tokenised by the verifier "
        "(0x.. literals) and compared with the public key computed by the harness with the cryptography library; the whole text is compared with the model. "
        "keys: the complete option space 5 types x 2 encodings x 2 private x 2 public formats (40 combinations), N keys each, through cmd_keys.main; both files are "
        "loaded with the standard loaders and must pair. distinct = distinct (key, options)")
NOTE = ["key generation and serialisation belong to the cryptography library and are outside the model; the keys half is checked directly over the complete option space",
        "the length variable is sizeof(<array>): its equality with the array size is C semantics; the harness checks the expression names the emitted array"]

CURVES = {"secp256r1": 32, "secp384r1": 48, "secp521r1": 66}


def nist_key(curve_name, d):
    from cryptography.hazmat.primitives.asymmetric import ec
    curve = {"secp256r1": ec.SECP256R1(), "secp384r1": ec.SECP384R1(), "secp521r1": ec.SECP521R1()}[curve_name]
    return ec.derive_private_key(d, curve)


def find_leading_zero_keys(curve_name, want, start=1):
    """private scalars whose public X or Y has at least one leading zero byte"""
    w = CURVES[curve_name]
    out = []
    d = start
    while len(out) < want:
        k = nist_key(curve_name, d)
        n = k.public_key().public_numbers()
        if n.x < 256 ** (w - 1) or n.y < 256 ** (w - 1):
            out.append(d)
        d += 1
    return out


BOUNDARY_VALUES = (0x00, 0x04, 0x02, 0x03, 0x0A, 0x20, 0x30, 0xFF)


def find_boundary_keys(curve_name, limit):
    """private scalars whose public X or Y begins or ends with a byte value that encodings treat specially (0x00 leading zero, 0x04/0x02/0x03
    SEC1 point markers, 0x0a/0x20 white space, 0x30 DER sequence, 0xff): one key per (coordinate end, value) found among the first `limit` scalars"""
    w = CURVES[curve_name]
    found = {}
    for d in range(1, limit + 1):
        n = nist_key(curve_name, d).public_key().public_numbers()
        xb, yb = n.x.to_bytes(w, "big"), n.y.to_bytes(w, "big")
        for pos, val in (("x-first", xb[0]), ("x-last", xb[-1]), ("y-first", yb[0]), ("y-last", yb[-1])):
            if val in BOUNDARY_VALUES and (pos, val) not in found:
                found[(pos, val)] = d
    return found


def der_exact(b: bytes) -> bool:
    """one DER TLV that spans the whole file"""
    if len(b) < 2:
        return False
    if b[1] < 0x80:
        return 2 + b[1] == len(b)
    k = b[1] & 0x7F
    if k == 0 or len(b) < 2 + k:
        return False
    return 2 + k + int.from_bytes(b[2:2 + k], "big") == len(b)


def pem_exact(b: bytes) -> bool:
    """exactly one armoured block, nothing after the END line"""
    t = b.decode("ascii", "replace")
    return t.count("-----BEGIN ") == 1 and t.count("-----END ") == 1 and t.startswith("-----BEGIN ") and re.fullmatch(r"-----END [A-Z ]+-----\n?", t[t.index("-----END "):]) is not None


def pem_of(key):
    from cryptography.hazmat.primitives import serialization
    return key.private_bytes(serialization.Encoding.PEM, serialization.PrivateFormat.PKCS8, serialization.NoEncryption())


EC_PARAMS_DER = {"secp256r1": bytes.fromhex("06082a8648ce3d030107"), "secp384r1": bytes.fromhex("06052b81040022"), "secp521r1": bytes.fromhex("06052b81040023")}
HEADERS = ["", "", "/* header */", "#include <stdint.h>\n#include <stddef.h>",
           "#ifdef __cplusplus\nextern \"C\" {\n#endif\n", "struct key_meta { uint8_t id; };\n", "/* {0} {array_name} %s 100% $HOME \\n */", "#define KEY_ID {1, 2}\n"]
FOOTERS = ["", "", "/* end */\n", "#ifdef __cplusplus\n}\n#endif\n", "/* } { {} %d */\n"]


def pem_layouts(key):
    """the layouts in which standard tooling hands out a private key in PEM; each holds the same key"""
    import base64
    from cryptography.hazmat.primitives import serialization
    out = [("pkcs8", pem_of(key))]
    if hasattr(key, "curve"):
        sec1 = key.private_bytes(serialization.Encoding.PEM, serialization.PrivateFormat.TraditionalOpenSSL, serialization.NoEncryption())
        out.append(("sec1", sec1))
        b64 = base64.encodebytes(EC_PARAMS_DER[key.curve.name]).decode()
        out.append(("ecparam-genkey", ("-----BEGIN EC PARAMETERS-----\n" + b64 + "-----END EC PARAMETERS-----\n").encode() + sec1))   # openssl ecparam -name <curve> -genkey
    pub = key.public_key().public_bytes(serialization.Encoding.PEM, serialization.PublicFormat.SubjectPublicKeyInfo)
    out.append(("private-then-public", pem_of(key) + pub))
    # what surrounds the armour in files that tools and editors hand out: explanatory text before the first BEGIN line (openssl pkcs12 "Bag Attributes"),
    # blank lines, CRLF line ends, a UTF-8 byte order mark
    p8 = pem_of(key)
    out.append(("bag-attributes", b"Bag Attributes\n    friendlyName: signing key\n    localKeyID: 01 02 03\nKey Attributes: <No Attributes>\n" + p8))
    out.append(("blank-lines", b"\n\n" + p8 + b"\n"))
    out.append(("crlf", p8.replace(b"\n", b"\r\n")))
    out.append(("utf8-bom", b"\xef\xbb\xbf" + p8))
    return out


def expected_public(key):
    from cryptography.hazmat.primitives import serialization
    try:
        n = key.public_key().public_numbers()
        w = (n.curve.key_size + 7) // 8
        return n.x.to_bytes(w, "big") + n.y.to_bytes(w, "big"), (w, n.x, n.y)
    except AttributeError:
        return key.public_key().public_bytes(serialization.Encoding.Raw, serialization.PublicFormat.Raw), None


def convert_cases(res, drv, rng, tier, d):
    from suit_generator import cmd_convert
    from cryptography.hazmat.primitives.asymmetric import ed25519, ed448
    keys = []
    for cn in CURVES:
        for dd in find_leading_zero_keys(cn, 3 if tier == "quick" else 25):
            keys.append((f"{cn}:leading-zero", nist_key(cn, dd)))
        for (pos, val), dd in sorted(find_boundary_keys(cn, 700 if tier == "quick" else 6000).items()):
            keys.append((f"{cn}:{pos}=0x{val:02x}", nist_key(cn, dd)))
        for _ in range(4 if tier == "quick" else 150):
            keys.append((cn, nist_key(cn, rng.randrange(1, 2 ** 200))))
    for _ in range(3 if tier == "quick" else 60):
        keys.append(("ed25519", ed25519.Ed25519PrivateKey.generate()))
        keys.append(("ed448", ed448.Ed448PrivateKey.generate()))
    hdrp, ftrp = os.path.join(d, "hdr.txt"), os.path.join(d, "ftr.txt")
    for i, (kind, key) in enumerate(keys):
        inp, outp = os.path.join(d, "key.pem"), os.path.join(d, "key.c")
        layouts = pem_layouts(key)
        exp, xy = expected_public(key)
        for rep in range(2 if tier == "quick" else 3):
            layout, pem = layouts[(i + rep) % len(layouts)] if rep else layouts[0]
            open(inp, "wb").write(pem)
            res.count("convert:pem-layout:" + layout)
            header = rng.choice(HEADERS)
            footer = rng.choice(FOOTERS)
            open(hdrp, "w").write(header)
            open(ftrp, "w").write(footer)
            opts = dict(array_type=rng.choice(["uint8_t", "unsigned char"]), array_name=rng.choice(["key_buf", "public_key0"]),
                        length_type=rng.choice(["size_t", "size_t", "unsigned int"]), length_name=rng.choice(["key_len", "n"]),
                        columns_count=rng.choice([1, 2, 7, 8, 16, 64, 200]), indentation_count=rng.choice([0, 1, 4, 8]), indentation_tab=rng.random() < 0.3,
                        no_length=rng.random() < 0.2, no_const=rng.random() < 0.3)
            common.make_stale(outp)
            try:
                common.call_main(cmd_convert.main, d, input_file=inp, output_file=outp, header_file=hdrp if header or rng.random() < 0.5 else "",
                                 footer_file=ftrp if footer or rng.random() < 0.5 else "", **opts)
                text = open(outp).read()
            except BaseException as e:  # noqa
                res.spec_failures.append({"key": kind, "pem_layout": layout, "options": opts, "header": header, "footer": footer, "what": "convert failed: " + type(e).__name__})
                continue
            res.case(["convert", kind, i, rep, sorted(opts.items()), header, footer])
            res.count("convert:" + kind.split("=")[0].split(":x-")[0].split(":y-")[0])
            if "=0x" in kind:
                res.count("convert:boundary-byte-keys")
            model = drv.call({"op": "convert.file", "array_type": opts["array_type"], "array_name": opts["array_name"], "length_type": opts["length_type"],
                              "length_name": opts["length_name"], "cols": opts["columns_count"], "indent": opts["indentation_count"], "tab": opts["indentation_tab"],
                              "no_length": opts["no_length"], "no_const": opts["no_const"], "header": header, "footer": footer, "data": exp.hex()})["ok"]
            if model != text:
                res.mismatches.append({"op": "convert.file", "key": kind, "options": opts, "impl": text[:1500], "model": model[:1500]})
            # direct: tokenise the array body
            m = re.search(r"\[\] = \{\n(.*?)\};\n", text, re.S)
            if not m:
                res.spec_failures.append({"key": kind, "options": opts, "text": text[:500], "what": "no array definition found in the C file"})
                continue
            body = m.group(1)
            toks = bytes.fromhex(drv.call({"op": "convert.tokens", "text": body})["ok"])
            if toks != exp:
                res.spec_failures.append({"key": kind, "options": opts, "array_bytes": toks.hex(), "public_key": exp.hex(),
                                          "what": f"the C array holds {len(toks)} bytes, the public key is {len(exp)} bytes" if len(toks) != len(exp) else "array bytes differ from the public key"})
            if re.search(r",\s*$", body.rstrip("\n")):
                res.spec_failures.append({"key": kind, "options": opts, "what": "trailing comma after the last element"})
            rows = [r for r in body.split("\n") if r.strip()]
            if any(len(re.findall(r"0x[0-9a-f]{2}", r)) > opts["columns_count"] for r in rows):
                res.spec_failures.append({"key": kind, "options": opts, "what": "a row holds more than the requested number of columns"})
            if not opts["no_length"] and f"{opts['length_name']} = " + (f"({opts['length_type']}) " if opts["length_type"] != "size_t" else "") + f"sizeof({opts['array_name']});" not in text:
                res.spec_failures.append({"key": kind, "options": opts, "what": "the length variable is not sizeof(<array>)"})
            if xy is not None:
                w, x, y = xy
                mp = drv.call({"op": "convert.pub", "w": w, "x": x, "y": y})
                if mp.get("ok") != exp.hex():
                    res.mismatches.append({"op": "convert.pub", "w": w, "x": x, "y": y, "model": mp})


def cli_cases(res, drv, d):
    """convert and keys through the real command line (option spellings, defaults)"""
    from concurrent.futures import ThreadPoolExecutor
    from cryptography.hazmat.primitives import serialization
    key = nist_key("secp256r1", 106)
    inp = os.path.join(d, "cli_key.pem")
    open(inp, "wb").write(pem_of(key))
    exp, _ = expected_public(key)
    variants = [[], ["--columns-count", "1"], ["--columns-count", "12", "--indentation-count", "2"], ["--array-name", "root_public_key", "--length-name", "root_len"],
                ["--array-type", "unsigned char", "--length-type", "unsigned int", "--no-const"], ["--indentation-tab", "--indentation-count", "1"], ["--no-length"],
                ["--columns-count", "200"], ["--indentation-count", "0"], ["--indentation-tab", "--indentation-count", "0", "--columns-count", "3"],
                ["--indentation-count", "16", "--columns-count", "64"]]          # the borders of the layout options, as the command line reads them (C15-r)

    def conv(k):
        out = os.path.join(d, f"cli_conv{k}.c")
        common.make_stale(out)
        rc, log = common.run_cli(["convert", "--input-file", inp, "--output-file", out] + variants[k], d)
        return rc, log, (open(out).read() if common.was_written(out) else None)

    def keys(k):
        ktype = ["secp256r1", "secp384r1", "secp521r1", "ed25519", "ed448"][k]
        prefix = os.path.join(d, f"cli keys.{k}")
        rc, log = common.run_cli(["keys", "--output-file", prefix, "--type", ktype], d)
        return rc, log, prefix, ktype
    with ThreadPoolExecutor(max_workers=12) as ex:
        couts = list(ex.map(conv, range(len(variants))))
        kouts = list(ex.map(keys, range(5)))
    for v, (rc, log, text) in zip(variants, couts):
        res.case(["cli-convert", v], nontrivial=True)
        res.count("cli:convert")
        if rc != 0 or text is None:
            res.spec_failures.append({"cli": "convert", "options": v, "what": f"the command line failed (exit {rc})", "log": log[-300:]})
            continue
        m = re.search(r"(\w[\w ]*?)\s+(\w+)\[\] = \{\n(.*?)\};\n", text, re.S)
        if not m:
            res.spec_failures.append({"cli": "convert", "options": v, "text": text[:300], "what": "no array definition found in the C file"})
            continue
        name, body = m.group(2), m.group(3)
        toks = bytes.fromhex(drv.call({"op": "convert.tokens", "text": body})["ok"])
        if toks != exp:
            res.spec_failures.append({"cli": "convert", "options": v, "what": "array bytes written through the command line differ from the public key"})
        want_name = v[v.index("--array-name") + 1] if "--array-name" in v else "key_buf"
        if name != want_name:
            res.spec_failures.append({"cli": "convert", "options": v, "array_name": name, "what": "the array does not carry the requested (or default) name"})
        if "--no-length" not in v:
            ln = v[v.index("--length-name") + 1] if "--length-name" in v else "key_len"
            if not re.search(r"\b%s = (\([^)]*\) )?sizeof\(%s\);" % (re.escape(ln), re.escape(name)), text):
                res.spec_failures.append({"cli": "convert", "options": v, "what": f"the length variable {ln} is not sizeof({name}) of the array actually emitted"})
        cols = int(v[v.index("--columns-count") + 1]) if "--columns-count" in v else None
        if cols and any(len(re.findall(r"0x[0-9a-f]{2}", r)) > cols for r in body.split("\n")):
            res.spec_failures.append({"cli": "convert", "options": v, "what": "a row holds more than the requested number of columns"})
    # unsupported format combinations through the command line: the exit status reports the error and no key file is left behind;
    # supported non-default combinations write a loadable, matching pair
    combos = [("ed25519", "pem", "pkcs1", "default", False), ("ed448", "der", "pkcs1", "default", False), ("ed25519", "pem", "pkcs8", "pkcs1", False),
              ("secp256r1", "pem", "pkcs8", "pkcs1", False), ("secp384r1", "der", "pkcs1", "default", True), ("ed448", "der", "pkcs8", "default", True),
              ("secp521r1", "pem", "pkcs1", "default", True)]

    def combo(k):
        ktype, enc, pf, pubf, ok = combos[k]
        prefix = os.path.join(d, f"combo{k}")
        rc, log = common.run_cli(["keys", "--output-file", prefix, "--type", ktype, "--encoding", enc, "--private-format", pf, "--public-format", pubf], d)
        return rc, log, prefix
    with ThreadPoolExecutor(max_workers=8) as ex:
        combo_outs = list(ex.map(combo, range(len(combos))))
    for (ktype, enc, pf, pubf, ok), (rc, log, prefix) in zip(combos, combo_outs):
        res.case(["cli-keys-combo", ktype, enc, pf, pubf], nontrivial=True)
        res.count("cli:keys-combination")
        privp, pubp = f"{prefix}_priv.{enc}", f"{prefix}_pub.{enc}"
        left = [f for f in (privp, pubp) if os.path.exists(f)]
        if not ok:
            if rc == 0:
                res.spec_failures.append({"cli": "keys", "request": [ktype, enc, pf, pubf], "what": "an unsupported format combination: the command line reported success (exit 0)",
                                          "files": [os.path.basename(f) for f in left]})
            elif left:
                res.spec_failures.append({"cli": "keys", "request": [ktype, enc, pf, pubf], "what": "an unsupported format combination was reported and still left key files behind",
                                          "files": [os.path.basename(f) for f in left]})
            continue
        if rc != 0 or len(left) != 2:
            res.spec_failures.append({"cli": "keys", "request": [ktype, enc, pf, pubf], "what": f"a supported combination failed on the command line (exit {rc})", "log": log[-300:]})
            continue
        load_priv = serialization.load_pem_private_key if enc == "pem" else serialization.load_der_private_key
        load_pub = serialization.load_pem_public_key if enc == "pem" else serialization.load_der_public_key
        try:
            priv, pub = load_priv(open(privp, "rb").read(), None), load_pub(open(pubp, "rb").read())
            kind = priv.curve.name if hasattr(priv, "curve") else type(priv).__name__.lower()
            same = priv.public_key().public_bytes(serialization.Encoding.DER, serialization.PublicFormat.SubjectPublicKeyInfo) == \
                pub.public_bytes(serialization.Encoding.DER, serialization.PublicFormat.SubjectPublicKeyInfo)
            if ktype not in kind or not same:
                res.spec_failures.append({"cli": "keys", "request": [ktype, enc, pf, pubf], "holds": kind, "what": "the pair written is not a matching pair of the requested type"})
        except Exception as e:  # noqa
            res.spec_failures.append({"cli": "keys", "request": [ktype, enc, pf, pubf], "what": "the key files do not load with standard tooling: " + type(e).__name__})
    for rc, log, prefix, ktype in kouts:
        res.case(["cli-keys", ktype], nontrivial=True)
        res.count("cli:keys")
        privp, pubp = prefix + "_priv.pem", prefix + "_pub.pem"
        if rc != 0 or not (os.path.exists(privp) and os.path.exists(pubp)):
            res.spec_failures.append({"cli": "keys", "type": ktype, "what": f"keys with default options failed or did not write <prefix>_priv.pem / _pub.pem (exit {rc})", "log": log[-300:]})
            continue
        priv = serialization.load_pem_private_key(open(privp, "rb").read(), None)
        pub = serialization.load_pem_public_key(open(pubp, "rb").read())
        kind = priv.curve.name if hasattr(priv, "curve") else type(priv).__name__.lower()
        if ktype not in kind or priv.public_key().public_bytes(serialization.Encoding.DER, serialization.PublicFormat.SubjectPublicKeyInfo) != \
                pub.public_bytes(serialization.Encoding.DER, serialization.PublicFormat.SubjectPublicKeyInfo):
            res.spec_failures.append({"cli": "keys", "type": ktype, "holds": kind, "what": "the pair written through the command line is not a matching pair of the requested type"})


def keys_cases(res, rng, tier, d):
    from suit_generator import cmd_keys
    from suit_generator.exceptions import GeneratorError
    from cryptography.hazmat.primitives import serialization
    n = 1 if tier == "quick" else 6
    for ktype in ["secp256r1", "secp384r1", "secp521r1", "ed25519", "ed448"]:
        for enc in ["pem", "der"]:
            for pf in ["pkcs1", "pkcs8"]:
                for pubf in ["default", "pkcs1"]:
                    for rep in range(n):
                        # the prefix is a prefix, whatever it contains: dots ("app.v2", "key.pem"), blanks, several dots
                        stem = [f"k_{ktype}_{enc}_{pf}_{pubf}_{rep}", f"k.{ktype}_{enc}.{pf}_{pubf}.v{rep}", f"fw-1.2.{rep} {ktype}_{enc}_{pf}_{pubf}", f"{ktype}.{enc}.{pf}.{pubf}.{rep}.pem"][
                            (len(ktype) + len(enc) * 3 + len(pf) + len(pubf) + rep) % 4]
                        prefix = os.path.join(d, stem)
                        res.count("keys:prefix-with-dot:" + str("." in stem))
                        privp, pubp = f"{prefix}_priv.{enc}", f"{prefix}_pub.{enc}"
                        res.case(["keys", ktype, enc, pf, pubf, rep], nontrivial=True)
                        preexisting = (rep + len(ktype) + len(pf)) % 2 == 0
                        if preexisting:
                            # the output names already exist and are longer than anything the command writes (an earlier, larger key)
                            for p in (privp, pubp):
                                with open(p, "wb") as fh:
                                    fh.write(b"-----BEGIN OLD-----\n" + b"A" * 3000 + b"\n-----END OLD-----\n")
                        try:
                            common.call_main(cmd_keys.main, d, output_file=prefix, type=ktype, encoding=enc, private_format=pf, public_format=pubf, encryption="none")
                            outcome = "ok"
                        except GeneratorError:
                            outcome = "GeneratorError"
                        except BaseException as e:  # noqa
                            outcome = type(e).__name__
                        res.count(f"keys:{ktype}:{pf}:{pubf}:{outcome}")
                        wrote = [p for p in (privp, pubp) if os.path.exists(p)]
                        if outcome == "GeneratorError":
                            if preexisting:
                                wrote = [p for p in wrote if not open(p, "rb").read().startswith(b"-----BEGIN OLD-----")]
                                for p in (privp, pubp):
                                    if os.path.exists(p):
                                        os.unlink(p)
                            if wrote:
                                res.spec_failures.append({"combination": [ktype, enc, pf, pubf], "files": wrote, "what": "unsupported combination reported but files were written"})
                            continue
                        if outcome != "ok":
                            res.spec_failures.append({"combination": [ktype, enc, pf, pubf], "what": "keys raised " + outcome + " instead of writing files or reporting the combination"})
                            continue
                        if len(wrote) != 2:
                            res.spec_failures.append({"combination": [ktype, enc, pf, pubf], "files": wrote, "what": "not both key files written"})
                            continue
                        res.count("keys:preexisting-files:" + str(preexisting))
                        for p in wrote:
                            fb = open(p, "rb").read()
                            if not (pem_exact(fb) if enc == "pem" else der_exact(fb)):
                                res.spec_failures.append({"combination": [ktype, enc, pf, pubf], "file": os.path.basename(p), "length": len(fb), "preexisting_file": preexisting,
                                                          "what": "the key file is not exactly one " + enc.upper() + " object (bytes before or after it)"})
                        try:
                            pb, ub = open(privp, "rb").read(), open(pubp, "rb").read()
                            priv = (serialization.load_pem_private_key if enc == "pem" else serialization.load_der_private_key)(pb, None)
                            pub = (serialization.load_pem_public_key if enc == "pem" else serialization.load_der_public_key)(ub)
                            a = priv.public_key().public_bytes(serialization.Encoding.DER, serialization.PublicFormat.SubjectPublicKeyInfo)
                            b = pub.public_bytes(serialization.Encoding.DER, serialization.PublicFormat.SubjectPublicKeyInfo)
                            if a != b:
                                res.spec_failures.append({"combination": [ktype, enc, pf, pubf], "what": "the public key file does not belong to the private key file"})
                            names = {"secp256r1": "secp256r1", "secp384r1": "secp384r1", "secp521r1": "secp521r1"}
                            if ktype in names and priv.curve.name != names[ktype]:
                                res.spec_failures.append({"combination": [ktype, enc, pf, pubf], "what": "key is not of the requested type"})
                            if ktype.startswith("ed") and ktype not in type(priv).__name__.lower():
                                res.spec_failures.append({"combination": [ktype, enc, pf, pubf], "what": "key is not of the requested type"})
                        except BaseException as e:  # noqa
                            res.spec_failures.append({"combination": [ktype, enc, pf, pubf], "what": "key files do not load with the standard loaders: " + type(e).__name__})
                        for p in wrote:
                            os.unlink(p)


def run(tier: str, seed: int) -> int:
    common.ensure_repo_on_path()
    res = Result(PROP, tier, seed)
    st = stage_a(PROP, thorough=(tier == "thorough"))
    if not st.ok_driver:
        return finish(res, st, RULE, NOTE)
    rng = rng_for(seed, PROP)
    drv = Driver()
    with tempfile.TemporaryDirectory(prefix="verif_c15_") as d:
        convert_cases(res, drv, rng, tier, d)
        keys_cases(res, rng, tier, d)
    res.sample({"convert": "secp256r1 key with a leading zero byte in X or Y, columns 8, indentation 4 -> 64 array bytes"})
    res.notes["keys_option_space"] = "5 types x 2 encodings x 2 private x 2 public formats = 40 combinations, complete"
    drv.close()
    from .. import reuse
    reuse.keygen_reuse(res, PROP)
    reuse.converter_reuse(res, PROP)
    with tempfile.TemporaryDirectory(prefix="verif_c15cli_") as dcli:
        dcl = Driver()
        cli_cases(res, dcl, dcli)
        dcl.close()
    return finish(res, st, RULE, NOTE)


def replay(payload: dict) -> int:
    print(payload)
    return 1
