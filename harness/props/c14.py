"""C14 - every encryption uses a fresh IV."""
from __future__ import annotations

import os
import subprocess
import sys
import tempfile

from .. import common, signing
from ..common import Result, Driver, stage_a, finish, rng_for
from .c06 import aes_keys_dir, AES_KEY

PROP = "C14"
RULE = ("histories of encrypt-and-generate calls with one key: identical and different firmware, one interpreter (os.urandom wrapped - not replaced - so that the "
        "draws of every call are recorded) and separate CLI processes. For every call: the published IV must be a window of the bytes drawn during *this* call "
        "and of no earlier call's draws, AES-GCM decryption with the published IV must succeed (the IV published is the IV used), and all IVs of the history "
        "are compared pairwise. distinct = distinct calls; non-trivial = every call after the first")
NOTE = ["that the operating system's entropy source does not repeat is runtime behaviour: no theorem covers it (hypothesis StreamFresh); the harness observes it",
        "the relation 'IV is a window of this call's draws' tolerates harmless rewrites such as os.urandom(16)[:12]"]


def history_in_process(res, drv, n, rng):
    common.ensure_repo_on_path()
    import importlib.util
    from cryptography.hazmat.primitives.ciphers.aead import AESGCM
    from suit_generator.suit_encrypt_script_base import SuitDigestAlgorithms, SuitKWAlgorithms

    spec = importlib.util.spec_from_file_location("verif_encrypt_c14", common.REPO / "ncs" / "encrypt_script.py")
    mod = importlib.util.module_from_spec(spec)
    spec.loader.exec_module(mod)
    draws = []
    real = os.urandom

    def recording(nbytes):
        b = real(nbytes)
        draws.append(b)
        return b

    os.urandom = recording
    seen_draws = b""
    ivs = {}
    fixed = bytes(range(64))
    kms = str(common.REPO / "ncs" / "basic_kms.py")
    try:
        for i in range(n):
            fw = fixed if i % 2 == 0 else bytes(rng.randrange(256) for _ in range(rng.choice([0, 1, 16, 33])))
            if i in (7, 151, 152):
                fw = rng.randbytes([(1 << 20) + 1, 2621440 + 7, 1 << 20][i % 3])        # images of real size in between: the history is one history
            draws.clear()
            # one Encryptor object serves several images (a packaging script calls the factory once), then a new one: three calls in four reuse the object (C14-q)
            if i % 4 == 0 or i < 2:
                enc = mod.suit_encryptor_factory() if i % 8 == 0 else mod.Encryptor()
            else:
                res.count("in_process_calls_on_a_reused_encryptor")
            content, tag, info, digest, ln = enc.encrypt_and_generate(fw, "aes_key", 0x7FFFFFE0, aes_keys_dir(), SuitDigestAlgorithms("sha-256"),
                                                                      SuitKWAlgorithms("direct"), kms)
            this_call = b"".join(draws)
            if i % 50 == 0 or i < 20:
                v = drv.call({"op": "spec.C06", "info": info.hex()})["ok"]
                iv = bytes.fromhex(v["iv"])
                aad = bytes.fromhex(v["aad"])
            else:
                # fast path: the IV sits at a fixed position of the canonical info (checked with the strict reader on the sampled calls)
                iv = info[info.index(b"\xa1\x05\x4c") + 3: info.index(b"\xa1\x05\x4c") + 15]
            res.case(["call", i], nontrivial=(i > 0))
            if len(iv) != 12:
                res.spec_failures.append({"call": i, "iv": iv.hex(), "what": "published IV is not 96 bits"})
            if iv not in this_call:
                res.spec_failures.append({"call": i, "iv": iv.hex(), "draws": this_call.hex(), "what": "the published IV is not made of bytes drawn from the entropy source during this call"})
            if iv in seen_draws:
                res.spec_failures.append({"call": i, "iv": iv.hex(), "what": "the published IV re-uses bytes drawn by an earlier call"})
            if iv in ivs:
                res.spec_failures.append({"call": i, "iv": iv.hex(), "earlier_call": ivs[iv], "same_firmware": True, "what": "IV repeated within one history"})
            ivs[iv] = i
            seen_draws += this_call
            try:
                if AESGCM(AES_KEY).decrypt(iv, content + tag, aad) != fw:
                    res.spec_failures.append({"call": i, "what": "decryption with the published IV yields a different plaintext"})
            except Exception:
                res.spec_failures.append({"call": i, "iv": iv.hex(), "what": "decryption with the published IV fails: the IV published is not the IV used"})
    finally:
        os.urandom = real
    res.count("in_process_calls", n)
    res.count("distinct_ivs_in_process", len(ivs))
    return ivs


def history_kms_object(res, n, rng, known_ivs):
    """the key-management object used as a library: one import of the KMS script, several objects, many encrypt() calls"""
    import importlib.util
    from cryptography.hazmat.primitives.ciphers.aead import AESGCM
    draws = []
    real = os.urandom

    def recording(nbytes):
        b = real(nbytes)
        draws.append(b)
        return b

    os.urandom = recording
    try:
        spec = importlib.util.spec_from_file_location("verif_kms_c14", common.REPO / "ncs" / "basic_kms.py")
        mod = importlib.util.module_from_spec(spec)
        spec.loader.exec_module(mod)            # draws made while the script is loaded belong to no call
        objs = [mod.suit_kms_factory() for _ in range(3)]
        for o in objs:
            o.init_kms(aes_keys_dir())
        seen = b"".join(draws)
        ivs = dict(known_ivs)
        fixed = bytes(range(48))
        for i in range(n):
            fw = fixed if i % 2 == 0 else bytes(rng.randrange(256) for _ in range(rng.choice([0, 1, 16, 33])))
            aad = rng.choice([b"", b"aad", bytes(10)])
            draws.clear()
            nonce, tag, ct = objs[i % 3].encrypt(fw, "aes_key", aes_keys_dir(), aad)
            this_call = b"".join(draws)
            res.case(["kms-object", i], nontrivial=(i > 0))
            if len(nonce) != 12:
                res.spec_failures.append({"kms_call": i, "iv": nonce.hex(), "what": "returned IV is not 96 bits"})
            if nonce not in this_call:
                res.spec_failures.append({"kms_call": i, "iv": nonce.hex(), "what": "the returned IV is not made of bytes drawn from the entropy source during this call"})
            if nonce in seen:
                res.spec_failures.append({"kms_call": i, "iv": nonce.hex(), "what": "the returned IV re-uses bytes drawn earlier"})
            if nonce in ivs:
                res.spec_failures.append({"kms_call": i, "iv": nonce.hex(), "earlier_call": str(ivs[nonce]), "what": "IV repeated with the same key"})
            ivs[nonce] = f"kms{i}"
            seen += this_call
            try:
                if AESGCM(AES_KEY).decrypt(nonce, ct + tag, aad) != fw:
                    res.spec_failures.append({"kms_call": i, "what": "decryption with the returned IV yields a different plaintext"})
            except Exception:
                res.spec_failures.append({"kms_call": i, "iv": nonce.hex(), "what": "decryption with the returned IV fails: the IV returned is not the IV used"})
            if len(res.spec_failures) > 20:
                break
    finally:
        os.urandom = real
    res.count("kms_object_calls", n)


def history_same_directory(res, drv, n):
    """encrypt-and-generate run again and again into one output directory (an incremental build), identical and changing firmware:
    after every run the directory must hold one consistent set - the content decrypts with the IV the info publishes"""
    from suit_generator import cmd_encrypt
    from cryptography.hazmat.primitives.ciphers.aead import AESGCM
    ivs = {}
    with tempfile.TemporaryDirectory(prefix="verif_c14d_") as d:
        outd = os.path.join(d, "out")
        os.makedirs(outd)
        fwp = os.path.join(d, "fw.bin")
        for i in range(n):
            fw = bytes(range(64)) if i % 3 != 2 else bytes([i % 256]) * 64        # A, A, B, A, A, B ... (same length throughout)
            open(fwp, "wb").write(fw)
            try:
                cmd_encrypt.main(encrypt_subcommand="encrypt-and-generate", firmware=fwp, key_name="aes_key", key_id=0x7FFFFFE0, context=aes_keys_dir(),
                                 hash_alg="sha-256", kw_alg="direct", kms_script=str(common.REPO / "ncs" / "basic_kms.py"),
                                 encrypt_script=str(common.REPO / "ncs" / "encrypt_script.py"), output_dir=outd)
            except BaseException as e:  # noqa
                res.spec_failures.append({"rebuild": i, "what": "encrypt-and-generate into a used output directory failed: " + type(e).__name__})
                continue
            res.case(["same-directory", i], nontrivial=True)
            info = open(os.path.join(outd, "suit_encryption_info.bin"), "rb").read()
            content = open(os.path.join(outd, "encrypted_content.bin"), "rb").read()
            v = drv.call({"op": "spec.C06", "info": info.hex()})["ok"]
            iv = bytes.fromhex(v["iv"])
            try:
                ok = AESGCM(AES_KEY).decrypt(iv, content[16:] + content[:16], bytes.fromhex(v["aad"])) == fw
            except Exception:
                ok = False
            if not ok:
                res.spec_failures.append({"rebuild": i, "iv": iv.hex(), "what": "after a rebuild into the same directory the content does not decrypt with the published IV "
                                                                                  "(the IV published is not the one this ciphertext was produced with)"})
            if iv in ivs:
                res.spec_failures.append({"rebuild": i, "iv": iv.hex(), "earlier": ivs[iv], "what": "IV repeated across rebuilds"})
            ivs[iv] = i
    res.count("same_directory_rebuilds", n)


def history_cli(res, drv, n, known_ivs):
    """separate interpreter per invocation, identical firmware"""
    ivs = dict(known_ivs)
    with tempfile.TemporaryDirectory(prefix="verif_c14_") as d:
        fw = os.path.join(d, "fw.bin")
        open(fw, "wb").write(bytes(range(64)))
        procs = []
        for i in range(n):
            outd = os.path.join(d, f"o{i}")
            os.makedirs(outd)
            # the options as build scripts pass them: once, not at all (default), or given again later on the line (the last one counts)
            extra = [[], ["--hash-alg", "sha-512"], ["--hash-alg", "sha-256", "--hash-alg", "sha-512"], ["--hash-alg", "sha-512", "--hash-alg", "sha-256"],
                     ["--key-id", "5", "--hash-alg", "shake128", "--hash-alg", "sha-384"]][i % 5]
            procs.append((i, outd, subprocess.Popen(
                [common.PY, str(common.REPO / "suit_generator" / "cli.py"), "encrypt", "encrypt-and-generate", "--firmware", fw, "--key-name", "aes_key",
                 "--key-id", "0x7fffffe0", "--context", aes_keys_dir(), "--kms-script", str(common.REPO / "ncs" / "basic_kms.py"),
                 "--encrypt-script", str(common.REPO / "ncs" / "encrypt_script.py"), "--output-dir", outd] + extra,
                cwd=d, stdout=subprocess.DEVNULL, stderr=subprocess.DEVNULL, env={**os.environ, "PYTHONPATH": str(common.REPO)})))
            if len(procs) >= 16 or i == n - 1:
                for (k, od, p) in procs:
                    p.wait()
                    res.case(["cli", k])
                    inf = os.path.join(od, "suit_encryption_info.bin")
                    if p.returncode != 0 or not os.path.exists(inf):
                        res.spec_failures.append({"cli_invocation": k, "what": f"CLI encrypt-and-generate failed (exit {p.returncode})"})
                        continue
                    v = drv.call({"op": "spec.C06", "info": open(inf, "rb").read().hex()})
                    if "ok" not in v:
                        res.spec_failures.append({"cli_invocation": k, "what": "encryption info unreadable"})
                        continue
                    iv = bytes.fromhex(v["ok"]["iv"])
                    try:
                        from cryptography.hazmat.primitives.ciphers.aead import AESGCM
                        content = open(os.path.join(od, "encrypted_content.bin"), "rb").read()
                        okdec = AESGCM(AES_KEY).decrypt(iv, content[16:] + content[:16], bytes.fromhex(v["ok"]["aad"])) == bytes(range(64))
                    except Exception:  # noqa
                        okdec = False
                    if not okdec:
                        res.spec_failures.append({"cli_invocation": k, "iv": iv.hex(), "what": "the content written by this invocation does not decrypt with the IV it published "
                                                                                                "(the IV published is not the IV used)"})
                    if iv in ivs:
                        res.spec_failures.append({"cli_invocation": k, "iv": iv.hex(), "earlier": str(ivs[iv]), "what": "IV repeated across invocations with identical firmware"})
                    ivs[iv] = f"cli{k}"
                procs = []
    res.count("cli_invocations", n)


def run(tier: str, seed: int) -> int:
    common.ensure_repo_on_path()
    res = Result(PROP, tier, seed)
    st = stage_a(PROP, thorough=(tier == "thorough"))
    if not st.ok_driver:
        return finish(res, st, RULE, NOTE)
    aes_keys_dir()
    rng = rng_for(seed, PROP)
    drv = Driver()
    ivs = history_in_process(res, drv, 3000 if tier == "quick" else 100000, rng)
    history_kms_object(res, 600 if tier == "quick" else 20000, rng, ivs)
    history_same_directory(res, drv, 9 if tier == "quick" else 60)
    history_cli(res, drv, 16 if tier == "quick" else 100, ivs)
    some = list(ivs.items())[:3]
    res.sample({"first_calls": [{"call": c, "published_iv": iv.hex()} for iv, c in some]})
    drv.close()
    return finish(res, st, RULE, NOTE)


def replay(payload: dict) -> int:
    print(payload)
    print("history checks are statistical in the entropy source: re-run ./check C14 to reproduce")
    return 1
