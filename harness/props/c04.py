"""C04 - signing attaches a verifiable COSE_Sign1 and changes nothing else."""
from __future__ import annotations

import hashlib
import os
import tempfile

from .. import common, suitio, suitcases, signing
from ..common import Result, stage_a, finish, rng_for

PROP = "C04"
RULE = ("unsigned envelopes in the image of create (payloads, severed members, dependencies) x five algorithms x key identifiers over the 32-bit range and at "
        "CBOR width boundaries, signed through cmd_sign.main(single-level) with the repository's sign script and file KMS (recorded, not replaced); plus "
        "_create_cose_es_signature driven with chosen (r, s) having 0-3 leading zero bytes. Each case: model output (given the recorded signature) vs real output, "
        "Spec.checkSigned on the real output, and cryptographic verification of the signature over the Sig_structure the *spec* builds. "
        "distinct = distinct (envelope, algorithm, key id)")
NOTE = ["signature primitives are parameters of the model (hypothesis verify(sign m) m = true); the cryptography / pycryptodome libraries are the oracle",
        "cbor2.load / dump of the envelope are modelled as dec / enc (identity on the canonical envelopes create writes)"]

KEY_IDS = [0, 1, 23, 24, 255, 256, 65535, 65536, 0x7FFFFFE0, 0x7FFFFFFF, 0x80000000, 0xFFFFFFFF]


def strip_blocks(desc):
    a = desc["SUIT_Envelope_Tagged"]["suit-authentication-wrapper"]
    for k in list(a):
        if k.startswith("SuitAuthentication"):
            del a[k]
    return desc


def work(args):
    seed, index, alg, key_id = args
    drv = common.worker_driver()
    try:
        desc, files, feats = suitcases.make_case(seed, index)
    except suitcases.ChildFailed:
        return None
    desc = strip_blocks(desc)
    c = suitcases.run_impl_create(desc, files)
    if "ok" not in c:
        return None
    b = bytes.fromhex(c["ok"])
    key = "key_" + signing.MATCHING_KEY[alg]
    with tempfile.TemporaryDirectory(prefix="verif_c04_") as d:
        res, recs = signing.run_sign("single-level", b, d, key_name=key, key_id=key_id, alg=alg, action="error", in_place=(index % 5 == 2))
    out = {"hash": hashlib.sha1(b + alg.encode() + str(key_id).encode()).hexdigest(), "alg": alg, "key_id": key_id, "problems": [], "mismatch": None,
           "seed": seed, "index": index}
    model = drv.call({"op": "sign.single", "file": b.hex(), "alg": alg, "key_name": key, "key_id": key_id, "action": "error", "table": recs})
    impl = {"ok": res["ok"].hex()} if "ok" in res else {"err": res["err"]}
    if impl != model:
        out["mismatch"] = {"op": "sign.single", "impl": _short(impl), "model": _short(model)}
    if "ok" not in res:
        out["problems"].append("signing an unsigned envelope with a matching key failed: " + res["err"])
        return out
    sp = drv.call({"op": "spec.C04", "input": b.hex(), "output": res["ok"].hex(), "cose_alg": signing.COSE[alg], "key_id": key_id})
    if "ok" not in sp:
        out["problems"].append("output is not the input plus exactly one COSE_Sign1 block with the expected protected header")
        return out
    sig = bytes.fromhex(sp["ok"]["signature"])
    msg = bytes.fromhex(sp["ok"]["message"])
    if not signing.verify(key, alg, msg, sig):
        out["problems"].append("the signature does not verify under the public key over the Sig_structure of the output's protected header and digest")
    if alg.startswith("es-"):
        w = {"es-256": 32, "es-384": 48, "es-521": 66}[alg]
        if len(sig) != 2 * w:
            out["problems"].append(f"ECDSA signature is {len(sig)} bytes, expected fixed-width {2 * w}")
    out["siglen"] = len(sig)
    return out


def rs_cases(drv, res):
    """_create_cose_es_signature with a stub key object returning chosen (r, s)"""
    common.ensure_repo_on_path()
    import importlib.util
    from cryptography.hazmat.primitives.asymmetric.utils import encode_dss_signature

    spec = importlib.util.spec_from_file_location("verif_kms_direct", common.REPO / "ncs" / "basic_kms.py")
    mod = importlib.util.module_from_spec(spec)
    spec.loader.exec_module(mod)
    kms = mod.SuitKMS()

    class StubKey:
        def __init__(self, size, r, s):
            self.key_size, self.r, self.s = size, r, s

        def sign(self, data, alg):
            return encode_dss_signature(self.r, self.s)

    for size, w in ((256, 32), (384, 48), (521, 66)):
        top = 2 ** size - 1 if size != 521 else 2 ** 521 - 1
        vals = [1, 255, 256, 2 ** (8 * (w - 1)) - 1, 2 ** (8 * (w - 1)), 2 ** (8 * (w - 2)), 2 ** (8 * (w - 3)) + 5, top, top >> 1, top >> 8, top >> 9, top >> 17]
        for r in vals:
            for s in vals:
                try:
                    sig = kms._create_cose_es_signature(b"data", StubKey(size, r, s))
                    impl = {"ok": sig.hex()}
                except BaseException as e:  # noqa
                    impl = {"err": type(e).__name__}
                model = drv.call({"op": "sign.rs", "w": w, "r": r, "s": s})
                res.case(["rs", size, r, s])
                res.count("rs:" + ("ok" if "ok" in impl else impl["err"]))
                if impl != model:
                    res.mismatches.append({"op": "sign.rs", "size": size, "r": r, "s": s, "impl": impl, "model": model})
                if "ok" in impl:
                    sig = bytes.fromhex(impl["ok"])
                    if len(sig) != 2 * w or int.from_bytes(sig[:w], "big") != r or int.from_bytes(sig[w:], "big") != s:
                        res.spec_failures.append({"size": size, "r": r, "s": s, "signature": impl["ok"],
                                                  "what": "ECDSA signature is not fixed-width r||s of the chosen values"})


def cli_cases(res, drv, tier):
    """sign single-level through the real command line: the key identifier written in decimal and in hexadecimal"""
    import tempfile, os
    from concurrent.futures import ThreadPoolExecutor
    desc, files, _ = suitcases.make_case(777, 3, depth=0)
    b = bytes.fromhex(suitcases.run_impl_create(strip_blocks(desc), files)["ok"])
    nums = common.CLI_NUMBERS if tier == "thorough" else common.CLI_NUMBERS[:9]
    jobs = [(n, sp) for n in nums for sp in (common.spellings(n) if tier == "thorough" else common.spellings(n)[:2])]
    with tempfile.TemporaryDirectory(prefix="verif_c04cli_") as d:
        inp = os.path.join(d, "in.suit")
        open(inp, "wb").write(b)

        def one(job):
            n, sp = job
            k = jobs.index(job)
            out = os.path.join(d, f"out{k}.suit")
            common.make_stale(out)
            rc, log = common.run_cli(["sign", "single-level", "--input-envelope", inp, "--output-envelope", out, "--key-name", "key_ed25519", "--key-id", sp,
                                      "--alg", "eddsa", "--context", signing.keys_dir(), "--kms-script", str(common.REPO / "ncs" / "basic_kms.py"),
                                      "--sign-script", str(common.REPO / "ncs" / "sign_script.py")], d)
            return rc, log, (open(out, "rb").read() if common.was_written(out) else None)
        with ThreadPoolExecutor(max_workers=12) as ex:
            outs = list(ex.map(one, jobs))
    for (n, sp), (rc, log, ob) in zip(jobs, outs):
        res.case(["cli-sign", n, sp], nontrivial=True)
        res.count("cli:sign")
        if rc != 0 or ob is None:
            res.spec_failures.append({"cli": "sign single-level", "key_id_argument": sp, "what": f"the command line refused --key-id {sp} (exit {rc})", "log": log[-300:]})
            continue
        sp_ = drv.call({"op": "spec.C04", "input": b.hex(), "output": ob.hex(), "cose_alg": signing.COSE["eddsa"], "key_id": n})
        if "ok" not in sp_ or not sp_["ok"]:
            res.spec_failures.append({"cli": "sign single-level", "key_id_argument": sp, "denotes": n, "output": ob.hex()[:400],
                                      "what": f"--key-id {sp} did not produce <input + one block naming key {n}>"})
            continue
        v = sp_["ok"]
        if not signing.verify("key_ed25519", "eddsa", bytes.fromhex(v["message"]), bytes.fromhex(v["signature"])):
            res.spec_failures.append({"cli": "sign single-level", "key_id_argument": sp, "what": "signature written through the command line does not verify"})


def run(tier: str, seed: int) -> int:
    common.ensure_repo_on_path()
    res = Result(PROP, tier, seed)
    st = stage_a(PROP, thorough=(tier == "thorough"))
    if not st.ok_driver:
        return finish(res, st, RULE, NOTE)
    signing.keys_dir()
    rng = rng_for(seed, PROP)
    n = 260 if tier == "quick" else 6000
    jobs = []
    for i in range(n):
        alg = signing.ALGS[i % 5]
        kid = KEY_IDS[(i // 5) % len(KEY_IDS)] if i % 3 else rng.randrange(0, 2 ** 32)
        jobs.append((seed, i // 2, alg, kid))
    outs = common.pmap(work, jobs, chunk=4)
    for job, o in zip(jobs, outs):
        if o is None:
            res.count("skipped")
            continue
        res.evaluations += 1
        res.nontrivial.add(o["hash"])
        res.count("alg:" + o["alg"])
        if "siglen" in o:
            res.count(f"siglen:{o['alg']}:{o['siglen']}")
        if o["mismatch"]:
            res.mismatches.append({**o["mismatch"], "seed": job[0], "index": job[1], "alg": job[2], "key_id": job[3]})
        for p in o["problems"]:
            res.spec_failures.append({"seed": job[0], "index": job[1], "alg": job[2], "key_id": job[3], "what": p})
        if len(res.samples) < 5 and job[1] % 23 == 0:
            res.sample({"seed": job[0], "index": job[1], "alg": job[2], "key_id": job[3], "signature_bytes": o.get("siglen")})
    drv = common.Driver()
    rs_cases(drv, res)
    cli_cases(res, drv, tier)
    from .. import reuse
    desc0, files0, _ = suitcases.make_case(777, 3, depth=0)
    env0 = bytes.fromhex(suitcases.run_impl_create(strip_blocks(desc0), files0)["ok"])
    reuse.signer_reuse(res, env0, PROP)
    reuse.signature_value_sweep(res, env0, PROP, 2400 if tier == "quick" else 40000)
    # the same statement for every envelope of a hierarchy signed in one go (sign recursive), three and four levels deep: each level gets exactly
    # its block, verifiable, and nothing else changes
    from . import c09
    deep_jobs = [(seed, 880000 + i, "valid", 3 + i % 2) for i in range(12 if tier == "quick" else 120)]
    # ... and with one KMS script (and its keys) per signing party: each level is signed by the KMS its own configuration names (C04-o)
    deep_jobs += [(seed, 881000 + i, "parties", 2 + i % 2) for i in range(10 if tier == "quick" else 80)]
    deep = common.pmap(c09.work_recursive, deep_jobs, chunk=2)
    for i, o in enumerate(deep):
        if o is None:
            continue
        res.case(["recursive-depth", i, o.get("nodes")], nontrivial=True)
        res.count("recursive-depth:config-nodes:" + str(min(o.get("nodes", 0), 6)))
        for p_ in o["problems"]:
            res.spec_failures.append({"job": ["rec"] + list(deep_jobs[i]), "what": "sign recursive: " + p_})
    drv.close()
    return finish(res, st, RULE, NOTE)


def _short(x):
    import json
    s = json.dumps(x)
    return x if len(s) < 2500 else s[:2500] + "..."


def replay(payload: dict) -> int:
    common.ensure_repo_on_path()
    src = payload if "index" in payload else payload.get("first_mismatch", {})
    if "index" not in src:
        print(payload)
        return 1
    signing.keys_dir()
    o = work((src["seed"], src["index"], src["alg"], src["key_id"]))
    print(_short(o))
    bad = bool(o.get("mismatch")) or bool(o.get("problems"))
    if bad:
        print(f"VIOLATION property={PROP} replay=(given)")
    return 1 if bad else 0
