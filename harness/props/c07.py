"""C07 - boot storage images place each installed envelope intact in its role's slot."""
from __future__ import annotations

import hashlib
import json
import os
import random
import tempfile
import uuid

from .. import common, suitio, suitcases, signing, cbortree as ct
from ..common import Result, stage_a, finish
from .c04 import strip_blocks

PROP = "C07"
RULE = ("sets of 1-11 envelopes (generated manifests, signed / unsigned, with severed members and payloads, the component identifier anywhere in the manifest) over "
        "random role subsets, both SoC layouts, random and boundary base addresses, default and build-configuration role assignments; failing sets: unknown class, "
        "duplicate role, missing component id, envelope larger than its slot. Through ImageCreator.create_files_for_boot with real files. Each case: model images vs "
        "real hex files (read with the verifier's Intel-HEX reader); every slot decoded and checked directly (slot map, class UUID at the recorded offset, stripped "
        "envelope with manifest and wrapper byte-identical, 0xFF padding, nothing else in the file). distinct = distinct (envelope set, options)")
NOTE = ["the stored envelope is create(sever(parse(input))): its byte-identity with the input's manifest and wrapper rests on C03 (F4 region excluded by the generator)",
        "intelhex writer not modelled: files are read back with IHex.read"]

CONFIGURABLE = {"APP_ROOT": "ROOT", "APP_RECOVERY": "APP_RECOVERY", "APP_LOCAL_1": "APP_LOCAL_1", "APP_LOCAL_2": "APP_LOCAL_2", "APP_LOCAL_3": "APP_LOCAL_3",
                "RAD_RECOVERY": "RAD_RECOVERY", "RAD_LOCAL_1": "RAD_LOCAL_1", "RAD_LOCAL_2": "RAD_LOCAL_2"}


def class_uuid(vendor, cls):
    return uuid.uuid5(uuid.uuid5(uuid.NAMESPACE_DNS, vendor), cls).bytes


def envelope_for(seed, index, vendor, cls, rng, d, sign=False, with_cid=True, big=False):
    """a created envelope whose manifest component id is [INSTLD_MFST, class uuid]"""
    k = 0
    while True:
        try:
            desc, files, _ = suitcases.make_case(seed, index * 100 + k, depth=0)
            break
        except suitcases.ChildFailed:
            k += 1
    desc = strip_blocks(desc)
    m = desc["SUIT_Envelope_Tagged"]["suit-manifest"]
    m.pop("suit-manifest-component-id", None)
    if with_cid:
        cid = ["INSTLD_MFST", rng.choice([{"RFC4122_UUID": {"namespace": vendor, "name": cls}}, {"raw": class_uuid(vendor, cls).hex()}])]
        items = list(m.items())
        items.insert(rng.randrange(0, len(items) + 1), ("suit-manifest-component-id", cid))
        m = dict(items)
        desc["SUIT_Envelope_Tagged"]["suit-manifest"] = m
    if with_cid and rng.random() < 0.4:
        # a root-like manifest: installed-manifest components of *other* classes (its dependencies) are listed in suit-components, which
        # may well come before the manifest's own component identifier
        others = [{"RFC4122_UUID": {"namespace": "nordicsemi.com", "name": n}} for n in ("nRF54H20_sample_app", "nRF54H20_sample_rad", "nRF54H20_sample_root")
                  if (("nordicsemi.com", n) != (vendor, cls))]
        common_ = dict(m.get("suit-common") or {})
        comps = list(common_.get("suit-components") or [])
        common_["suit-components"] = [["INSTLD_MFST", o] for o in others[: rng.randrange(1, 3)]] + comps
        m["suit-common"] = common_
        # ... and suit-common is listed before the component identifier
        m = {"suit-common": m.pop("suit-common"), **m} if rng.random() < 0.7 else m
        desc["SUIT_Envelope_Tagged"]["suit-manifest"] = m
    if big:
        m["suit-reference-uri"] = "u" * 6000
    if rng.random() < 0.3:
        blk = {"CoseSign1Tagged": {"protected": {"suit-cose-algorithm-id": "cose-alg-es-256"}, "unprotected": {}, "payload": None, "signature": "ab" * 64}}
        desc["SUIT_Envelope_Tagged"] = {"suit-delegation": [[blk]], **{k: v for k, v in desc["SUIT_Envelope_Tagged"].items() if k != "suit-delegation"}}
    c = suitcases.run_impl_create(desc, files)
    if "ok" not in c:
        return None
    b = bytes.fromhex(c["ok"])
    if sign:
        r, _ = signing.run_sign("single-level", b, d, key_name="key_ed25519", key_id=rng.randrange(0, 2 ** 31), alg="eddsa", action="error")
        if "ok" in r:
            b = r["ok"]
    return b


def impl_boot(files, base, kconfig, soc, d):
    from suit_generator.cmd_image import ImageCreator
    outd = os.path.join(d, "storage")
    os.makedirs(outd, exist_ok=True)
    for f in os.listdir(outd):
        os.unlink(os.path.join(outd, f))
    paths = []
    for i, b in enumerate(files):
        p = os.path.join(d, f"env{i}.suit")
        open(p, "wb").write(b)
        paths.append(p)
    cfgp = None
    if kconfig is not None:
        cfgp = os.path.join(d, ".config")
        # the same configuration as text in the forms a build writes it: LF or CRLF line ends, with or without a final line break
        import zlib
        form = zlib.crc32(kconfig.encode()) % 4
        text = kconfig if form != 2 else kconfig.rstrip("\n")
        with open(cfgp, "w", newline=("\r\n" if form == 1 else "\n")) as fh:
            fh.write(text)
    old = os.getcwd()
    os.chdir(d)
    before = {}
    try:
        if (len(files) + base // 16 + len(soc)) % 3 == 0:
            # the output directory still holds the files of an earlier run of the same envelopes for another storage address
            # (same bytes, other addresses): this run must not take them for up to date
            try:
                ImageCreator.create_files_for_boot(paths, outd, (base + 0x1000) % (1 << 31), cfgp, soc)
            except BaseException:  # noqa
                pass
            before = {f: open(os.path.join(outd, f)).read() for f in os.listdir(outd)}
        ImageCreator.create_files_for_boot(paths, outd, base, cfgp, soc)
        out = {}
        for f in sorted(os.listdir(outd)):
            out[f] = open(os.path.join(outd, f)).read()
        return {"ok": out}
    except BaseException as e:  # noqa
        return {"err": type(e).__name__, "wrote": sorted(f for f in os.listdir(outd) if before.get(f) != open(os.path.join(outd, f)).read())}
    finally:
        os.chdir(old)


def check_slots(drv, images, layout, base, inputs, roles_expected, problems):
    """images: {domain: [[addr, hex]...]}; inputs: list of (bytes, vendor, cls); roles_expected: role per input"""
    slots = {s["role"]: s for s in layout["slots"]}
    expected_domains = {}
    for (b, vendor, cls), role in zip(inputs, roles_expected):
        s = slots[role]
        expected_domains.setdefault(s["domain"], []).append((base + s["offset"], s["size"], b, vendor, cls, role))
    if set(images) != set(expected_domains):
        problems.append(f"hex files for domains {sorted(images)} but envelopes belong to {sorted(expected_domains)}")
        return
    for dom, segs in images.items():
        mem = {}
        for a, hx in segs:
            data = bytes.fromhex(hx)
            for i, x in enumerate(data):
                mem[a + i] = x
        covered = set()
        for (addr, size, b, vendor, cls, role) in expected_domains[dom]:
            region = bytes(mem.get(addr + i, -1) if mem.get(addr + i, -1) >= 0 else 0 for i in range(size))
            if any((addr + i) not in mem for i in range(size)):
                problems.append(f"{role}: slot region not fully written")
                continue
            covered.update(range(addr, addr + size))
            try:
                item, end = ct.decode_at(region, 0)
            except ct.Malformed:
                problems.append(f"{role}: slot does not start with a CBOR item")
                continue
            if any(x != 0xFF for x in region[end:]):
                problems.append(f"{role}: slot is not padded with 0xFF")
            if item.major != 5 or [(k.major, k.arg) for k, _ in item.children] != [(0, 0), (0, 1), (0, 2)]:
                problems.append(f"{role}: slot is not the map {{0, 1, 2}}")
                continue
            ver, off, env = (v for _, v in item.children)
            if (ver.major, ver.arg) != (0, 1):
                problems.append(f"{role}: slot version is not 1")
            if env.major != 2:
                problems.append(f"{role}: slot element 2 is not a byte string")
                continue
            stored = env.data
            if stored[off.arg:off.arg + 16] != class_uuid(vendor, cls):
                problems.append(f"{role}: the 16 bytes at the recorded offset are not the manifest's class UUID")
            try:
                si = {k.arg: ct.encode(v) for k, v in ct.decode(stored).children[0].children if k.major == 0}
                ss = [k for k, v in ct.decode(stored).children[0].children if k.major != 0]
                ii = {k.arg: ct.encode(v) for k, v in ct.decode(b).children[0].children if k.major == 0}
            except Exception:
                problems.append(f"{role}: stored envelope unreadable")
                continue
            if ss or any(k in si for k in (15, 16, 18, 20, 23)):
                problems.append(f"{role}: stored envelope still has severable members / integrated payloads")
            if si.get(2) != ii.get(2) or si.get(3) != ii.get(3):
                problems.append(f"{role}: manifest or authentication wrapper of the stored envelope differs from the input")
            if set(si) - {1, 2, 3, 17}:
                problems.append(f"{role}: unexpected members {sorted(set(si))}")
            kept = {k: v for k, v in ii.items() if k not in (15, 16, 18, 20, 23)}
            if si != kept:
                problems.append(f"{role}: the stored envelope is not the input without its severable members and payloads: members "
                                f"{sorted(set(kept) - set(si))} missing, {sorted(k for k in kept if k in si and si[k] != kept[k])} changed")
        extra = set(mem) - covered
        if extra:
            problems.append(f"{dom}: data outside the slots of this domain's envelopes ({len(extra)} bytes)")


# the storage layout the devices' firmware is built against (role: offset, slot size, domain), pinned here like the registry of C08: the tables of the
# tool are extracted on every run and must be these
PINNED_LAYOUT = {
    "nrf54h20": [("SEC_TOP", 768, 1280, "SECURE"), ("SEC_SDFW", 2048, 1024, "SECURE"), ("SEC_SYSCTRL", 3072, 1024, "SECURE"), ("RAD_RECOVERY", 5120, 1024, "RADIO"),
                 ("RAD_LOCAL_1", 6144, 1024, "RADIO"), ("RAD_LOCAL_2", 7168, 1024, "RADIO"), ("APP_ROOT", 9216, 2048, "APPLICATION"), ("APP_RECOVERY", 11264, 2048, "APPLICATION"),
                 ("APP_LOCAL_1", 13312, 1024, "APPLICATION"), ("APP_LOCAL_2", 14336, 1024, "APPLICATION"), ("APP_LOCAL_3", 15360, 1024, "APPLICATION")],
    "nrf9280": [("SEC_TOP", 4096, 1536, "SECURE"), ("SEC_SDFW", 2048, 1024, "SECURE"), ("SEC_SYSCTRL", 3072, 1024, "SECURE"), ("RAD_RECOVERY", 9216, 1024, "RADIO"),
                ("RAD_LOCAL_1", 10240, 1024, "RADIO"), ("RAD_LOCAL_2", 11264, 1024, "RADIO"), ("APP_ROOT", 13312, 2048, "APPLICATION"), ("APP_RECOVERY", 15360, 2048, "APPLICATION"),
                ("APP_LOCAL_1", 17408, 1024, "APPLICATION"), ("APP_LOCAL_2", 18432, 1024, "APPLICATION"), ("APP_LOCAL_3", 19456, 1024, "APPLICATION")],
}


def pinned(layout, soc):
    """the layout with the pinned slots; (layout', roles whose extracted slot differs from the pinned one)"""
    want = [{"role": r, "offset": o, "size": z, "domain": dm} for r, o, z, dm in PINNED_LAYOUT[soc]]
    have = {s_["role"]: s_ for s_ in layout["slots"]}
    changed = [w["role"] for w in want if have.get(w["role"]) != w] + [r for r in have if r not in {w["role"] for w in want}]
    return {**layout, "slots": want}, changed


def fit_envelope(drv, vendor, cls, soc, kconfig, role, size, delta, index):
    """a plain envelope of the given class whose slot structure (the CBOR map stored in the slot) is exactly `size + delta` bytes long; the length
    is read off the model's image (the structure is the first CBOR item of the slot, the rest is padding)"""
    def make(pad):
        desc = {"SUIT_Envelope_Tagged": {"suit-authentication-wrapper": {"SuitDigest": {"suit-digest-algorithm-id": "cose-alg-sha-256"}},
                                         "suit-manifest": {"suit-manifest-version": 1, "suit-manifest-sequence-number": index % 100,
                                                           "suit-manifest-component-id": ["INSTLD_MFST", {"RFC4122_UUID": {"namespace": vendor, "name": cls}}],
                                                           "suit-reference-uri": "u" * pad}}}
        c_ = suitcases.run_impl_create(desc, {})
        return bytes.fromhex(c_["ok"]) if "ok" in c_ else None
    pad = size - 300
    for _ in range(8):
        b = make(pad)
        if b is None:
            return None
        req = {"op": "storage.boot", "files": [b.hex()], "base": 0, "soc": soc, "fs": {}}
        if kconfig is not None:
            req["kconfig"] = kconfig
        m = drv.call(req)
        if "ok" not in m:
            return None
        data = next((bytes.fromhex(h) for img in m["ok"].values() for _, h in img), None)
        if data is None:
            return None
        _, used = ct.decode_at(data, 0)
        if used == size:
            return make(pad + delta)
        pad += size - used
    return None


def work(args):
    seed, index, mode = args
    rng = random.Random(f"{seed}:{index}:c07")
    drv = common.worker_driver()
    soc = rng.choice(["nrf54h20", "nrf9280"])
    layout = drv.call({"op": "storage.layout", "soc": soc})["ok"]
    layout, changed_roles = pinned(layout, soc)
    defaults = {role: (v, c) for v, c, role in layout["assignments"]}
    base = rng.choice([0x0E1ED000, 0, 0xF000, 0x10000 - 1024, 0x00FF0000, 0xFFFF0000 - 65536, rng.randrange(0, 2 ** 31) & ~0xF])
    roles = [s["role"] for s in layout["slots"]]
    k = rng.randint(1, len(roles)) if rng.random() < 0.4 else rng.randint(1, 4)
    chosen = rng.sample(roles, k)
    if changed_roles:
        # the tool's table differs from the pinned layout at these roles: they are what this case is about
        chosen = [r for r in changed_roles if r in roles][:2] + [r for r in chosen if r not in changed_roles]
    kconfig_lines = []
    names = {}
    use_kconfig = rng.random() < 0.5
    for role in chosen:
        if use_kconfig and role in CONFIGURABLE and rng.random() < 0.7:
            # names are hashed as written: capitals, mixed case, a trailing dot are different vendors than their lower-case spelling (C07-q)
            v, c = rng.choice(["acme.example", "nordicsemi.com", "vendor ü", "ACME.Example", "NordicSemi.com", "Acme-IoT.example.", "ÜBER.example"]), f"class_{role.lower()}_{rng.randrange(100)}"
            kconfig_lines.append(f'SB_CONFIG_SUIT_MPI_{CONFIGURABLE[role]}_VENDOR_NAME="{v}"')
            kconfig_lines.append(f'SB_CONFIG_SUIT_MPI_{CONFIGURABLE[role]}_CLASS_NAME="{c}"')
            names[role] = (v, c)
        elif role in defaults:
            names[role] = defaults[role]
    if use_kconfig and rng.random() < 0.4:
        # the build configuration gives a *default* vendor/class pair to another role (roles exchanged, or a default class moved):
        # the configuration must win over the built-in table
        conf_roles = [r for r in roles if r in CONFIGURABLE and not any(CONFIGURABLE[r] + "_" in ln for ln in kconfig_lines)]
        donors = [r for r in defaults]
        if conf_roles and donors:
            target = rng.choice(conf_roles)
            donor = rng.choice([r for r in donors if r != target] or donors)
            v, c = defaults[donor]
            kconfig_lines.append(f'SB_CONFIG_SUIT_MPI_{CONFIGURABLE[target]}_VENDOR_NAME="{v}"')
            kconfig_lines.append(f'SB_CONFIG_SUIT_MPI_{CONFIGURABLE[target]}_CLASS_NAME="{c}"')
            names[target] = (v, c)
            if target not in chosen:
                chosen.append(target)
            if donor != target and names.get(donor) == (v, c):
                # the donor role no longer owns that class; exchange when possible, else leave the donor role empty
                if donor in CONFIGURABLE and target in defaults and rng.random() < 0.6 and not any(CONFIGURABLE[donor] + "_" in ln for ln in kconfig_lines):
                    v2, c2 = defaults[target]
                    kconfig_lines.append(f'SB_CONFIG_SUIT_MPI_{CONFIGURABLE[donor]}_VENDOR_NAME="{v2}"')
                    kconfig_lines.append(f'SB_CONFIG_SUIT_MPI_{CONFIGURABLE[donor]}_CLASS_NAME="{c2}"')
                    names[donor] = (v2, c2)
                else:
                    names.pop(donor, None)
    chosen = [r for r in chosen if r in names]
    if not chosen:
        return None
    kconfig = None
    if use_kconfig:
        extra = ["# generated", "CONFIG_X=y", "SB_CONFIG_SUIT_MPI_GENERATE=y", "CONFIG_NUM=0x10", "CONFIG_DEC=12", 'CONFIG_S="a=b"']
        lines = kconfig_lines + extra
        rng.shuffle(lines)
        kconfig = "\n".join(lines) + "\n"
    inputs = []
    with tempfile.TemporaryDirectory(prefix="verif_c07_") as d:
        signing.keys_dir()
        for i, role in enumerate(chosen):
            v, c = names[role]
            b = envelope_for(seed, index * 20 + i, v, c, rng, d, sign=rng.random() < 0.4)
            if b is None:
                return None
            inputs.append((b, v, c))
        expect_fail = None
        if mode == "unknown-class":
            b = envelope_for(seed, index * 20 + 15, "nobody.example", "no_such_class", rng, d)
            if b is None:
                return None
            inputs.insert(rng.randrange(0, len(inputs) + 1), (b, "nobody.example", "no_such_class"))
            expect_fail = "unknown class"
        elif mode == "duplicate-role":
            v, c = names[chosen[0]]
            b = envelope_for(seed, index * 20 + 16, v, c, rng, d)
            if b is None:
                return None
            inputs.append((b, v, c))
            expect_fail = "duplicate role"
        elif mode == "two-classes-one-role":
            # the build configuration gives a role that has a default class to a custom class as well: both classes resolve to that role
            cand = [r for r in chosen if r in CONFIGURABLE and r in defaults and names[r] == defaults[r]]
            if not cand:
                return None
            role = cand[0]
            v2, c2 = "custom.example", f"custom_{role.lower()}"
            extra_lines = [f'SB_CONFIG_SUIT_MPI_{CONFIGURABLE[role]}_VENDOR_NAME="{v2}"', f'SB_CONFIG_SUIT_MPI_{CONFIGURABLE[role]}_CLASS_NAME="{c2}"']
            kconfig = (kconfig or "") + "\n".join(extra_lines) + "\n"
            b = envelope_for(seed, index * 20 + 14, v2, c2, rng, d)
            if b is None:
                return None
            inputs.append((b, v2, c2))
            expect_fail = "two envelopes of different classes for one role"
        elif mode == "no-component-id":
            v, c = names[chosen[0]]
            b = envelope_for(seed, index * 20 + 17, v, c, rng, d, with_cid=False)
            if b is None:
                return None
            inputs[0] = (b, v, c)
            expect_fail = "missing manifest component id"
        elif mode == "exact-fit":
            # the slot structure of the first envelope fills its slot exactly (valid), leaves one byte (valid) or exceeds it by one byte (refused)
            role0 = chosen[0]
            v, c = names[role0]
            size = next(s_["size"] for s_ in layout["slots"] if s_["role"] == role0)
            delta = [0, 0, -1, 1][index % 4]
            b = fit_envelope(drv, v, c, soc, kconfig, role0, size, delta, index)
            if b is None:
                return None
            inputs[0] = (b, v, c)
            if delta > 0:
                expect_fail = "envelope one byte larger than its slot"
        elif mode == "oversize":
            v, c = names[chosen[0]]
            b = envelope_for(seed, index * 20 + 18, v, c, rng, d, big=True)
            if b is None:
                return None
            inputs[0] = (b, v, c)
            expect_fail = "envelope larger than its slot"
        files = [b for b, _, _ in inputs]
        impl = impl_boot(files, base, kconfig, soc, d)
    req = {"op": "storage.boot", "files": [b.hex() for b in files], "base": base, "soc": soc, "fs": {}}
    if kconfig is not None:
        req["kconfig"] = kconfig
    model = drv.call(req)
    out = {"hash": hashlib.sha1(b"".join(files) + f"{base}{soc}{kconfig}".encode()).hexdigest(), "mode": mode, "problems": [], "mismatch": None,
           "n": len(files), "soc": soc, "kconfig": kconfig is not None, "impl": "ok" if "ok" in impl else impl["err"]}
    images = None
    if "ok" in impl:
        images = {}
        for fname, text in impl["ok"].items():
            dom = fname.replace("suit_installed_envelopes_", "").replace("_merged.hex", "").upper()
            r = drv.call({"op": "ihex.read", "text": text})
            if "ok" not in r:
                out["problems"].append(f"{fname} is not a well-formed Intel-HEX file")
                images = None
                break
            images[dom] = r["ok"]
            # validation of the writer model behind C07_file_reads_back (counted in the evidence; the property is judged on the image)
            wt = drv.call({"op": "ihex.write_image", "image": r["ok"]})
            out.setdefault("writer", []).append(wt.get("ok") == text)
    if images is not None:
        if "ok" not in model or model["ok"] != images:
            out["mismatch"] = {"op": "storage.boot", "impl": _short(images), "model": _short(model)}
    elif "ok" in impl or "ok" in model:
        if not out["problems"]:
            out["mismatch"] = {"op": "storage.boot", "impl": _short(impl), "model": _short(model)}
    if expect_fail:
        if "ok" in impl:
            out["problems"].append(f"{expect_fail}: accepted")
        elif impl.get("wrote"):
            out["problems"].append(f"{expect_fail}: rejected but files were written: {impl['wrote']}")
    elif "ok" not in impl:
        if model.get("err") == "GeneratorError:fit" and impl["err"] == "GeneratorError":
            out["mode"] = "valid-but-too-large-for-slot"
            if impl.get("wrote"):
                out["problems"].append("oversize envelope rejected but files were written")
        else:
            out["problems"].append("a valid set of envelopes was rejected: " + impl["err"])
    elif images is not None:
        check_slots(drv, images, layout, base, inputs, chosen, out["problems"])
    return out


def cli_cases(res, tier, seed):
    """image boot through the real command line: --storage-address in decimal and hexadecimal, the default address, both SoCs"""
    import random
    from concurrent.futures import ThreadPoolExecutor
    rng = random.Random(f"{seed}:c07cli")
    drv = common.Driver()
    cases = []
    for soc in ("nrf54h20",):        # the command line has no SoC option: it generates for the nRF54H20 layout
        for n in ([0x0E1ED000, 236900352, 65536, 4096] if tier == "quick" else [0x0E1ED000, 236900352, 65536, 4096, 0, 10000000, 0x00FF0000]):
            for sp in common.spellings(n)[:2]:
                cases.append((soc, n, sp))
        cases.append((soc, None, None))
    with tempfile.TemporaryDirectory(prefix="verif_c07cli_") as d:
        signing.keys_dir()
        envs = {}
        for soc in ("nrf54h20",):
            layout = drv.call({"op": "storage.layout", "soc": soc})["ok"]
            v, c, role = layout["assignments"][0]
            b = None
            k = 0
            while b is None:
                b = envelope_for(seed, 990000 + k, v, c, rng, d)
                k += 1
            p = os.path.join(d, f"{soc}.suit")
            open(p, "wb").write(b)
            envs[soc] = (p, b)

        def one(k):
            soc, n, sp = cases[k]
            outd = os.path.join(d, f"o{k}")
            os.makedirs(outd)
            args = ["image", "boot", "--input-file", envs[soc][0], "--storage-output-directory", outd] + (["--storage-address", sp] if sp is not None else [])
            rc, log = common.run_cli(args, d)
            return rc, log, {f: open(os.path.join(outd, f)).read() for f in os.listdir(outd)}
        with ThreadPoolExecutor(max_workers=12) as ex:
            outs = list(ex.map(one, range(len(cases))))
        # sets that must be rejected, through the command line: the exit status says so and no file is written
        unknown = None
        k = 0
        while unknown is None:
            unknown = envelope_for(seed, 995000 + k, "nobody.example", "no_such_class", rng, d)
            k += 1
        up = os.path.join(d, "unknown.suit")
        open(up, "wb").write(unknown)
        for what, inputs in (("the same class twice", [envs["nrf54h20"][0], envs["nrf54h20"][0]]), ("a class no role is assigned to", [up]),
                             ("a known and an unknown class", [envs["nrf54h20"][0], up])):
            outd = os.path.join(d, "rej_" + str(len(what)))
            os.makedirs(outd, exist_ok=True)
            args = ["image", "boot"] + [a for f in inputs for a in ("--input-file", f)] + ["--storage-output-directory", outd]
            rc, log = common.run_cli(args, d)
            res.case(["cli-boot-reject", what], nontrivial=True)
            res.count("cli:boot-reject")
            left = sorted(os.listdir(outd))
            if rc == 0:
                res.spec_failures.append({"cli": "image boot", "set": what, "what": f"a set that must be rejected ({what}): the command line reported success (exit 0)", "files": left})
            elif left:
                res.spec_failures.append({"cli": "image boot", "set": what, "what": f"a rejected set ({what}) left files in the output directory", "files": left})
        # the NCS build script (ncs/build.py storage): the entry point of a real build, and the only command line with a --soc option
        lay9280 = drv.call({"op": "storage.layout", "soc": "nrf9280"})["ok"]
        v9, c9, _ = lay9280["assignments"][0]
        e9 = None
        k = 0
        while e9 is None:
            e9 = envelope_for(seed, 996000 + k, v9, c9, rng, d)
            k += 1
        p9 = os.path.join(d, "nrf9280.suit")
        open(p9, "wb").write(e9)
        dupcfg = os.path.join(d, "dup.config")
        open(dupcfg, "w").write('SB_CONFIG_SUIT_MPI_APP_LOCAL_1_VENDOR_NAME="dup.example"\nSB_CONFIG_SUIT_MPI_APP_LOCAL_1_CLASS_NAME="same"\n'
                                'SB_CONFIG_SUIT_MPI_RAD_LOCAL_1_VENDOR_NAME="dup.example"\nSB_CONFIG_SUIT_MPI_RAD_LOCAL_1_CLASS_NAME="same"\n')
        script_cases = [("nrf54h20", envs["nrf54h20"], None, 0x0E1ED000, True), ("nrf9280", (p9, e9), None, 0x0E1ED000, True), ("nrf9280", (p9, e9), None, 0x00FF0000, True),
                        ("nrf54h20", envs["nrf54h20"], dupcfg, 0x0E1ED000, False), ("nrf54h20", (up, unknown), None, 0x0E1ED000, False)]
        for k, (soc, (path, data), cfgfile, addr, ok) in enumerate(script_cases):
            outd = os.path.join(d, f"script{k}")
            os.makedirs(outd)
            args = ["storage", "--input-envelope", path, "--storage-output-directory", outd, "--storage-address", hex(addr), "--soc", soc]
            if cfgfile:
                args += ["--config-file", cfgfile]
            rc, log = common.run_ncs_build(args, d)
            res.case(["ncs-build-storage", soc, addr, bool(cfgfile), ok], nontrivial=True)
            res.count("cli:ncs-build-storage")
            left = {f: open(os.path.join(outd, f)).read() for f in os.listdir(outd)}
            if not ok:
                if rc == 0:
                    res.spec_failures.append({"cli": "ncs/build.py storage", "soc": soc, "what": "a set / configuration that must be rejected: the build script reported success (exit 0)",
                                              "files": sorted(left), "log": log[-300:]})
                elif left:
                    res.spec_failures.append({"cli": "ncs/build.py storage", "soc": soc, "what": "a rejected set left files in the output directory", "files": sorted(left)})
                continue
            req = {"op": "storage.boot", "files": [data.hex()], "base": addr, "soc": soc, "fs": {}}
            model = drv.call(req)
            if rc != 0 or not left:
                if "ok" in model:
                    res.spec_failures.append({"cli": "ncs/build.py storage", "soc": soc, "what": f"the build script failed on a valid envelope (exit {rc})", "log": log[-300:]})
                continue
            images = {}
            for fname, text in left.items():
                dom = fname.replace("suit_installed_envelopes_", "").replace("_merged.hex", "").upper()
                images[dom] = drv.call({"op": "ihex.read", "text": text}).get("ok")
            if "ok" not in model or model["ok"] != images:
                res.spec_failures.append({"cli": "ncs/build.py storage", "soc": soc, "storage_address": addr,
                                          "what": f"the images written by the build script for --soc {soc} are not those of that SoC's layout at {addr:#x}",
                                          "segments": {k_: [a for a, _ in (v or [])] for k_, v in images.items()}})
    for (soc, n, sp), (rc, log, files) in zip(cases, outs):
        res.case(["cli-boot", soc, n, sp], nontrivial=True)
        res.count("cli:boot")
        base = 0x0E1ED000 if n is None else n      # documented default storage address
        model = drv.call({"op": "storage.boot", "files": [envs[soc][1].hex()], "base": base, "soc": soc, "fs": {}})
        if rc != 0 or not files:
            if "ok" in model:
                res.spec_failures.append({"cli": "image boot", "soc": soc, "storage_address_argument": sp, "what": f"the command line failed (exit {rc})", "log": log[-300:]})
            continue
        images = {}
        for fname, text in files.items():
            dom = fname.replace("suit_installed_envelopes_", "").replace("_merged.hex", "").upper()
            images[dom] = drv.call({"op": "ihex.read", "text": text}).get("ok")
        if "ok" not in model or model["ok"] != images:
            res.spec_failures.append({"cli": "image boot", "soc": soc, "storage_address_argument": sp, "denotes": base,
                                      "what": f"--storage-address {sp} on the command line: the images are not those for storage address {base:#x}",
                                      "segments": {k: [a for a, _ in (v or [])] for k, v in images.items()}})
    drv.close()


def run(tier: str, seed: int) -> int:
    common.ensure_repo_on_path()
    res = Result(PROP, tier, seed)
    st = stage_a(PROP, thorough=(tier == "thorough"))
    if not st.ok_driver:
        return finish(res, st, RULE, NOTE)
    signing.keys_dir()
    n = 170 if tier == "quick" else 5000
    modes = ["valid"] * 5 + ["exact-fit", "unknown-class", "duplicate-role", "no-component-id", "oversize", "two-classes-one-role"]
    jobs = [(seed, i, modes[i % len(modes)]) for i in range(n)]
    outs = common.pmap(work, jobs, chunk=2)
    for job, o in zip(jobs, outs):
        if o is None:
            res.count("skipped")
            continue
        res.evaluations += 1
        res.nontrivial.add(o["hash"])
        res.count("mode:" + o["mode"])
        res.count("soc:" + o["soc"])
        res.count("kconfig:" + str(o["kconfig"]))
        res.count(f"envelopes:{o['n']}")
        res.count("outcome:" + o["impl"])
        if o["mismatch"]:
            res.mismatches.append({**o["mismatch"], "job": list(job)})
        for same in o.get("writer", []):
            res.count("writer-model:" + ("same-text" if same else "other-text"))
        for p in o["problems"]:
            res.spec_failures.append({"job": list(job), "what": p})
        if len(res.samples) < 4 and job[1] % 29 == 0:
            res.sample({"job": list(job), "soc": o["soc"], "envelopes": o["n"], "kconfig": o["kconfig"], "outcome": o["impl"]})
    cli_cases(res, tier, seed)
    drv0 = common.Driver()
    for soc in PINNED_LAYOUT:
        _, changed = pinned(drv0.call({"op": "storage.layout", "soc": soc})["ok"], soc)
        res.case(["pinned-layout", soc])
        if changed:
            res.mismatches.append({"op": "storage.layout", "soc": soc, "roles": changed, "impl": "(extracted slot table)", "model": "(pinned layout)",
                                   "what": "the slot table of the tool differs from the pinned storage layout at these roles"})
    drv0.close()
    return finish(res, st, RULE, NOTE)


def _short(x):
    s = json.dumps(x)
    return x if len(s) < 2500 else s[:2500] + "..."


def replay(payload: dict) -> int:
    common.ensure_repo_on_path()
    job = payload.get("job") or payload.get("first_mismatch", {}).get("job")
    if not job:
        print(payload)
        return 1
    signing.keys_dir()
    o = work(tuple(job))
    print(_short(o))
    bad = bool(o.get("mismatch")) or bool(o.get("problems"))
    if bad:
        print(f"VIOLATION property={PROP} replay=(given)")
    return 1 if bad else 0
