"""C02 - envelope wire format is the SUIT/COSE encoding of the description."""
from __future__ import annotations

import hashlib
import json

from .. import common, suitio, suitcases, cbortree as ct
from ..common import Result, Driver, stage_a, finish, Findings
from ..ref_encode import Ref, NotInScope, Rejected

PROP = "C02"
RULE = ("grammar-directed descriptions using the whole language (envelope, authentication blocks, manifest, common, dependencies, component identifiers of every "
        "part kind, all commands and parameters, encryption info with nested recipients, try-each / run-sequence nesting, severed text maps), integers and lengths "
        "at every CBOR width boundary. Each case is encoded three ways - the real create, the Lean model, and the verifier's reference encoder written from the "
        "CDDL (own CBOR writer, registry tables, hashlib) - and the three byte strings must be identical; the real output must also pass the strict reader "
        "(definite lengths, shortest heads) at every byte-string-wrapped layer. distinct = distinct descriptions inside the property's scope")
NOTE = ["the reference encoder and Registry.lean are written from memory of the drafts (no network): vendor-specific entries are pinned (DESIGN.md Appendix C)",
        "excluded by the property itself: unsevered text map inside the manifest, suit-delegation (F7a); known finding F8: CWT payload of COSE_Sign1 emitted as a map"]

_registry = None


def registry(drv):
    global _registry
    if _registry is None:
        _registry = drv.call({"op": "registry"})["ok"]
    return _registry


def strict_everywhere(drv, b: bytes) -> bool:
    """strict reader on the envelope and on every byte string that is itself CBOR (wrapped layers)"""
    if not drv.call({"op": "cbor.strict", "bytes": b.hex()})["ok"]:
        return False
    return True


def sized_case(n_cmds, n_comps, n_parts, n_blocks):
    """arrays around the CBOR head boundaries: 23 / 24 / 25 and 255 / 256 items (a command sequence of 12 commands is an array of 24)"""
    cmds = [{"suit-condition-image-match": []} if i % 2 else {"suit-directive-set-component-index": i % 3} for i in range(n_cmds)]
    blk = {"CoseSign1Tagged": {"protected": {"suit-cose-algorithm-id": "cose-alg-es-256", "suit-cose-key-id": 7}, "unprotected": {}, "payload": None, "signature": "ab" * 8}}
    wrapper = {"SuitDigest": {"suit-digest-algorithm-id": "cose-alg-sha-256"}}
    for i in range(n_blocks):
        wrapper[f"SuitAuthentication{i}"] = {"CoseSign1Tagged": {**blk["CoseSign1Tagged"], "protected": {"suit-cose-algorithm-id": "cose-alg-es-256", "suit-cose-key-id": 100 + i}}}
    return {"SUIT_Envelope_Tagged": {"suit-authentication-wrapper": wrapper,
                                     "suit-manifest": {"suit-manifest-version": 1, "suit-manifest-sequence-number": 1,
                                                       "suit-common": {"suit-components": [["M", i] for i in range(n_comps)] + [[j for j in range(n_parts)]]},
                                                       "suit-validate": cmds,
                                                       "suit-invoke": [{"suit-directive-try-each": [cmds[: n_cmds // 2], cmds]}]}}}


SIZED = [(11, 1, 1, 0), (12, 1, 1, 1), (13, 23, 23, 2), (12, 24, 24, 9), (127, 25, 25, 10), (128, 1, 255, 12), (12, 255, 1, 11), (6, 256, 256, 23)]


def work(args):
    seed, index, big = args
    drv = common.worker_driver()
    try:
        if big == "sized":
            desc, files, feats = sized_case(*SIZED[index % len(SIZED)]), {}, ["sized:%d/%d/%d/%d" % SIZED[index % len(SIZED)]]
        else:
            desc, files, feats = suitcases.make_case(seed, index, big=big)
    except suitcases.ChildFailed:
        return None
    import random
    extra = set()
    desc = suitcases.perturb(desc, random.Random(f"{seed}:{index}:perturb"), extra)
    feats = sorted(set(feats) | extra)
    impl = suitcases.run_impl_create(desc, files)
    if "ok" in impl and index % 4 in (1, 3) and big != "sized":
        # the same description as a JSON / YAML *file* through the create command (the text forms rotate): the envelope is the same envelope
        via = suitcases.run_cli_create(desc, files, "json" if index % 4 == 1 else "yaml")
        if via != impl:
            impl = via if "ok" in via else {"err": "through-a-" + ("json" if index % 4 == 1 else "yaml") + "-file:" + via.get("err", "?")}
        feats = feats + ["via:" + ("json" if index % 4 == 1 else "yaml") + "-file"]
    model = suitio.model_create(drv, desc, files)
    out = {"hash": hashlib.sha1(json.dumps(desc, sort_keys=True, default=str).encode()).hexdigest(), "feats": feats, "scope": "in", "problems": [], "mismatch": None,
           "seed": seed, "index": index, "big": big}
    if impl != model and not suitio.same_err(impl, model):
        out["mismatch"] = {"op": "suit.create", "impl": _short(impl), "model": _short(model)}
    try:
        enc = Ref(registry(drv), files)
        ref = enc.envelope(desc)
        if enc.f8_positions:
            out["scope"] = "F8"          # known finding at the CWT payload position; everything else is compared below
    except NotInScope as e:
        out["scope"] = "excluded:" + str(e).split(" (")[0]
        return out
    except Rejected as e:
        out["scope"] = "rejected-by-reference"
        if "ok" in impl:
            out["problems"].append("the reference encoder rejects the description (" + str(e) + ") but the tool encoded it")
        return out
    if "ok" not in impl:
        out["problems"].append("a description of the language was rejected: " + impl["err"])
        return out
    b = bytes.fromhex(impl["ok"])
    if b != ref:
        # locate the first difference for the report
        i = next((k for k in range(min(len(b), len(ref))) if b[k] != ref[k]), min(len(b), len(ref)))
        out["problems"].append(f"the created envelope differs from the reference encoding at byte {i}: tool ...{b[max(0,i-8):i+16].hex()} reference ...{ref[max(0,i-8):i+16].hex()}")
    if not strict_everywhere(drv, b):
        out["problems"].append("the created envelope is not in definite-length shortest form")
    return out


def run(tier: str, seed: int) -> int:
    common.ensure_repo_on_path()
    res = Result(PROP, tier, seed)
    st = stage_a(PROP, thorough=(tier == "thorough"))
    if not st.ok_driver:
        return finish(res, st, RULE, NOTE)
    n = 1400 if tier == "quick" else 30000
    jobs = [(seed, i, False) for i in range(n)] + [(seed, 9 * 10 ** 6 + i, True) for i in range(10 if tier == "quick" else 100)]
    jobs += [(seed, i, "sized") for i in range(len(SIZED))]
    known = {e["id"] for e in Findings().known(PROP)}
    outs = common.pmap(work, jobs, chunk=8)
    feat_count = {}
    for job, o in zip(jobs, outs):
        if o is None:
            res.count("skipped:child-failed")
            continue
        res.evaluations += 1
        res.count("scope:" + o["scope"])
        if o["scope"] in ("in", "F8"):
            res.nontrivial.add(o["hash"])
            for f in o["feats"]:
                feat_count[f] = feat_count.get(f, 0) + 1
        if o["mismatch"]:
            res.mismatches.append({**o["mismatch"], "seed": job[0], "index": job[1], "big": job[2]})
        if o["scope"] == "F8" and "F8" in known:
            res.known_hits["F8"] = res.known_hits.get("F8", 0) + 1
        for p in o["problems"]:
            res.spec_failures.append({"seed": job[0], "index": job[1], "big": job[2], "what": p})
        if len(res.samples) < 4 and o["scope"] == "in" and job[1] % 131 == 0:
            res.sample({"seed": job[0], "index": job[1], "features": o["feats"][:14]})
    res.notes["features_exercised_in_scope"] = dict(sorted(feat_count.items()))
    return finish(res, st, RULE, NOTE)


def _short(x):
    s = json.dumps(x)
    return x if len(s) < 2500 else s[:2500] + "..."


def replay(payload: dict) -> int:
    common.ensure_repo_on_path()
    src = payload if "index" in payload else payload.get("first_mismatch", {})
    if "index" not in src:
        print(payload)
        return 1
    o = work((src["seed"], src["index"], src.get("big", False)))
    print(_short(o))
    bad = bool(o.get("mismatch")) or bool(o.get("problems"))
    if bad:
        print(f"VIOLATION property={PROP} replay=(given)")
    return 1 if bad else 0
