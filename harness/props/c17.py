"""C17 - parsing untrusted bytes fails cleanly."""
from __future__ import annotations

import os
import subprocess
import time

from .. import common, suitio, suitcases, cbortree as ct
from ..common import Result, stage_a, finish, rng_for, Findings

PROP = "C17"
RULE = ("type-confusion sweep: every node (including nodes inside byte-string-wrapped layers) of envelopes created from generated "
        "descriptions is replaced by a representative of every CBOR type; all truncations; random byte edits; length-field inflation; "
        "nesting sweeps up to 400 levels.  Each input is parsed by the real SuitEnvelopeTagged.from_cbor(...).to_obj() and by the model; "
        "distinct = distinct input byte strings; non-trivial = the input differs from the unmodified envelope")
NOTE = ["C17_closed is proved for every schema, so it does not depend on the extraction; C17_guards_all ties it to the running code through "
        "four fixed probe inputs executed on every run",
        "compared domain of the model: definite lengths, no floats / exotic simple values / semantic tags, nesting below 100 levels; outside it "
        "the implementation's outcome class is still checked directly",
        "runtime part (not a theorem): wall time per input and Python-level call count against a linear budget; peak RSS of the worker"]

OKCLASSES = ("ok", "ValueError", "SUITError")


def outcome_impl(b: bytes):
    t = time.perf_counter()
    r = suitio.impl_parse(b)
    dt = time.perf_counter() - t
    return ("ok" if "ok" in r else r["err"]), r.get("ok"), dt


def work(item):
    b, compare = item
    cls, obj, dt = outcome_impl(b)
    model = None
    if compare:
        m = suitio.model_parse(common.worker_driver(), b)
        if "ok" in m:
            model = ("ok", m["ok"] == obj if cls == "ok" else None)
        else:
            model = (m["err"], None)
    return cls, model, dt


def nested_envelope(levels, kind, innermost=(14, 0)):
    import cbor2
    seq = list(innermost)
    for _ in range(levels):
        inner = cbor2.dumps(seq)
        seq = [32, inner] if kind == "run" else [15, [inner]]
    man = {1: 1, 2: 1, 3: cbor2.dumps({2: [[b"\x00"]]}), 7: cbor2.dumps(seq)}
    auth = cbor2.dumps([cbor2.dumps([-16, b"\x00" * 32])])
    return cbor2.dumps(cbor2.CBORTag(107, {2: auth, 3: cbor2.dumps(man)}))


_PARSE_ONE = """
import sys, time
sys.path.insert(0, sys.argv[1])
import logging
logging.disable(logging.CRITICAL)
from suit_generator.suit.envelope import SuitEnvelopeTagged
b = bytes.fromhex(sys.stdin.read().strip())
t = time.perf_counter()
try:
    SuitEnvelopeTagged.from_cbor(b).to_obj()
    r = "ok"
except ValueError as e:
    r = "SUITError" if type(e).__name__ == "SUITError" else "ValueError"
except BaseException as e:
    r = type(e).__name__
import resource
print("RESULT", r, round(time.perf_counter() - t, 3), resource.getrusage(resource.RUSAGE_SELF).ru_maxrss // 1024)
"""


def shared_reference_bomb(n, width=1):
    """L_k = 28([L_{k-1}, 29(index of L_{k-1})]): compact when decoded with value sharing, 2^n copies when re-encoded without.
    `width`: bytes used for the tag numbers (cbor2 accepts non-shortest heads: d8 1c, d9 00 1c, da 00 00 00 1c)"""
    import cbor2
    t28 = {1: "d81c", 2: "d9001c", 4: "da0000001c"}[width]
    t29 = {1: "d81d", 2: "d9001d", 4: "da0000001d"}[width]

    def rec(k, idx):
        if k == 0:
            return bytes.fromhex(t28 + "80")
        return bytes.fromhex(t28 + "82") + rec(k - 1, idx + 1) + bytes.fromhex(t29) + cbor2.dumps(idx + 1)
    return rec(n, 0)


def deep_rejections(res, tier):
    """a malformed element under many nested try-each / run-sequence levels must be rejected in time proportional to the input,
    each input in its own interpreter with a hard limit (a parser that does not answer cannot be timed from inside)"""
    import subprocess
    from concurrent.futures import ThreadPoolExecutor
    limit = 25.0
    levels = [2, 6, 10, 14, 18, 24, 40] if tier == "quick" else [2, 4, 6, 8, 10, 12, 14, 16, 18, 20, 24, 32, 40, 60, 90]
    jobs = []
    for lv in levels:
        for kind in ("try", "run"):
            for tag, inner in (("bad-argument-type", (14, b"")), ("unknown-command", (99, 0)), ("odd-length", (14, 0, 14)), ("valid", (14, 0))):
                jobs.append((lv, kind, tag, nested_envelope(lv, kind, inner)))
    import cbor2
    for n in ([6, 14, 20, 24, 32] if tier == "quick" else [2, 6, 10, 14, 18, 20, 22, 24, 28, 32, 48, 64]):
        bomb = shared_reference_bomb(n)
        jobs.append((n, "manifest", "shared-references", bytes.fromhex("d86ba103") + bomb))
        jobs.append((n, "manifest-bstr", "shared-references", cbor2.dumps(cbor2.CBORTag(107, {3: bomb}))))
        jobs.append((n, "wrapper", "shared-references", cbor2.dumps(cbor2.CBORTag(107, {2: bomb, 3: cbor2.dumps({1: 1, 2: 1})}))))
        for width in (2, 4):
            jobs.append((n, f"manifest-w{width}", "shared-references", bytes.fromhex("d86ba103") + shared_reference_bomb(n, width)))
    # a shared *leaf*: one long byte string marked shareable (tag 28) and referenced many times (tag 29); and string references (25/256)
    for leaf, refs in ([(4096, 2000), (60000, 30000)] if tier == "quick" else [(4096, 2000), (60000, 30000), (400000, 150000)]):
        body = bytes.fromhex("d81c") + cbor2.dumps(bytes(leaf)) + bytes.fromhex("d81d00") * refs
        arr = cbor2.dumps(refs + 1)
        arr = bytes([0x80 | (arr[0] & 0x1F)]) + arr[1:]
        jobs.append((refs, "manifest", "shared-references", bytes.fromhex("d86ba103") + arr + body))
        sref = bytes.fromhex("d90100") + arr + cbor2.dumps(bytes(leaf)) + bytes.fromhex("d81900") * refs
        jobs.append((refs, "manifest", "shared-references", bytes.fromhex("d86ba103") + sref))

    # every text string of two text-rich envelopes replaced by strings that are long and *almost* of a familiar shape (host names, versions,
    # identifiers, paths): a validating pattern with nested repetition answers these in exponential time
    probes = ["a" * 44 + "_", "wireless.nordicsemiconductor.exampl_", "cellular-iot.long-vendor-name.nordicsemi.example!", "a-" * 26 + "!", "1." * 30 + "x",
              "ab" * 20 + ".ab" * 10 + "\u00e9", " " * 50 + "x", "a" * 300 + "!", "/a" * 40 + "\\", "0" * 60 + "g",
              "application_core_firmware_image_v1.2.3 (1).bin", "http://example.com/" + "a" * 40 + " b", "file://" + "ab" * 20 + " ", "a" * 45 + "\n",
              "a" * 45 + "\tb", "scheme:" + "x" * 40 + "%zz", "http://[" + "1:" * 30 + "]g", "a" * 40 + "?" + "b" * 40 + "#" + "c" * 40 + " "]
    text_envs = []
    for lang_map in ({"suit-text-manifest-description": "d", "suit-text-update-description": "u", '["M", 1]': {
            "suit-text-vendor-name": "v", "suit-text-model-name": "m", "suit-text-vendor-domain": "nordicsemi.com", "suit-text-model-info": "i",
            "suit-text-component-description": "c", "suit-text-component-version": "1.0.0"}},):
        dsc = {"SUIT_Envelope_Tagged": {"suit-authentication-wrapper": {"SuitDigest": {"suit-digest-algorithm-id": "cose-alg-sha-256"}},
                                        "suit-manifest": {"suit-manifest-version": 1, "suit-manifest-sequence-number": 1, "suit-reference-uri": "http://x/y",
                                                          "suit-common": {"suit-components": [["M", 1]]},
                                                          "suit-validate": [{"suit-directive-override-parameters": {"suit-parameter-uri": "file://a/b"}}],
                                                          "suit-text": {"suit-digest-algorithm-id": "cose-alg-sha-256"}},
                                        "suit-text": {"en": lang_map}, "suit-integrated-payloads": {"#name": "ff00"}}}
        r = suitcases.run_impl_create(dsc, {})
        if "ok" in r:
            text_envs.append(bytes.fromhex(r["ok"]))
    for eb in text_envs:
        root = ct.decode(eb)
        for path, node in ct.paths(root):
            if node.major == 3:
                for pi, pr in enumerate(probes):
                    jobs.append((pi, "text", "long-almost-valid-text", ct.encode(ct.replace(root, path, ct.tstr(pr)))))

    def one(job):
        lv, kind, tag, b = job
        try:
            p = subprocess.run([common.PY, "-c", _PARSE_ONE, str(common.REPO)], input=b.hex(), capture_output=True, text=True, timeout=limit)
        except subprocess.TimeoutExpired:
            return job, "no-answer", limit, 0
        for line in p.stdout.splitlines():
            if line.startswith("RESULT "):
                _, r, dt, rss = line.split()
                return job, r, float(dt), int(rss)
        return job, "crash:" + p.stderr[-200:], 0.0, 0

    with ThreadPoolExecutor(max_workers=14) as ex:
        outs = list(ex.map(one, jobs))
    for (lv, kind, tag, b), r, dt, rss in outs:
        res.case(["deep", lv, kind, tag], nontrivial=True)
        res.count("deep:" + tag + ":" + r.split(":")[0])
        if r == "no-answer":
            res.spec_failures.append({"input": b.hex(), "kind": f"deep:{kind}:{tag}", "levels": lv, "length": len(b),
                                      "what": f"no answer within {limit} s for a {len(b)}-byte envelope with {lv} nested levels (time not bounded by the input size)"})
        elif r not in OKCLASSES:
            res.spec_failures.append({"input": b.hex(), "kind": f"deep:{kind}:{tag}", "impl": r, "what": "the envelope parser let an unrelated internal error escape"})
        elif rss > 600 + len(b) // 1000:
            res.spec_failures.append({"input": b.hex(), "kind": f"deep:{kind}:{tag}", "peak_rss_mb": rss, "length": len(b), "levels": lv,
                                      "what": f"peak memory {rss} MB for a {len(b)}-byte input (memory far beyond the input size)"})
        elif tag == "valid" and r != "ok":
            res.spec_failures.append({"input": b.hex(), "kind": f"deep:{kind}:{tag}", "impl": r, "what": "a well-formed nested envelope was rejected"})
        elif tag not in ("valid", "long-almost-valid-text") and r == "ok":
            res.spec_failures.append({"input": b.hex(), "kind": f"deep:{kind}:{tag}", "what": "a malformed nested envelope was accepted"})
        elif dt > 2.0 + 0.002 * len(b):
            res.spec_failures.append({"input": b.hex(), "kind": f"deep:{kind}:{tag}", "seconds": dt, "length": len(b), "levels": lv,
                                      "what": "parse time far beyond a linear budget (2 s + 2 ms/byte)"})


def has_indefinite(b: bytes) -> bool:
    """does the first CBOR item of `b` use an indefinite length, or a semantic tag that cbor2 turns into a Python object (or fails to),
    anywhere?  Both are outside the model: cbor2 treats them specially, the model reads a tag as a tag and no indefinite lengths."""
    pos = 0
    todo = 1
    try:
        while todo:
            todo -= 1
            ib = b[pos]
            pos += 1
            major, ai = ib >> 5, ib & 31
            if ai == 31:
                # indefinite lengths, and a break code anywhere but as the very first byte (cbor2 6 hands out a marker object for it even
                # inside a definite-length container; the model knows the marker at the top of a decode only)
                return major in (2, 3, 4, 5) or (major == 7 and pos > 1)
            if ai < 24:
                arg = ai
            elif ai <= 27:
                w = 1 << (ai - 24)
                arg = int.from_bytes(b[pos:pos + w], "big")
                pos += w
            else:
                return False
            if major in (2, 3):
                pos += arg
            elif major == 4:
                todo += arg
            elif major == 5:
                todo += 2 * arg
            elif major == 6:
                if arg not in (18, 96, 107, 999):
                    return True
                todo += 1
            if todo > 100000:
                return False
    except IndexError:
        return False
    return False


def py_lenient_ok(b: bytes, depth=0) -> bool:
    """would cbor2 (lenient, trailing bytes ignored) hand the SUIT layer only values inside the model's domain?"""
    import cbor2
    if has_indefinite(b):
        return False
    try:
        v = cbor2.loads(b)
    except Exception:
        return True
    if b[:1] == b"\xff":
        return True     # a stray 0xFF decodes to cbor2's break-marker object: modelled at the top level of a decode only
    return _walk_py(v, depth)


def _walk_py(v, depth):
    import cbor2
    if depth > 60:
        return False
    if v is None or isinstance(v, (bool, int, str)) or v is cbor2.undefined:
        return not isinstance(v, int) or isinstance(v, bool) or -2 ** 64 <= v < 2 ** 64
    if isinstance(v, bytes):
        return py_lenient_ok(v, depth + 1) if v else True
    if isinstance(v, (list, tuple)):
        return all(_walk_py(x, depth + 1) for x in v)
    if isinstance(v, cbor2.CBORTag):
        return v.tag in (18, 96, 107, 999) and _walk_py(v.value, depth + 1)
    if hasattr(v, "items"):
        return all(not isinstance(k, bool) and _walk_py(k, depth + 1) and _walk_py(x, depth + 1) for k, x in v.items())
    return False


def build_inputs(tier, seed, res):
    rng = rng_for(seed, PROP)
    inputs = []   # (bytes, compare?, kind)
    n_env = 6 if tier == "quick" else 60
    reps = ct.representatives()
    envs = []
    i = 0
    while len(envs) < n_env and i < 10 * n_env:
        try:
            desc, files, feats = suitcases.make_case(seed * 1000003 + 17, i, depth=1)
        except suitcases.ChildFailed:
            i += 1
            continue
        i += 1
        r = suitcases.run_impl_create(desc, files)
        if "ok" in r:
            b = bytes.fromhex(r["ok"])
            if len(b) < 6000:
                envs.append(b)
    # one base envelope that carries every optional structure the generator only sometimes emits: CWT claims of every type in an
    # authentication block payload and in a delegation chain, encryption info with nested recipients, every severable member
    blk = {"CoseSign1Tagged": {"protected": {"suit-cose-algorithm-id": "cose-alg-es-256", "suit-cose-key-id": 7}, "unprotected": {},
                               "payload": {"Issuer": "iss", "Subject": "sub", "Audience": "aud", "Expiration Time": 1893456000, "Not Before": -5,
                                           "Issued At": 0, "CW ID": "ff01"}, "signature": "ab" * 64}}
    full = {"SUIT_Envelope_Tagged": {
        "suit-delegation": [[blk], [blk, blk]],
        "suit-authentication-wrapper": {"SuitDigest": {"suit-digest-algorithm-id": "cose-alg-sha-256"}, "SuitAuthentication0": blk},
        "suit-manifest": {"suit-manifest-version": 1, "suit-manifest-sequence-number": 2,
                          "suit-common": {"suit-components": [["M", 1, "abc"]]},
                          "suit-install": {"suit-digest-algorithm-id": "cose-alg-sha-256"},
                          "suit-text": {"suit-digest-algorithm-id": "cose-alg-sha-256"}},
        "suit-install": [{"suit-directive-set-component-index": 0}],
        "suit-text": {"en": {"suit-text-manifest-description": "d"}}}}
    r = suitcases.run_impl_create(full, {})
    if "ok" in r:
        envs.insert(0, bytes.fromhex(r["ok"]))
        res.count("base:full-structure")
    budget_nodes = 4200 if tier == "quick" else 9000
    for b in envs:
        root = ct.decode(b)
        inputs.append((b, True, "unmodified"))
        plist = list(ct.paths(root))
        per_env = budget_nodes // len(envs)
        positions = plist if len(plist) * len(reps) <= per_env else rng.sample(plist, max(1, per_env // len(reps)))
        for path, node in positions:
            for name, item, dom in reps:
                mb = ct.encode(ct.replace(root, path, item))
                inputs.append((mb, dom and py_lenient_ok(mb), "replace:" + name))
        # truncations (all for short envelopes, sampled otherwise)
        cuts = range(len(b)) if len(b) < 400 else sorted(rng.sample(range(len(b)), 400))
        for c in cuts:
            inputs.append((b[:c], True, "truncate"))
        # byte edits
        for _ in range(300 if tier == "quick" else 1500):
            mb = bytearray(b)
            for _ in range(rng.choice([1, 1, 2, 3])):
                mb[rng.randrange(len(mb))] = rng.choice([0, 0xFF, 0x1F, 0x5F, 0x7F, 0x9F, 0xBF, 0xF6, 0xF9, 0xFB, rng.randrange(256)])
            mb = bytes(mb)
            cmp_ok = False
            try:
                t = ct.decode(mb)
                cmp_ok = ct.model_domain(t) and py_lenient_ok(mb)
            except (ct.Malformed, RecursionError):
                cmp_ok = False
            inputs.append((mb, cmp_ok, "byte-edit"))
        # length inflation: every head with an argument gets an absurd length
        for pos in range(0, len(b)):
            major = b[pos] >> 5
            if 2 <= major <= 5 and rng.random() < (0.5 if len(b) < 500 else 0.1):
                for ai, w in ((24, 1), (25, 2), (26, 4), (27, 8)):
                    mb = b[:pos] + bytes([major << 5 | ai]) + (2 ** (8 * w) - 1).to_bytes(w, "big") + b[pos + 1:]
                    inputs.append((mb, False, "inflate"))
    # top-level absurd lengths and junk
    for hx in ["", "00", "ff", "d86b", "d86ba0", "d86ba1", "d86ba10200", "5b7fffffffffffffff", "9b7fffffffffffffff", "bb7fffffffffffffff",
               "7b7fffffffffffffff", "d86bbb00000000ffffffff", "c11b9b9b9b0000000000", "95393b7b7b7b7b7b7b7b7b7b7b7b7b7b", "d8250010600000006010000000000000",
               "d81e84ffffffff", "d8234129", "d86b" + "81" * 300, "d86b" + "d86b" * 300 + "a0", "9f" * 100, "bf" * 50]:
        inputs.append((bytes.fromhex(hx), False, "junk"))
    # a long run of tag heads in front of anything (nothing, an integer, an envelope map): nesting far beyond what any decoder accepts in a 1-10 kB
    # input, met by whatever looks at the bytes *before* the decoder does (C17-p)
    for n in (500, 990, 1200, 5000):
        for head in ("c6", "d86b", "d9d9f7"):
            for tail in ("", "00", "a0", "a10240"):
                inputs.append((bytes.fromhex(head * n + tail), False, "junk:tag-run"))
    # nesting sweeps
    levels = [1, 5, 20, 60, 100, 140, 160, 170, 180, 200, 250, 399, 400] if tier == "quick" else list(range(1, 400, 7)) + [399, 400, 600, 1000]
    for lv in levels:
        for kind in ("run", "try"):
            inputs.append((nested_envelope(lv, kind), lv <= 100, f"nest:{kind}"))
    return inputs


def run(tier: str, seed: int) -> int:
    common.ensure_repo_on_path()
    res = Result(PROP, tier, seed)
    st = stage_a(PROP, thorough=(tier == "thorough"))
    if not st.ok_driver:
        return finish(res, st, RULE, NOTE)
    import logging
    logging.disable(logging.CRITICAL)
    inputs = build_inputs(tier, seed, res)
    # dedupe
    seen = {}
    for b, cmp_ok, kind in inputs:
        if b not in seen:
            seen[b] = (cmp_ok, kind)
        elif cmp_ok and not seen[b][0]:
            seen[b] = (True, seen[b][1])
    items = [(b, c) for b, (c, _) in seen.items()]
    kinds = [k for _, (_, k) in seen.items()]
    t0 = time.time()
    outs = common.pmap(work, items, chunk=32)
    res.notes["parse_wall_s"] = round(time.time() - t0, 2)
    worst = (0.0, None)
    outs = [o if o is not None else ("no-answer", None, 0.0) for o in outs]
    for (b, cmp_ok), kind, (cls, model, dt) in zip(items, kinds, outs):
        if cls == "no-answer":
            res.count("impl:no-answer")
            continue            # reported through common.PMAP_FAILURES with the input
        res.case(b.hex(), nontrivial=(kind != "unmodified"))
        res.count("kind:" + kind.split(":")[0])
        res.count("impl:" + (cls if cls in OKCLASSES else "internal"))
        if dt > worst[0]:
            worst = (dt, kind, len(b))
        if cls not in OKCLASSES:
            res.spec_failures.append({"input": b.hex(), "kind": kind, "impl": cls,
                                      "what": "the envelope parser let an unrelated internal error escape"})
        # linear-time budget: generous constant + per-byte allowance (runtime monitor)
        if dt > 2.0 + 0.002 * len(b):
            res.spec_failures.append({"input": b.hex()[:4000], "kind": kind, "seconds": round(dt, 2), "length": len(b),
                                      "what": "parse time far beyond a linear budget (2 s + 2 ms/byte)"})
        if cmp_ok and model is not None:
            res.count("compared")
            mcls, same_obj = model
            agree = (mcls == cls) or (mcls.startswith("internal") and cls.startswith("internal"))
            if agree and cls == "ok" and same_obj is False:
                agree = False
            if not agree:
                res.mismatches.append({"op": "suit.parse", "input": b.hex()[:6000], "kind": kind, "impl": cls, "model": mcls,
                                       "same_rendering": same_obj})
    res.notes["slowest_input"] = {"seconds": round(worst[0], 3), "kind": worst[1], "length": worst[2] if len(worst) > 2 else None}
    for k in ("replace:map-unk", "truncate", "nest:run", "byte-edit", "inflate"):
        for (b, _), kk in zip(items, kinds):
            if kk == k:
                res.sample({"kind": k, "input": b.hex()[:160] + ("..." if len(b) > 80 else "")})
                break
    res.notes["guards"] = st.extract_notes.get("guards")
    cli_sample(res, tier, [(b, kind, cls) for (b, _), kind, (cls, _, _) in zip(items, kinds, outs)])
    deep_rejections(res, tier)
    return finish(res, st, RULE, NOTE)


def cli_sample(res, tier, triples):
    """the same bytes through the real `parse` command (file reading, option handling, output writing around the parser): one input of every kind of
    mutation; an accepted envelope ends with exit status 0, a rejected one with another status and the parser's own error class - never success,
    never an unrelated error"""
    import re
    import tempfile
    from concurrent.futures import ThreadPoolExecutor
    per_kind = {}
    for b, kind, cls in triples:
        if len(b) < 20000:
            per_kind.setdefault((kind.split(":")[0], cls == "ok"), []).append((b, kind, cls))
    chosen = []
    for key in sorted(per_kind):
        chosen += per_kind[key][: (2 if tier == "quick" else 12)]
    chosen = chosen[: (60 if tier == "quick" else 600)]
    with tempfile.TemporaryDirectory(prefix="verif_c17cli_") as d:
        def one(k):
            b = chosen[k][0]
            f = os.path.join(d, f"in{k}.suit")
            open(f, "wb").write(b)
            out = os.path.join(d, f"out{k}.yaml")
            try:
                rc, log = common.run_cli(["parse", "--input-file", f, "--output-file", out], d, timeout=60)
            except subprocess.TimeoutExpired:
                return None, "", False
            return rc, log, os.path.exists(out) and os.path.getsize(out) > 0
        with ThreadPoolExecutor(max_workers=14) as ex:
            outs = list(ex.map(one, range(len(chosen))))
    for (b, kind, cls), (rc, log, wrote) in zip(chosen, outs):
        res.case(["cli-parse", b.hex()[:64], kind], nontrivial=True)
        res.count("cli:parse:" + ("accepted" if rc == 0 else "refused"))
        last = [ln for ln in log.strip().splitlines() if re.match(r"^[A-Za-z_.]*(Error|Exception|Exit|Interrupt)\b", ln)]
        err = last[-1].split(":")[0].split(".")[-1] if last else None
        if rc is None:
            res.spec_failures.append({"input": b.hex(), "kind": "cli:" + kind, "what": "the parse command gave no answer within 60 s"})
        elif cls == "ok" and rc != 0:
            res.spec_failures.append({"input": b.hex(), "kind": "cli:" + kind, "exit": rc, "error": err, "what": "the parse command fails on an envelope the parser accepts"})
        elif cls != "ok" and rc == 0:
            res.spec_failures.append({"input": b.hex(), "kind": "cli:" + kind, "library": cls, "output_written": wrote,
                                      "what": "the parse command reports success (exit 0) for bytes the parser rejects"})
        elif cls != "ok" and err is not None and err not in ("ValueError", "SUITError", "GeneratorError"):
            res.spec_failures.append({"input": b.hex(), "kind": "cli:" + kind, "error": err, "what": "the parse command ends with an unrelated internal error for malformed bytes"})


def replay(payload: dict) -> int:
    common.ensure_repo_on_path()
    hx = payload.get("input") or payload.get("first_mismatch", {}).get("input")
    if not hx:
        print(payload)
        return 1
    b = bytes.fromhex(hx)
    cls, obj, dt = outcome_impl(b)
    drv = common.Driver()
    m = suitio.model_parse(drv, b)
    drv.close()
    print("impl :", cls, f"({dt:.3f}s)")
    print("model:", "ok" if "ok" in m else m["err"])
    bad = cls not in OKCLASSES
    if bad:
        print(f"VIOLATION property={PROP} replay=(given)")
    return 1 if bad else 0
