"""C01 - created envelopes carry correct manifest and severed-member digests."""
from __future__ import annotations

from .. import common, suitio, suitcases
from ..common import Result, stage_a, finish

PROP = "C01"
RULE = ("grammar-directed envelope descriptions: every combination of severed members (inline / severed / digest-only / absent), the five digest "
        "algorithms per field, supplied (wrong) digest values, nested dependencies to depth 2, manifests padded so that the wrapped manifest is exactly "
        "23/24/255/256/65535/65536 bytes; created through the library and (sampled) through the CLI from JSON and YAML files. Each case: real create vs "
        "model (bytes) and Spec.checkRec on the implementation's bytes. distinct = distinct descriptions; non-trivial = create succeeded")
NOTE = ["C01_create_digests is a node-level theorem for every schema / file system / hash function; the bridge to the byte-level predicate Spec.check1 is "
        "not yet a theorem and is covered by evaluating Spec.checkRec on the implementation's bytes",
        "the driver's SHA-2 / SHAKE are compared with the cryptography library through every case (byte equality of whole envelopes)",
        "domain: descriptions in the JSON data model with integers below 2^64"]


def work(args):
    seed, index, kind = args
    drv = common.worker_driver()
    try:
        if kind.startswith("len:"):
            target = int(kind[4:])
            c = suitcases.case_with_manifest_len(seed, index, target, suitcases.run_impl_create)
            if c is None:
                return None
            desc, files, feats = c
        else:
            desc, files, feats = suitcases.make_case(seed, index, big=(kind == "big"))
    except suitcases.ChildFailed:
        return None
    if kind == "json":
        impl = suitcases.run_cli_create(desc, files, "json")
    elif kind == "yaml":
        impl = suitcases.run_cli_create(desc, files, "yaml")
    else:
        impl = suitcases.run_impl_create(desc, files)
    model = suitio.model_create(drv, desc, files)
    spec = None
    mlen = None
    if "ok" in impl:
        spec = drv.call({"op": "spec.C01", "bytes": impl["ok"]})["ok"]
        mlen = suitcases.manifest_len(bytes.fromhex(impl["ok"]))
    agree = impl == model or suitio.same_err(impl, model)
    import hashlib, json
    h = hashlib.sha1(json.dumps(desc, sort_keys=True, default=str).encode()).hexdigest()
    return {"index": index, "kind": kind, "agree": agree, "impl": impl if not agree or spec is None or not spec["recursive"] else None,
            "model": model if not agree else None, "spec": spec, "feats": feats, "hash": h, "mlen": mlen,
            "ok": "ok" in impl, "err": impl.get("err"), "len": len(impl.get("ok", "")) // 2}


def run(tier: str, seed: int) -> int:
    common.ensure_repo_on_path()
    res = Result(PROP, tier, seed)
    st = stage_a(PROP, thorough=(tier == "thorough"))
    if not st.ok_driver:
        return finish(res, st, RULE, NOTE)
    n = 1200 if tier == "quick" else 25000
    jobs = [(seed, i, "lib") for i in range(n)]
    jobs += [(seed, 10 ** 6 + i, "json") for i in range(n // 20)] + [(seed, 2 * 10 ** 6 + i, "yaml") for i in range(n // 20)]
    jobs += [(seed, 3 * 10 ** 6 + i, "big") for i in range(8 if tier == "quick" else 80)]
    for t in (23, 24, 255, 256, 65535, 65536):
        jobs += [(seed, 4 * 10 ** 6 + 10 * t + i, f"len:{t}") for i in range(3 if tier == "quick" else 20)]
    # ... and so that the *wrapped* manifest (head included) is an exact multiple of 64 KiB: a hash fed block by block meets an empty last block (C01-s)
    for t in (65533, 131067):
        jobs += [(seed, 5 * 10 ** 6 + 10 * t + i, f"len:{t}") for i in range(2 if tier == "quick" else 6)]
    outs = common.pmap(work, jobs, chunk=8)
    for job, o in zip(jobs, outs):
        if o is None:
            res.count("skipped:child-or-length-not-reached")
            continue
        res.evaluations += 1
        if o["ok"]:
            res.nontrivial.add(o["hash"])
        res.count("route:" + o["kind"].split(":")[0])
        res.count("outcome:" + ("ok" if o["ok"] else o["err"]))
        for f in o["feats"]:
            if f.endswith(":severed") or f.endswith(":digest-only") or f.endswith(":inline") or f.startswith("dependency") or f.startswith("digest:"):
                res.count("feature:" + f)
        if o["mlen"] in (23, 24, 255, 256, 65535, 65536, 65533, 131067):
            res.count(f"manifest_len:{o['mlen']}")
        if not o["agree"]:
            res.mismatches.append({"op": "suit.create", "seed": job[0], "index": job[1], "kind": job[2], "impl": _short(o["impl"]), "model": _short(o["model"])})
        if o["spec"] is not None and not (o["spec"]["root_and_severed"] and o["spec"]["recursive"]):
            res.spec_failures.append({"seed": job[0], "index": job[1], "kind": job[2], "spec": o["spec"], "impl_output": _short(o["impl"]),
                                      "what": "Spec.checkRec (C01) is false on the envelope the implementation created"})
        if len(res.samples) < 4 and o["ok"] and o["index"] % 97 == 0:
            res.sample({"seed": job[0], "index": job[1], "route": o["kind"], "envelope_bytes": o["len"], "features": o["feats"][:12]})
    return finish(res, st, RULE, NOTE)


def _short(x):
    import json
    s = json.dumps(x)
    return x if len(s) < 3000 else s[:3000] + "..."


def replay(payload: dict) -> int:
    common.ensure_repo_on_path()
    src = payload if "index" in payload else payload.get("first_mismatch", {})
    if "index" not in src:
        print(payload)
        return 1
    o = work((src["seed"], src["index"], src["kind"]))
    print({k: (v if k not in ("impl", "model") else _short(v)) for k, v in o.items()})
    bad = (not o["agree"]) or (o["spec"] is not None and not o["spec"]["recursive"])
    if bad:
        print(f"VIOLATION property={PROP} replay=(given)")
    return 1 if bad else 0
