"""C11 - payload extraction conserves payloads and leaves authenticated content intact."""
from __future__ import annotations

import hashlib
import json
import os
import random
import re
import tempfile
from collections import Counter

from .. import common, suitio, suitcases, cbortree as ct
from ..common import Result, stage_a, finish
from .c09 import build_tree

PROP = "C11"
RULE = ("envelope hierarchies up to depth 3 (created by the real tool) with integrated payloads at every level, crossed with omit / dependency regular "
        "expressions of four classes each (absent, matching nothing, matching everything, partial); cache_create from_envelope through cmd_cache_create.main; "
        "payload_extract with and without replacement and output file through cmd_payload_extract.main. Each case: model vs real bytes (cache and envelope); "
        "conservation of the multiset of (name, bytes) between input hierarchy, output hierarchy and cache; every integer-keyed member at every level "
        "byte-identical. distinct = distinct (hierarchy, options)")
NOTE = ["the two regular expressions enter the model as predicates: re.fullmatch is evaluated by Python on every name of the hierarchy",
        "cbor2 load/dump modelled as dec/enc (identity on the canonical envelopes the tool writes)"]

DEP_RES = [None, r"#dep.*", r"nomatch", r".*", r"#dep1_0|#dep2_0", r"#dep\d{1,2}_\d{1,3}", r"#dep[0-9]{1,},?.*"]
CONFUSABLE = [["3", "2", "#p3"], ["16", "2024", "+3"], ["1_0", " 3", "0x10"], ["#app_bin", "#app.bin"], ["#aab", "#a+b"], ["#fw7", "#fw\\d"], ["#ab", "#a?b", "#a*b"], ["#x", "#x|#y", "#y"],
              ["file:///C:\\images\\update.bin", "#other"], ["#x[1", "#x1"], ["#(", "#)"], ["#a**", "#a"], ["#p$", "#p"], ["#^q", "#q"],
              # for the patterns ALTERNATION below: names that merely begin or end with one alternative
              ["#app0", "#app0_recovery", "boot#file1", "#file1"], ["#a,b", "#a", "b", "#app7"], ["#file12", "#file1234", "#app123"]]
ALTERNATION = r"#app0|#file1"
OMIT_RES = [None, r"zzz", r".*", r"#file.*", r"(#app|p)\d", r"http://.*", r"#dep.*", r".*dep1.*|#app.*",
            # one expression is one expression: counted repetitions and literal commas
            r"#(app|file)\d{1,2}", r"#file[0-9]{1,3}|#app\d{0,2}", r"#a,b|#app.*", r"[#a-z]{2,5}\d"]


def members(b: bytes):
    root = ct.decode(b)
    ints = [(k.arg, ct.encode(v)) for k, v in root.children[0].children if k.major == 0]
    strs = [(k.data.decode(), v) for k, v in root.children[0].children if k.major == 3]
    return root, ints, strs


def hierarchy(b: bytes, is_dep, path=""):
    """(payload multiset, {path: integer-keyed members}) of the hierarchy rooted at b, dependencies selected by is_dep"""
    root, ints, strs = members(b)
    pl = Counter()
    levels = {path: ints}
    for name, v in strs:
        if is_dep(name) and v.major == 2:
            try:
                sub_pl, sub_lv = hierarchy(v.data, is_dep, path + "/" + name)
                pl += sub_pl
                levels.update(sub_lv)
                continue
            except Exception:
                pass
        pl[(path, name, v.data if v.major == 2 else ct.encode(v))] += 1
    return pl, levels


def all_names(b: bytes, out):
    try:
        root, ints, strs = members(b)
    except Exception:
        return
    for name, v in strs:
        out.add(name)
        if v.major == 2:
            all_names(v.data, out)


def impl_cache(b, eb, omit, dep, d):
    from suit_generator import cmd_cache_create
    inp, oc, oe = os.path.join(d, "in.suit"), os.path.join(d, "cache.bin"), os.path.join(d, "out.suit")
    for p in (oc, oe):
        common.make_stale(p)
    with open(inp, "wb") as fh:
        fh.write(b)
    try:
        common.call_main(cmd_cache_create.main, d, cache_create_subcommand="from_envelope", eb_size=eb, input_envelope=inp, output_envelope=oe, output_file=oc,
                              omit_payload_regex=omit, dependency_regex=dep)
        return {"ok": {"cache": open(oc, "rb").read().hex(), "envelope": open(oe, "rb").read().hex()}}
    except BaseException as e:  # noqa
        return {"err": "ValueError" if isinstance(e, ValueError) else type(e).__name__, "wrote": [p for p in (oc, oe) if common.was_written(p)]}


def impl_extract(b, name, repl, want_file, d):
    from suit_generator import cmd_payload_extract
    inp, oe, op, rp = os.path.join(d, "in.suit"), os.path.join(d, "out.suit"), os.path.join(d, "payload.bin"), os.path.join(d, "repl.bin")
    for p in (oe, op):
        common.make_stale(p)
    with open(inp, "wb") as fh:
        fh.write(b)
    if repl is not None and want_file and (len(name) + len(repl)) % 3 == 0:
        rp = op          # an exchange in place: the file that brings the replacement is the file that receives the extracted payload
    if repl is not None:
        with open(rp, "wb") as fh:
            fh.write(repl)
    try:
        common.call_main(cmd_payload_extract.main, d, input_envelope=inp, output_envelope=oe, payload_name=name, output_payload_file=op if want_file else None,
                                 payload_replace_path=rp if repl is not None else None)
    except BaseException as e:  # noqa
        return {"err": type(e).__name__}
    if not common.was_written(oe):
        return {"err": "no-output-envelope"}
    return {"ok": {"envelope": open(oe, "rb").read().hex(),
                   "payload": (open(op, "rb").read().hex() if common.was_written(op) else "<file not written>") if want_file else None}}


def work(args):
    seed, index = args
    rng = random.Random(f"{seed}:{index}:c11")
    drv = common.worker_driver()
    desc, files, shape = build_tree(rng, seed, index, rng.choice([0, 1, 2, 3]), [0])
    special = []
    if rng.random() < 0.5:
        # payload names are literal text: siblings that the *pattern reading* of a name would match, and names that are not patterns at all
        special = list(rng.choice(CONFUSABLE))
        pl = desc["SUIT_Envelope_Tagged"].setdefault("suit-integrated-payloads", {})
        for k, nm in enumerate(special):
            fn = f"special{k}.bin"
            files[fn] = bytes([0xFF]) + nm.encode() + bytes(rng.randrange(0, 256) for _ in range(rng.randrange(0, 12)))
            pl[nm] = fn
    if rng.random() < 0.35:
        # a payload that exists and is empty (zero-length content is content)
        pl = desc["SUIT_Envelope_Tagged"].setdefault("suit-integrated-payloads", {})
        files["empty_payload.bin"] = b""
        pl["#empty"] = "empty_payload.bin"
        special = special + ["#empty"]
    c = suitcases.run_impl_create(desc, files)
    if "ok" not in c:
        return None
    b = bytes.fromhex(c["ok"])
    names = set()
    all_names(b, names)
    out = {"hash": hashlib.sha1(b).hexdigest(), "problems": [], "mismatches": [], "modes": []}
    with tempfile.TemporaryDirectory(prefix="verif_c11_") as d:
        # --- cache from envelope
        for it in range(3):
            dep_re, omit_re, eb = rng.choice(DEP_RES), rng.choice(OMIT_RES), rng.choice([1, 4, 8, 16, 64])
            if special and special[0] == "#app0" and it == 0:
                omit_re = ALTERNATION           # a pattern with a top-level alternation matches whole names only
            impl = impl_cache(b, eb, omit_re, dep_re, d)
            req = {"op": "extract.cache", "eb": eb, "envelope": b.hex()}
            if dep_re is not None:
                req["deps"] = [n for n in names if re.fullmatch(dep_re, n)]
            if omit_re is not None:
                req["omit"] = [n for n in names if re.fullmatch(omit_re, n)]
            model = drv.call(req)
            mode = f"cache:dep={DEP_RES.index(dep_re)}:omit={OMIT_RES.index(omit_re) if omit_re in OMIT_RES else 'alternation'}:" + ("ok" if "ok" in impl else impl["err"])
            out["modes"].append(mode)
            ci = {k: v for k, v in impl.items() if k != "wrote"}
            if ci != model:
                out["mismatches"].append({"op": "extract.cache", "options": [dep_re, omit_re, eb], "impl": _short(ci), "model": _short(model)})
            if "ok" not in impl:
                if impl.get("wrote"):
                    out["problems"].append(f"{mode}: files written although the command failed")
                continue
            is_dep = (lambda n: re.fullmatch(dep_re, n) is not None) if dep_re is not None else (lambda n: False)
            pin, lin = hierarchy(b, is_dep)
            ob = bytes.fromhex(impl["ok"]["envelope"])
            pout, lout = hierarchy(ob, is_dep)
            cache_items = drv.call({"op": "cache.read", "out": impl["ok"]["cache"]})
            if "ok" not in cache_items:
                if len(bytes.fromhex(impl["ok"]["cache"])) > 1:
                    out["problems"].append(f"{mode}: cache file is not readable")
                cached = Counter()
            else:
                cached = Counter((bytes.fromhex(i["key"]).decode(), bytes.fromhex(i["value"])) for i in cache_items["ok"] if i["key"])
            pin_flat = Counter()
            for (p, n, v), cnt in pin.items():
                pin_flat[(n, v)] += cnt
            pout_flat = Counter()
            for (p, n, v), cnt in pout.items():
                pout_flat[(n, v)] += cnt
            if pin_flat != pout_flat + cached:
                out["problems"].append(f"{mode}: payloads are not conserved between input, output envelope and cache")
            # selection: what stayed must be omitted names; what moved must not be
            if omit_re is not None:
                if any(re.fullmatch(omit_re, n) is not None for (n, v) in cached):
                    out["problems"].append(f"{mode}: a payload matching the omit pattern was moved to the cache")
                if any(re.fullmatch(omit_re, n) is None for (n, v) in pout_flat):
                    out["problems"].append(f"{mode}: a payload not matching the omit pattern stayed in the envelope")
            elif pout_flat:
                out["problems"].append(f"{mode}: payloads stayed although no omit pattern was given")
            if lin != lout:
                out["problems"].append(f"{mode}: an integer-keyed member (manifest, wrapper, severed member) changed at some level")
        # --- single payload extraction
        root, ints, strs = members(b)
        cand = [n for n, v in strs] + ["#absent"]
        for _ in range(2):
            name = rng.choice(special) if special and rng.random() < 0.7 else rng.choice(cand)
            repl = rng.choice([None, None, b"", bytes([0xFF]) + os.urandom(rng.randrange(0, 40))]) if True else None
            want_file = rng.random() < 0.6 and name != "#absent"
            impl = impl_extract(b, name, repl, want_file, d)
            req = {"op": "extract.payload", "envelope": b.hex(), "name": name}
            if repl is not None:
                req["replace"] = repl.hex()
            model = drv.call(req)
            mode = f"extract:{'replace' if repl is not None else 'remove'}:{'file' if want_file else 'nofile'}:{'present' if name != '#absent' else 'absent'}"
            out["modes"].append(mode)
            if "ok" in impl and "ok" in model:
                if impl["ok"]["envelope"] != model["ok"]["envelope"] or (want_file and impl["ok"]["payload"] != model["ok"]["payload"]):
                    out["mismatches"].append({"op": "extract.payload", "name": name, "impl": _short(impl), "model": _short(model)})
            elif ("ok" in impl) != ("ok" in model):
                out["mismatches"].append({"op": "extract.payload", "name": name, "impl": _short(impl), "model": _short(model)})
            if "ok" in impl:
                r2, ints2, strs2 = members(bytes.fromhex(impl["ok"]["envelope"]))
                if ints2 != ints:
                    out["problems"].append(f"{mode}: integer-keyed members changed")
                exp = [(n, v.data) for n, v in strs if n != name] + ([(name, repl)] if repl is not None else [])
                if [(n, v.data) for n, v in strs2] != exp:
                    out["problems"].append(f"{mode}: the remaining members are not the input's minus the extracted payload (plus the replacement)")
                if want_file and impl["ok"]["payload"] != dict((n, v.data.hex()) for n, v in strs).get(name):
                    out["problems"].append(f"{mode}: the extracted payload file differs from the member")
    out["seed"], out["index"] = seed, index
    return out


def run(tier: str, seed: int) -> int:
    common.ensure_repo_on_path()
    res = Result(PROP, tier, seed)
    st = stage_a(PROP, thorough=(tier == "thorough"))
    if not st.ok_driver:
        return finish(res, st, RULE, NOTE)
    n = 220 if tier == "quick" else 5000
    jobs = [(seed, i) for i in range(n)]
    outs = common.pmap(work, jobs, chunk=4)
    for job, o in zip(jobs, outs):
        if o is None:
            res.count("skipped")
            continue
        res.evaluations += len(o["modes"])
        res.nontrivial.add(o["hash"])
        for m in o["modes"]:
            res.count(m.split(":dep")[0] if m.startswith("extract") else m)
        for mm in o["mismatches"]:
            res.mismatches.append({**mm, "seed": job[0], "index": job[1]})
        for p in o["problems"]:
            res.spec_failures.append({"seed": job[0], "index": job[1], "what": p})
        if len(res.samples) < 4 and job[1] % 37 == 0:
            res.sample({"seed": job[0], "index": job[1], "modes": o["modes"]})
    return finish(res, st, RULE, NOTE)


def _short(x):
    s = json.dumps(x)
    return x if len(s) < 2500 else s[:2500] + "..."


def replay(payload: dict) -> int:
    common.ensure_repo_on_path()
    src = payload if "index" in payload else payload.get("first_mismatch", {})
    if "index" not in src:
        print(payload)
        return 1
    o = work((src["seed"], src["index"]))
    print(_short(o))
    bad = bool(o.get("mismatches")) or bool(o.get("problems"))
    if bad:
        print(f"VIOLATION property={PROP} replay=(given)")
    return 1 if bad else 0
