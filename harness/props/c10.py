"""C10 - DFU cache partitions are well-formed, aligned and content-preserving."""
from __future__ import annotations

import os
import tempfile

from .. import common
from ..common import Result, Driver, stage_a, finish, rng_for

PROP = "C10"
RULE = ("complete enumeration of (erase-block size, residue class of the slot length, first/later slot) plus URI "
        "head widths, padding-width boundaries (23/24, 0xFFFF), duplicates, merges and random sequences of up to 6 "
        "slots; a case is non-trivial when it yields a cache or a rejection and is counted once per distinct "
        "(operation, eb, slot list)")
NOTE = ["domain of the theorem: eb >= 1, non-empty URIs, payloads < 2^32 bytes, lengths < 2^53 (Python float ceil exact)",
        "cbor2.dumps(str) modelled as the shortest-form text-string head + UTF-8 bytes; cbor2.loads of the cache file "
        "modelled by the verifier's own indefinite-map walker"]


def impl_from_payloads(mod, eb, slots, tmp):
    try:
        cache = mod.CachePartition(eb)
        for u, p in slots:
            cache.add_cache_slot(u, p)
        cache.close_and_save_cache(tmp)
        with open(tmp, "rb") as fh:
            return {"ok": fh.read().hex()}
    except Exception as e:  # noqa
        return common.impl_err(e)


def impl_cli_from_payloads(eb, slots, d):
    """through the CLI entry point (cmd_cache_create.main) with real files"""
    from suit_generator import cmd_cache_create as mod

    inputs = []
    for i, (u, p) in enumerate(slots):
        f = os.path.join(d, f"p{i}.bin")
        with open(f, "wb") as fh:
            fh.write(p)
        inputs.append(f"{u},{f}")
    out = os.path.join(d, "cache.bin")
    common.make_stale(out)
    try:
        common.call_main(mod.main, d, cache_create_subcommand="from_payloads", eb_size=eb, input=inputs, output_file=out)
        with open(out, "rb") as fh:
            return {"ok": fh.read().hex()}
    except Exception as e:  # noqa
        r = common.impl_err(e)
        if common.was_written(out):
            r["wrote"] = True            # a refused run must leave the output path as it found it
        return r


def impl_merge(eb, files, d):
    from suit_generator import cmd_cache_create as mod

    paths = []
    for i, b in enumerate(files):
        f = os.path.join(d, f"c{i}.bin")
        if (len(b) + i) % 5 == 0:
            # a file name is taken literally: one that holds shell pattern characters, next to a file the name read as a pattern would match (C10-o)
            with open(f, "wb") as fh:
                fh.write(bytes.fromhex("bf656465636f795a0000000100ff"))
            f = os.path.join(d, [f"c[{i}].bin", f"c?{i}.bin".replace("?", "") + "", f"c{i}*.bin"][(len(b) // 5) % 3]) if (len(b) // 5) % 3 != 1 else os.path.join(d, f"c[{i}-{i}].bin")
        with open(f, "wb") as fh:
            fh.write(b)
        paths.append(f)
    out = os.path.join(d, "merged.bin")
    in_place = len(paths) >= 1 and (sum(len(b) for b in files) + len(files)) % 4 == 0       # the output names the first input file itself
    if in_place:
        out = paths[0]
    else:
        common.make_stale(out)
    try:
        common.call_main(mod.main, d, cache_create_subcommand="merge", eb_size=eb, input=paths, output_file=out)
        with open(out, "rb") as fh:
            return {"ok": fh.read().hex()}
    except Exception as e:  # noqa
        r = common.impl_err(e)
        if (open(out, "rb").read() != files[0]) if in_place else common.was_written(out):
            r["wrote"] = True
        return r


def payload(n, salt=0):
    """deterministic content over the whole byte range; every third payload ends in a byte that means something in a cache file
    (0xFF terminator, 0x00 padding, 0x60 empty key, 0x5A length head, 0xBF map start)"""
    b = bytearray(((i * 31 + salt * 7 + 1) % 256) for i in range(n))
    if n and (n + salt) % 3 == 0:
        b[-1] = [0xFF, 0x00, 0xFF, 0x60, 0x5A, 0xBF][(n // 3 + salt) % 6]
    return bytes(b)


def gen_cases(tier, rng):
    """yield (kind, eb, slots) ; slots = [(uri, payload bytes)]"""
    max_eb = 64 if tier == "quick" else 512
    ebs = list(range(1, max_eb + 1)) + [1 << k for k in range(7, 17) if (1 << k) > max_eb]
    # complete residue plane: single (first) slot and second slot, for each residue of the unpadded slot length
    for eb in ebs:
        residues = range(eb) if eb <= max_eb else sorted(set([0, 1, 2, 3, 22, 23, 24, 25, 26, 27, eb // 2, eb - 27, eb - 26, eb - 25, eb - 24, eb - 23, eb - 4, eb - 3, eb - 2, eb - 1]))
        for r in residues:
            if r < 0:
                continue
            # first slot: 1 (BF) + 3 (uri "#a": 62 23 61) + 5 + n ; choose n so that length % eb == r
            n = (r - 9) % eb
            yield ("payloads", eb, [("#a", payload(n, r))])
            # later slot: 3 + 5 + n
            n2 = (r - 8) % eb
            yield ("payloads", eb, [("#a", payload(3, r)), ("#b", payload(n2, r + 1))])
    # URI head widths
    for ulen in [1, 22, 23, 24, 25, 255, 256, 257, 65535, 65536]:
        for eb in [1, 7, 16, 512]:
            yield ("payloads", eb, [("u" * ulen, payload(5)), ("#z", payload(2))])
    # non-ASCII URIs
    yield ("payloads", 16, [("file://é中\U0001f600", payload(9)), ("#b", b"")])
    # padding-size boundaries: pad = 22,23,24,25 and 0xFFFE..0x10001 and beyond
    for eb in [25, 26, 27, 28, 29, 30, 31, 32, 33, 64, 100]:
        for pad in [2, 21, 22, 23, 24, 25, 26]:
            if pad < eb:
                n = (eb - pad - 9) % eb
                yield ("payloads", eb, [("#a", payload(n))])
    for eb in [65535, 65536, 65537, 65538, 65539, 65540, 70000, 131072]:
        for pad in [2, 23, 24, 65533, 65534, 65535, 65536, 65537, eb - 1, eb - 2]:
            if 0 < pad < eb:
                n = (eb - pad - 9) % eb
                yield ("payloads", eb, [("#a", payload(n))])
                yield ("payloads", eb, [("#a", payload(1)), ("#b", payload((eb - pad - 8) % eb))])
        # residue 1: pad becomes eb + 1 -> above 0xFFFF for eb >= 65535
        yield ("payloads", eb, [("#a", payload((eb - 1 - 9) % eb))])
    # rejections
    yield ("payloads", 16, [("#a", b"\x01"), ("#a", b"\x02")])
    yield ("payloads", 16, [("#a", b"\x01"), ("#b", b"\x02"), ("#a", b"\x03")])
    yield ("payloads", 0, [("#a", b"\x01")])
    # empty payloads, many slots
    yield ("payloads", 4, [(f"#{i}", b"") for i in range(6)])
    # CLI path
    for eb in [1, 2, 3, 16, 17]:
        yield ("cli", eb, [("#app", payload(40)), ("http://x/y", payload(eb + 1)), ("z", b"")])
    # random sequences of up to 6 slots
    nrand = 1500 if tier == "quick" else 20000
    for _ in range(nrand):
        eb = rng.choice([1, 2, 3, 4, 5, 7, 8, 9, 15, 16, 17, 31, 32, 33, 64, 127, 128, 129, 255, 256, 257, 512, 1024, 4096])
        k = rng.randint(1, 6)
        slots = []
        for i in range(k):
            ulen = rng.choice([1, 2, 3, 5, 22, 23, 24, 30])
            uri = "".join(rng.choice("abc#/:._%20+") for _ in range(ulen)) + str(i)
            if rng.random() < 0.03 and slots:
                uri = slots[0][0]  # duplicate
            n = rng.choice([0, 1, 2, rng.randint(0, 3 * eb + 5), rng.randint(0, 70)])
            slots.append((uri, payload(n, i)))
        yield ("payloads", eb, slots)
    # merges
    nmerge = 300 if tier == "quick" else 4000
    for _ in range(nmerge):
        eb_out = rng.choice([1, 2, 4, 8, 16, 32, 33, 64, 256])
        files = []
        used = 0
        for f in range(rng.randint(1, 4)):
            eb_in = rng.choice([1, 3, 8, 16, 64])
            slots = []
            for i in range(rng.randint(1, 3)):
                uri = f"#f{used}"
                used += 1
                if rng.random() < 0.04 and used > 1:
                    uri = "#f0"
                slots.append((uri, payload(rng.randint(0, 2 * eb_in + 30), used)))
            files.append((eb_in, slots))
        yield ("merge", eb_out, files)


def run(tier: str, seed: int) -> int:
    common.ensure_repo_on_path()
    st = stage_a(PROP, thorough=(tier == "thorough"))
    res = Result(PROP, tier, seed)
    if not st.ok_driver:
        return finish(res, st, RULE, NOTE)
    from suit_generator import cmd_cache_create as mod

    rng = rng_for(seed, PROP)
    drv = Driver()
    with tempfile.TemporaryDirectory(prefix="verif_c10_") as d:
        tmp = os.path.join(d, "out.bin")
        batch = []   # (case descriptor, impl result, expected slots or None, eb)
        for kind, eb, payload_spec in gen_cases(tier, rng):
            if kind in ("payloads", "cli"):
                slots = payload_spec
                impl = impl_from_payloads(mod, eb, slots, tmp) if kind == "payloads" else impl_cli_from_payloads(eb, slots, d)
                jslots = [[u, p.hex()] for u, p in slots]
                req = {"op": "cache.from_payloads", "eb": eb, "slots": jslots}
                batch.append((kind, eb, jslots, impl, req, jslots))
            else:
                files = []
                allslots = []
                okfiles = True
                for eb_in, slots in payload_spec:
                    r = impl_from_payloads(mod, eb_in, slots, tmp)
                    if "ok" not in r:
                        okfiles = False
                        break
                    files.append(r["ok"])
                    allslots += [[u, p.hex()] for u, p in slots]
                if not okfiles:
                    continue
                impl = impl_merge(eb, [bytes.fromhex(f) for f in files], d)
                req = {"op": "cache.merge", "eb": eb, "files": files}
                batch.append((kind, eb, files, impl, req, allslots))
        models = drv.batch([b[4] for b in batch])
        # direct check of the property on the implementation's bytes
        creqs = []
        cidx = []
        for i, (kind, eb, desc, impl, req, expslots) in enumerate(batch):
            if "ok" in impl:
                creqs.append({"op": "cache.check", "eb": eb, "slots": expslots, "out": impl["ok"]})
                cidx.append(i)
        checks = drv.batch(creqs)
        chk = {i: c["ok"] for i, c in zip(cidx, checks)}
        for i, (kind, eb, desc, impl, req, expslots) in enumerate(batch):
            model = models[i]
            res.case([kind, eb, desc])
            res.count(f"kind:{kind}")
            res.count("outcome:" + ("ok" if "ok" in impl else impl["err"]))
            if "ok" in impl:
                nslots = len(expslots)
                res.count(f"slots:{nslots}")
            if i % 997 == 0:
                res.sample({"op": req["op"], "eb": eb, "slots": [[u, f"{len(p)//2} bytes"] for u, p in expslots][:6],
                            "impl": (impl.get("ok", "")[:48] + "...") if "ok" in impl else impl})
            wrote = impl.pop("wrote", False) if isinstance(impl, dict) else False
            if wrote:
                res.spec_failures.append({"op": req["op"], "request": _short(req), "impl": impl,
                                          "what": "the command failed but wrote to the output path (a refused run must not leave or replace a cache file)"})
            if impl != model:
                res.mismatches.append({"op": req["op"], "request": _short(req), "impl": _short(impl), "model": _short(model)})
            if i in chk and not chk[i]:
                # in the domain of the property? (non-empty URIs, at least one slot)
                if expslots and all(u for u, _ in expslots):
                    res.spec_failures.append({"op": req["op"], "request": req, "impl_output": impl["ok"],
                                              "what": "Cache.check (Spec.C10) is false on the file the implementation wrote"})
    from_envelope_cases(res, drv, tier, rng)
    cli_cases(res, drv, tier)
    drv.close()
    res.exhaustive = True
    res.notes["exhaustive_scope"] = ("every eb in 1..%d x every residue class x {first, later slot}; the remaining streams are sampled"
                                     % (64 if tier == "quick" else 512))
    return finish(res, st, RULE, NOTE)


def cli_cases(res, drv, tier):
    """cache_create from_payloads / merge through the real command line: --eb-size as written, URI,file pairs with commas in neither part"""
    import tempfile
    from concurrent.futures import ThreadPoolExecutor
    slots = [("#app", payload(40, 1)), ("http://x/y?a=b", payload(17, 2)), ("z", b""), ("http://example.com/fw%20v1.bin", payload(9, 3)),
             ("file://a%2Fb.bin", payload(3, 4)), ("file://a/b.bin", payload(4, 5)), ("radio%2Bcore+x.bin", payload(5, 6)), ("100%", payload(6, 7)), ("é%C3%A9", payload(7, 8))]
    cases = [("from_payloads", eb) for eb in (1, 4, 8, 10, 16, 100, 256, 4096, "08", "016", "+4", "0100")] + [("merge", eb) for eb in (1, 8, 10, 100)] + [("default", None)]
    with tempfile.TemporaryDirectory(prefix="verif_c10cli_") as d:
        inputs = []
        for i, (u, pdata) in enumerate(slots):
            f = os.path.join(d, f"p{i}.bin")
            open(f, "wb").write(pdata)
            inputs += ["--input", f"{u},{f}"]
        a, b = os.path.join(d, "a.bin"), os.path.join(d, "b.bin")
        ma = drv.call({"op": "cache.from_payloads", "eb": 8, "slots": [[u, pdata.hex()] for u, pdata in slots[:2]]})["ok"]
        mb = drv.call({"op": "cache.from_payloads", "eb": 16, "slots": [[u, pdata.hex()] for u, pdata in slots[2:]]})["ok"]
        open(a, "wb").write(bytes.fromhex(ma))
        open(b, "wb").write(bytes.fromhex(mb))

        def one(k):
            sub, eb = cases[k]
            out = os.path.join(d, f"out{k}.bin")
            common.make_stale(out)
            if sub == "merge":
                args = ["cache_create", "merge", "--input", a, "--input", b, "--output-file", out, "--eb-size", str(eb)]
            else:
                args = ["cache_create", "from_payloads"] + inputs + ["--output-file", out] + (["--eb-size", str(eb)] if eb is not None else [])
            rc, log = common.run_cli(args, d)
            return rc, log, (open(out, "rb").read() if common.was_written(out) else None)
        with ThreadPoolExecutor(max_workers=12) as ex:
            outs = list(ex.map(one, range(len(cases))))
        # a payload that is not a regular file (a named pipe, as with process substitution or /dev/stdin): its content is what is read from it
        import threading
        import time as _t
        fifo = os.path.join(d, "payload.fifo")
        os.mkfifo(fifo)
        pdata = payload(5000, 9)

        def feed():
            t0 = _t.time()
            while _t.time() - t0 < 30:
                try:
                    fd = os.open(fifo, os.O_WRONLY | os.O_NONBLOCK)
                except OSError:
                    _t.sleep(0.05)
                    continue
                try:
                    os.set_blocking(fd, True)
                    view = memoryview(pdata)
                    while view:
                        view = view[os.write(fd, view):]
                except OSError:
                    pass
                finally:
                    os.close(fd)
                return
        th = threading.Thread(target=feed, daemon=True)
        th.start()
        fout = os.path.join(d, "out_fifo.bin")
        rc_f, log_f = common.run_cli(["cache_create", "from_payloads", "--input", f"#piped,{fifo}", "--input", f"#plain,{os.path.join(d, 'p0.bin')}", "--output-file", fout,
                                      "--eb-size", "8"], d)
        th.join(35)
        res.case(["cli-cache", "named-pipe"], nontrivial=True)
        res.count("cli:from_payloads:named-pipe")
        fdata = open(fout, "rb").read() if os.path.exists(fout) else None
        if rc_f != 0 or fdata is None:
            res.spec_failures.append({"cli": "cache_create from_payloads", "what": f"a payload given as a named pipe: the command line failed (exit {rc_f})", "log": log_f[-300:]})
        else:
            cf = drv.call({"op": "cache.check", "eb": 8, "slots": [["#piped", pdata.hex()], ["#plain", slots[0][1].hex()]], "out": fdata.hex()})["ok"]
            if not cf:
                items = drv.call({"op": "cache.read", "out": fdata.hex()})
                sizes = [[bytes.fromhex(i["key"]).decode(), len(i["value"]) // 2] for i in items.get("ok", []) if i.get("key")] if "ok" in items else None
                res.spec_failures.append({"cli": "cache_create from_payloads", "supplied_bytes": len(pdata), "slots_in_cache": sizes,
                                          "what": "a payload read from a named pipe is not stored with the content that was supplied"})
    for (sub, eb), (rc, log, data) in zip(cases, outs):
        res.case(["cli-cache", sub, eb], nontrivial=True)
        res.count("cli:" + sub)
        eff = 16 if eb is None else int(eb)       # documented default erase-block size; the option is a plain decimal integer
        jslots = [[u, pdata.hex()] for u, pdata in slots]
        if rc != 0 or data is None:
            res.spec_failures.append({"cli": "cache_create " + sub, "eb": eb, "what": f"the command line failed (exit {rc})", "log": log[-300:]})
            continue
        c = drv.call({"op": "cache.check", "eb": eff, "slots": jslots, "out": data.hex()})["ok"]
        if not c:
            res.spec_failures.append({"cli": "cache_create " + sub, "eb": eb, "output": data.hex()[:400],
                                      "what": f"the file written through the command line does not satisfy Spec.C10 for erase-block size {eff}"})


def from_envelope_cases(res, drv, tier, rng):
    """cache_create from_envelope: hierarchies with several dependency envelopes next to each other; every payload of every level lands in the
    cache exactly once (in the order met), the file is one well-formed aligned map"""
    import tempfile
    from collections import Counter
    from .. import suitio
    from .c11 import impl_cache
    for j in range(8 if tier == "quick" else 80):
        ndeps = 2 + j % 4

        def leaf(t, depth=0):
            e = {"SUIT_Envelope_Tagged": {
                "suit-authentication-wrapper": {"SuitDigest": {"suit-digest-algorithm-id": "cose-alg-sha-256"}},
                "suit-manifest": {"suit-manifest-version": 1, "suit-manifest-sequence-number": t + 1},
                "suit-integrated-payloads": {f"#img{j}_{t}_{u}": payload(5 + u + t, t).hex() for u in range(1 + t % 2)}}}
            if depth == 0 and t % 3 == 0:
                e["SUIT_Envelope_Tagged"]["suit-integrated-dependencies"] = {f"dep_inner{j}_{t}.suit": leaf(t + 10, 1)}
                if j % 2 == 1:
                    del e["SUIT_Envelope_Tagged"]["suit-integrated-payloads"]     # a middle level that integrates nothing but a dependency envelope
            return e
        names = [f"dep_{chr(97 + t)}{j}.suit" for t in range(ndeps)]
        members = {}
        order = ["deps-first", "payload-first", "deps-only", "payload-between"][j % 4] if j < 8 else rng.choice(["deps-first", "payload-first", "payload-between", "deps-only"])
        desc = {"SUIT_Envelope_Tagged": {"suit-authentication-wrapper": {"SuitDigest": {"suit-digest-algorithm-id": "cose-alg-sha-256"}},
                                         "suit-manifest": {"suit-manifest-version": 1, "suit-manifest-sequence-number": 9}}}
        deps = {nm: leaf(t) for t, nm in enumerate(names)}
        pl = {f"#root{j}": payload(9, j).hex()}
        # names that merely *begin* like a name the expressions select: expressions match whole names (C10-r)
        pl[f"#root{j}_recovery"] = payload(11, j + 1).hex()
        pl[f"dep_a{j}.suit.sig"] = payload(13, j + 2).hex()
        if order == "deps-only":
            desc["SUIT_Envelope_Tagged"]["suit-integrated-dependencies"] = deps       # the root integrates dependency envelopes only
        elif order == "deps-first":
            desc["SUIT_Envelope_Tagged"]["suit-integrated-dependencies"] = deps
            desc["SUIT_Envelope_Tagged"]["suit-integrated-payloads"] = pl
        else:
            desc["SUIT_Envelope_Tagged"]["suit-integrated-payloads"] = pl
            desc["SUIT_Envelope_Tagged"]["suit-integrated-dependencies"] = deps
        dup_levels = (j % 4 == 2)
        if dup_levels:
            # one URI at two levels of the hierarchy (or in two sibling dependency envelopes): a cache holds a URI once - the run is refused, as
            # it is for a duplicate within one level (C10-t)
            first_dep = deps[names[0]]["SUIT_Envelope_Tagged"]
            first_dep.setdefault("suit-integrated-payloads", {})[f"#root{j}"] = payload(7, j + 5).hex()
            if ndeps >= 2:
                deps[names[1]]["SUIT_Envelope_Tagged"].setdefault("suit-integrated-payloads", {})[f"#shared{j}"] = payload(6, j + 6).hex()
                first_dep["suit-integrated-payloads"][f"#shared{j}"] = payload(8, j + 7).hex()
        created = suitio.impl_create(desc)
        if "ok" not in created:
            continue
        b = bytes.fromhex(created["ok"])
        eb = rng.choice([1, 4, 8, 16, 64])
        dep_re = r"dep_.*\.suit" if j % 2 == 0 else r"dep_[a-z]\d+\.suit|dep_inner\d+_\d+\.suit"
        # the omit expression says which *payloads* stay in the envelope; that it also matches the name of a dependency envelope does not keep the
        # dependency from being descended into
        omit_re = [None, r"[^#].*", r"dep_a.*|#img.*_0", r"#root\d+", r".*\.suit|#root.*", r"#root%d|#img%d_0_0" % (j, j), None][j % 7]
        with tempfile.TemporaryDirectory(prefix="verif_c10e_") as d:
            impl = impl_cache(b, eb, omit_re, dep_re, d)
        all_names = names + [f"dep_inner{j}_{t}.suit" for t in range(ndeps)]
        req = {"op": "extract.cache", "eb": eb, "envelope": b.hex(), "deps": all_names}

        def omitted(n):
            import re
            return omit_re is not None and re.fullmatch(omit_re, n) is not None
        if omit_re is not None:
            payload_names = set()

            def walk_names(e):
                payload_names.update((e["SUIT_Envelope_Tagged"].get("suit-integrated-payloads") or {}).keys())
                for v in (e["SUIT_Envelope_Tagged"].get("suit-integrated-dependencies") or {}).values():
                    walk_names(v)
            walk_names(desc)
            req["omit"] = [n for n in sorted(payload_names | set(all_names)) if omitted(n)]
        model = drv.call(req)
        res.case(["from-envelope", j, ndeps, order, eb, omit_re], nontrivial=True)
        res.count("kind:from_envelope")
        ci = {k: v for k, v in impl.items() if k != "wrote"}
        if ci != model:
            res.mismatches.append({"op": "extract.cache", "request": {"eb": eb, "deps": ndeps, "order": order}, "impl": _short(ci), "model": _short(model)})
        if dup_levels and omit_re is None:
            res.count("kind:from_envelope:duplicate-uri-across-levels")
            if "ok" in impl:
                res.spec_failures.append({"op": "cache_create from_envelope", "deps": ndeps, "order": order,
                                          "what": "one URI occurs at two levels of the hierarchy and the cache was written all the same (two slots under one URI)"})
            continue
        if dup_levels:
            continue
        if "ok" not in impl:
            res.spec_failures.append({"op": "cache_create from_envelope", "deps": ndeps, "impl": impl, "what": "from_envelope failed on a valid hierarchy"})
            continue
        items = drv.call({"op": "cache.read", "out": impl["ok"]["cache"]})
        if "ok" not in items:
            res.spec_failures.append({"op": "cache_create from_envelope", "deps": ndeps, "what": "the cache written from an envelope is not a well-formed cache map"})
            continue
        got = Counter((bytes.fromhex(i["key"]).decode(), i["value"]) for i in items["ok"] if i["key"])
        exp = Counter()

        def collect(e):
            for n, v in (e["SUIT_Envelope_Tagged"].get("suit-integrated-payloads") or {}).items():
                if not omitted(n):
                    exp[(n, v)] += 1
            for n, v in (e["SUIT_Envelope_Tagged"].get("suit-integrated-dependencies") or {}).items():
                collect(v)
        collect(desc)
        if got != exp:
            res.spec_failures.append({"op": "cache_create from_envelope", "deps": ndeps, "order": order,
                                      "missing": sorted(k[0] for k in (exp - got)), "unexpected": sorted(k[0] for k in (got - exp)),
                                      "what": "the cache does not hold exactly the payloads of all levels of the hierarchy"})
        for it in items["ok"]:
            if it["key"] and it["offset"] > 1 and it["offset"] % eb != 0:
                res.spec_failures.append({"op": "cache_create from_envelope", "slot": bytes.fromhex(it["key"]).decode(), "offset": it["offset"], "eb": eb,
                                          "what": "a slot written from an envelope does not start at a multiple of the erase-block size"})


def _short(x):
    import json
    s = json.dumps(x)
    return x if len(s) < 2000 else s[:2000] + "..."


def replay(payload: dict) -> int:
    common.ensure_repo_on_path()
    from suit_generator import cmd_cache_create as mod
    import json

    req = payload.get("request") or payload.get("first_mismatch", {}).get("request")
    if not isinstance(req, dict):
        print(json.dumps(payload, indent=1)[:3000])
        return 1
    drv = Driver()
    with tempfile.TemporaryDirectory() as d:
        if req["op"] == "cache.from_payloads":
            impl = impl_from_payloads(mod, req["eb"], [(u, bytes.fromhex(p)) for u, p in req["slots"]], os.path.join(d, "o.bin"))
            exp = req["slots"]
        else:
            impl = impl_merge(req["eb"], [bytes.fromhex(f) for f in req["files"]], d)
            exp = None
        model = drv.call(req)
        print("impl :", _short(impl))
        print("model:", _short(model))
        bad = impl != model
        if "ok" in impl and exp is not None:
            c = drv.call({"op": "cache.check", "eb": req["eb"], "slots": exp, "out": impl["ok"]})
            print("Spec.C10 on implementation output:", c["ok"])
            bad = bad or not c["ok"]
    drv.close()
    if bad:
        print(f"VIOLATION property={PROP} replay=(given)")
    return 1 if bad else 0
