"""C12 - MPI records and merged MPI areas have the exact device layout."""
from __future__ import annotations

import os
import tempfile

from .. import common
from ..common import Result, Driver, stage_a, finish, rng_for

PROP = "C12"
RULE = ("mpi generate: all 2x2x3 policies (+ an unsupported policy) x names (ASCII, non-ASCII, empty, long) x addresses incl. 64 KiB "
        "crossings x sizes around 48; mpi merge: sets of up to 8 records inside / on the border of / outside / overlapping the area; "
        "through cmd_mpi.main with real files, hex read back with the verifier's reader; distinct = distinct argument tuple")
NOTE = ["domain: reserved size >= 48 (smaller sizes: the record is written unpadded; compared with the model, not judged)",
        "intelhex writer/reader for the tool's own files is not modelled: every file is read back with IHex.read; SHA-256 and SHA-1 of the "
        "driver are compared with hashlib through the byte-for-byte comparison of each case"]

NAMES = ["nordicsemi.com", "nRF54H20_sample_root", "", "a", "é中\U0001f600", "x" * 300, "test_vendor", "cls with space",
         # a name is a name, whatever it looks like: text UUIDs in every spelling, hex digests / serial numbers, numbers
         "7d9f1e2a-4b3c-4d5e-8f60-a1b2c3d4e5f6", "41516ed3046dd96f91a47b2835984dda", "urn:uuid:7d9f1e2a-4b3c-4d5e-8f60-a1b2c3d4e5f6",
         "{7d9f1e2a-4b3c-4d5e-8f60-a1b2c3d4e5f6}", "6BA7B8109DAD11D180B400C04FD430C8", "0x10", "0100", " padded ", "None"]


def impl_generate(vendor, cls, address, size, dp, iu, sv, d):
    from suit_generator import cmd_mpi

    out = os.path.join(d, "mpi.hex")
    common.make_stale(out)
    try:
        common.call_main(cmd_mpi.main, d, mpi="generate", output_file=out, vendor_name=vendor, class_name=cls, address=address, size=size,
                     downgrade_prevention_enabled=dp, independent_updates=iu, signature_verification=sv)
        return {"ok": open(out).read()}
    except BaseException as e:  # noqa
        return common.impl_err(e)


def impl_merge(address, size, files, d, prior_text=None):
    from suit_generator import cmd_mpi

    out = os.path.join(d, "merged.hex")
    if prior_text is not None:
        with open(out, "w") as fh:      # the output of an earlier, related run is in place (a rebuild into the same build directory)
            fh.write(prior_text)
    else:
        common.make_stale(out)
    paths = []
    for i, t in enumerate(files):
        p = os.path.join(d, f"in{i}.hex")
        with open(p, "w") as fh:
            fh.write(t)
        paths.append(p)
    try:
        common.call_main(cmd_mpi.main, d, mpi="merge", output_file=out, address=address, size=size, file=paths)
        return {"ok": open(out).read()}
    except BaseException as e:  # noqa
        return common.impl_err(e)


def gen_generate(tier, rng):
    for dp in (False, True):
        for iu in (False, True):
            for sv in (None, "update", "update-and-boot"):
                for (v, c) in [("nordicsemi.com", "nRF54H20_sample_root"), ("é中", ""), ("", "x" * 300)]:
                    for (addr, size) in [(0x0E1E9000, 48), (0xFFE0, 64), (0x0E1E7F00, 0x100), (0, 49)]:
                        yield (v, c, addr, size, dp, iu, sv)
    yield ("a", "b", 0x1000, 48, True, True, "bogus")
    for size in [0, 1, 47, 48, 49, 100, 4096]:
        yield ("nordicsemi.com", "cls", 0x2000, size, False, True, "update")
    n = 100 if tier == "quick" else 5000
    for _ in range(n):
        yield (rng.choice(NAMES), rng.choice(NAMES), rng.choice([0, 0xFFD0, 0xFFF8, 0x10000, 0x0E1E9000, 0xFFFFF000, rng.randrange(0, 1 << 31)]),
               rng.choice([48, 49, 64, 128, 256, rng.randint(48, 300)]), rng.random() < 0.5, rng.random() < 0.5,
               rng.choice([None, "update", "update-and-boot"]))


def gen_merge(tier, rng):
    n = 250 if tier == "quick" else 6000
    for k in range(n):
        address = rng.choice([0x0E1E9000, 0xFF00, 0x10000 - 96, 0x2000, 0, 0, 0xFFFFF000])      # an area at address 0 is an area
        size = rng.choice([96, 144, 240, 384, 1024])
        if k % 3 == 2:
            # an area ends where it ends: sizes and addresses that are no multiple of a word (the digest follows the last byte of the area)
            size = rng.choice([97, 98, 99, 150, 241, 49, 145])
            address = rng.choice([0x0E1E9000, 0x2001, 0xFF02, 0x10000 - 99, 3, 0x2000])
        recs = []
        nrec = rng.randint(0, 8)
        mode = rng.choice(["inside", "inside", "inside", "border", "outside", "overlap"])
        slots = list(range(0, size - 47, 48))
        rng.shuffle(slots)
        for j in range(min(nrec, len(slots))):
            recs.append((address + slots[j], rng.choice([48, 48, 40, 20])))
        if mode == "border" and recs:
            recs[-1] = (address + size - 48, 48)
            recs = list(dict.fromkeys(recs))
        elif mode == "outside":
            recs.append(rng.choice([c for c in [(address - 1, 48), (address + size - 47, 48), (address + size, 48), (address - 48, 48)] if c[0] >= 0]))
        elif mode == "overlap" and recs:
            a0 = recs[0][0]
            recs.append((a0 + rng.choice([0, 1, 47]), 48))
        if k % 9 == 4 and size >= 240:
            # reserved sizes above 48: records whose reserved ranges overlap only in the 0xFF padding of the lower one still overlap (C12-o)
            mode = "overlap-padding"
            big = rng.choice([100, 120, 128])
            recs = [(address, big), (address + rng.choice([48, 64, big - 1]), big)]
            rng.shuffle(recs)
        yield (address, size, recs, mode)


def cli_cases(res, drv, tier):
    """mpi generate through the real command line: address and size written in decimal and in hexadecimal"""
    import tempfile
    from concurrent.futures import ThreadPoolExecutor
    cases = []
    for n in ([4096, 65536, 236883968, 10000000, 0] if tier == "quick" else common.CLI_NUMBERS + [236883968]):
        for sp in common.spellings(n)[: (2 if tier == "quick" else 4)]:
            cases.append(("address", n, sp))
    for n in (48, 64, 100, 256, 75, 91, 107, 0xAB, 0x4D, 0x4F):     # also sizes whose hexadecimal spelling ends in a letter a unit suffix could claim (C12-s)
        for sp in common.spellings(n)[:3]:
            cases.append(("size", n, sp))
    # names are option *values*: whatever character they begin with (argparse has opinions about some)
    for nm in ("@home_sensor", "+plus", "%x", "~tilde", "=eq", ":colon", "#hash"):
        cases.append(("class", nm, nm))
        cases.append(("vendor", nm, nm))
    with tempfile.TemporaryDirectory(prefix="verif_c12cli_") as d:
        def one(k):
            which, n, sp = cases[k]
            out = os.path.join(d, f"m{k}.hex")
            common.make_stale(out)
            rc, log = common.run_cli(["mpi", "generate", "--output-file", out, "--vendor-name", sp if which == "vendor" else "nordicsemi.com", "--class-name",
                                      sp if which == "class" else "cls", "--address", sp if which == "address" else "0x1000", "--size", sp if which == "size" else "48"], d)
            return rc, log, (open(out).read() if common.was_written(out) else None)
        with ThreadPoolExecutor(max_workers=12) as ex:
            outs = list(ex.map(one, range(len(cases))))
    for (which, n, sp), (rc, log, text) in zip(cases, outs):
        res.case(["cli-mpi", which, n, sp], nontrivial=True)
        res.count("cli:mpi:" + which)
        m = drv.call({"op": "mpi.generate", "vendor": n if which == "vendor" else "nordicsemi.com", "cls": n if which == "class" else "cls",
                      "address": n if which == "address" else 0x1000, "size": n if which == "size" else 48, "dp": False, "iu": False, "sv": None})
        if rc != 0 or text is None:
            a_, s_ = (n if which == "address" else 0x1000), (n if which == "size" else 48)
            if which in ("class", "vendor"):
                a_, s_ = 0x1000, 48
            if "ok" in m and a_ + s_ <= 2 ** 32:        # a record that ends beyond the 32-bit address space cannot be written as Intel-HEX
                res.spec_failures.append({"cli": "mpi generate", "argument": [which, sp], "what": f"the command line refused {which} = {sp} (exit {rc})", "log": log[-300:]})
            continue
        img = drv.call({"op": "ihex.read", "text": text})
        if img.get("ok") != m.get("ok"):
            res.spec_failures.append({"cli": "mpi generate", "argument": [which, sp], "denotes": n,
                                      "what": f"{which} written as {sp} on the command line was not read as {n}: the image differs from that for the number"})


def run(tier: str, seed: int) -> int:
    common.ensure_repo_on_path()
    res = Result(PROP, tier, seed)
    st = stage_a(PROP, thorough=(tier == "thorough"))
    if not st.ok_driver:
        return finish(res, st, RULE, NOTE)
    rng = rng_for(seed, PROP)
    drv = Driver()
    with tempfile.TemporaryDirectory(prefix="verif_c12_") as d:
        for i, (v, c, addr, size, dp, iu, sv) in enumerate(gen_generate(tier, rng)):
            impl = impl_generate(v, c, addr, size, dp, iu, sv, d)
            req = {"op": "mpi.generate", "vendor": v, "cls": c, "address": addr, "size": size, "dp": dp, "iu": iu, "sv": sv}
            model = drv.call(req)
            res.case(["gen", v, c, addr, size, dp, iu, sv])
            res.count("generate:" + ("ok" if "ok" in impl else impl["err"]))
            res.count(f"policy:{int(dp)}{int(iu)}{sv}")
            if i % 40 == 0:
                res.sample({k: (x if not isinstance(x, str) or len(x) < 40 else x[:40] + "...") for k, x in req.items()})
            if "ok" in impl:
                img = drv.call({"op": "ihex.read", "text": impl["ok"]})
                if "ok" not in img:
                    res.spec_failures.append({"request": req, "what": "output is not a well-formed Intel-HEX file"})
                    continue
                if img != model:
                    res.mismatches.append({"op": "mpi.generate", "request": req, "impl": img, "model": model})
                if len(img["ok"]) == 1:
                    # validation of the writer model behind C12_record_file (counted in the evidence, not a verdict: the property is judged on the image)
                    wt = drv.call({"op": "ihex.write", "address": img["ok"][0][0], "data": img["ok"][0][1]})
                    res.count("writer-model:" + ("same-text" if wt.get("ok") == impl["ok"] else "other-text"))
                if size >= 48:
                    chk = drv.call({**req, "op": "mpi.check_record", "img": img["ok"]})
                    if not chk["ok"]:
                        res.spec_failures.append({"request": req, "impl_image": img, "what": "Mpi.checkRecord (Spec.C12) false on the file the implementation wrote"})
            elif impl != model:
                res.mismatches.append({"op": "mpi.generate", "request": req, "impl": impl, "model": model})
        # merges
        for i, (address, size, recs, mode) in enumerate(gen_merge(tier, rng)):
            files = []
            images = []
            for j, (a, sz) in enumerate(recs):
                if sz >= 48:
                    # every fourth set: the same record (names, policies, reserved size) provisioned in several slots - equal contents at different
                    # addresses are different inputs (C12-p)
                    jj = 0 if i % 4 == 1 else j
                    r = impl_generate("nordicsemi.com", f"class{jj}", a, sz, jj % 2 == 0, jj % 3 == 0, [None, "update", "update-and-boot"][jj % 3], d)
                    if "ok" not in r:
                        res.spec_failures.append({"request": {"vendor": "nordicsemi.com", "class": f"class{j}", "address": a, "size": sz}, "impl": r,
                                                  "what": "mpi generate failed on a valid request (while preparing the inputs of a merge)"})
                        files = None
                        break
                    text = r["ok"]
                else:
                    import intelhex, io
                    h = intelhex.IntelHex()
                    h.frombytes(bytes((j * 16 + t) % 256 for t in range(sz)), a)
                    s = io.StringIO()
                    h.write_hex_file(s)
                    text = s.getvalue()
                files.append(text)
                images.append(drv.call({"op": "ihex.read", "text": text})["ok"])
            if files is None:
                continue
            prior = None
            if i % 7 == 3 and recs and all(sz >= 48 for _, sz in recs) and address + size + 0x2000 < 2 ** 32:
                # a rebuild after the memory map moved: the output path already holds the merged area of the *same* records (names, policies,
                # sizes, offsets) at another base address - the new run must write the area at the new address (C12-r)
                delta = 0x1000
                moved = []
                for j, (a, sz) in enumerate(recs):
                    jj = 0 if i % 4 == 1 else j
                    r = impl_generate("nordicsemi.com", f"class{jj}", a + delta, sz, jj % 2 == 0, jj % 3 == 0, [None, "update", "update-and-boot"][jj % 3], d)
                    if "ok" in r:
                        moved.append(r["ok"])
                if len(moved) == len(recs):
                    pr = impl_merge(address + delta, size, moved, d)
                    if "ok" in pr:
                        prior = pr["ok"]
                        res.count("merge:into-the-output-of-a-moved-area")
            impl = impl_merge(address, size, files, d, prior_text=prior)
            req = {"op": "mpi.merge", "address": address, "size": size, "inputs": images}
            model = drv.call(req)
            res.case(["merge", address, size, recs])
            res.count("merge:" + mode + ":" + ("ok" if "ok" in impl else impl["err"]))
            if i % 50 == 0:
                res.sample({"op": "mpi.merge", "address": address, "size": size, "records": recs, "mode": mode})
            if "ok" in impl:
                img = drv.call({"op": "ihex.read", "text": impl["ok"]})
                if "ok" not in img:
                    res.spec_failures.append({"request": req, "what": "output is not a well-formed Intel-HEX file"})
                    continue
                if img != model:
                    res.mismatches.append({"op": "mpi.merge", "request": req, "impl": img, "model": model})
                wtm = drv.call({"op": "ihex.write_image", "image": img["ok"]})       # writer model behind C12_area_file (evidence counter)
                res.count("writer-model:merge:" + ("same-text" if wtm.get("ok") == impl["ok"] else "other-text"))
                chk = drv.call({"op": "mpi.check_merge", "img": img["ok"], "address": address, "size": size, "inputs": images})
                inside = all(address <= a and a + sz <= address + size for a, sz in recs)
                disjoint = all(a1 + s1 <= a2 or a2 + s2 <= a1 for x, (a1, s1) in enumerate(recs) for (a2, s2) in recs[x + 1:])
                if not (inside and disjoint):
                    res.spec_failures.append({"request": req, "records": recs, "what": "an input outside the area or overlapping another was accepted"})
                elif not chk["ok"]:
                    res.spec_failures.append({"request": req, "impl_image": img, "what": "Mpi.checkMerge (Spec.C12) false on the file the implementation wrote"})
            else:
                if not recs:
                    continue  # no inputs: minaddr() of nothing; outside the domain
                if impl != model:
                    res.mismatches.append({"op": "mpi.merge", "request": req, "impl": impl, "model": model})
                inside = all(address <= a and a + sz <= address + size for a, sz in recs)
                disjoint = all(a1 + s1 <= a2 or a2 + s2 <= a1 for x, (a1, s1) in enumerate(recs) for (a2, s2) in recs[x + 1:])
                if inside and disjoint and "ok" in model and all(sz >= 48 for _, sz in recs):
                    res.spec_failures.append({"request": req, "records": recs, "impl": impl,
                                              "what": "merge refused records written by mpi generate that lie inside the area and do not overlap"})
    cli_cases(res, drv, tier)
    drv.close()
    return finish(res, st, RULE, NOTE)


def replay(payload: dict) -> int:
    common.ensure_repo_on_path()
    req = payload.get("request") or payload.get("first_mismatch", {}).get("request")
    if not req:
        print(payload)
        return 1
    drv = Driver()
    bad = True
    with tempfile.TemporaryDirectory() as d:
        if req["op"] == "mpi.generate":
            impl = impl_generate(req["vendor"], req["cls"], req["address"], req["size"], req["dp"], req["iu"], req["sv"], d)
            model = drv.call(req)
            if "ok" in impl:
                img = drv.call({"op": "ihex.read", "text": impl["ok"]})
                chk = drv.call({**req, "op": "mpi.check_record", "img": img["ok"]})
                print("impl image:", img, "\nmodel:", model, "\nSpec.C12:", chk)
                bad = (img != model) or not chk["ok"]
            else:
                print("impl:", impl, "model:", model)
                bad = impl != model
        else:
            import intelhex, io
            files = []
            for img in req["inputs"]:
                h = intelhex.IntelHex()
                for a, b in img:
                    h.frombytes(bytes.fromhex(b), a)
                s = io.StringIO(); h.write_hex_file(s); files.append(s.getvalue())
            impl = impl_merge(req["address"], req["size"], files, d)
            model = drv.call(req)
            if "ok" in impl:
                img = drv.call({"op": "ihex.read", "text": impl["ok"]})
                chk = drv.call({"op": "mpi.check_merge", "img": img["ok"], "address": req["address"], "size": req["size"], "inputs": req["inputs"]})
                print("impl image:", img, "\nmodel:", model, "\nSpec.C12:", chk)
                bad = (img != model) or not chk["ok"]
            else:
                print("impl:", impl, "model:", model)
                bad = impl != model
    drv.close()
    if bad:
        print(f"VIOLATION property={PROP} replay=(given)")
    return 1 if bad else 0
