"""C09 - signing policy: already-signed action, key match, recursive configuration."""
from __future__ import annotations

import hashlib
import os
import json
import random
import tempfile

from .. import common, suitio, suitcases, signing, cbortree as ct
from ..common import Result, stage_a, finish, rng_for
from .c04 import strip_blocks

PROP = "C09"
RULE = ("single-level: {unsigned, singly signed} x {error, skip, remove-old} x five algorithms x matching / mismatching key types; recursive: dependency "
        "trees up to depth 3 with per-node configuration (own key and key id, algorithm inherited or overridden, omit-signing with and without a key, "
        "already-signed action per node), plus configurations naming an absent dependency or a non-envelope payload. Through cmd_sign.main with the real sign "
        "script and file KMS. Each case: model vs real outcome/bytes; policy outcome checked directly; every level of a recursive result verified with that "
        "node's public key; unnamed members and all manifests compared byte-for-byte. distinct = distinct (envelope tree, configuration)")
NOTE = ["signature primitives are parameters of the model; KMS calls are recorded and replayed to the model",
        "environment-variable defaults for sign-script / kms-script (NCS_SUIT_*, ZEPHYR_BASE) are not modelled: scripts are given explicitly at the root and inherited"]


def member_map(b: bytes):
    root = ct.decode(b)
    return root, {(k.major, k.arg if k.major == 0 else k.data): v for k, v in root.children[0].children}


def wrapper_list(root):
    for k, v in root.children[0].children:
        if k.major == 0 and k.arg == 2:
            return ct.decode(v.data).children
    return None


def is_sign1(item):
    if item.major != 2:
        return False
    try:
        t = ct.decode(item.data)
    except Exception:
        return False
    return t.major == 6 and t.arg == 18


def sig_message(prot: bytes, digest_bstr_content: bytes) -> bytes:
    return ct.encode(ct.arr([ct.tstr("Signature1"), ct.bstr(prot), ct.bstr(b""), ct.bstr(digest_bstr_content)]))


def check_block(block_item, digest_item, key, alg, key_id):
    """the new block verifies with `key` over its own protected header and this level's digest, and names key_id"""
    t = ct.decode(block_item.data)
    arr = t.children[0].children
    prot = arr[0].data
    pm = ct.decode(prot)
    hdr = {k.arg: v for k, v in pm.children}
    problems = []
    a = hdr[1]
    cose = a.arg if a.major == 0 else -1 - a.arg
    if cose != signing.COSE[alg]:
        problems.append("protected header carries the wrong algorithm")
    kid = ct.decode(hdr[4].data)
    kidv = kid.arg if kid.major == 0 else -1 - kid.arg
    if kidv != key_id:
        problems.append(f"key id {kidv} != configured {key_id}")
    if not signing.verify(key, alg, sig_message(prot, digest_item.data), arr[3].data):
        problems.append("signature does not verify with this node's key over this node's digest")
    return problems


def check_tree(inp: bytes, out: bytes, cfg: dict, inherited_alg: str, path: str, problems: list):
    ri, mi = member_map(inp)
    ro, mo = member_map(out)
    alg = cfg.get("alg", inherited_alg)
    deps = cfg.get("dependencies", {})
    if [k for k in mi] != [k for k in mo]:
        problems.append(f"{path}: members added, removed or reordered")
        return
    for key in mi:
        if key == (0, 2):
            continue
        if key[0] == 3 and key[1].decode() in deps:
            check_tree(mi[key].data, mo[key].data, deps[key[1].decode()], alg, path + "/" + key[1].decode(), problems)
            continue
        if ct.encode(mi[key]) != ct.encode(mo[key]):
            problems.append(f"{path}: member {key} changed")
    wi, wo = wrapper_list(ri), wrapper_list(ro)
    if ct.encode(wi[0]) != ct.encode(wo[0]):
        problems.append(f"{path}: digest changed")
    if cfg.get("omit-signing"):
        if [ct.encode(x) for x in wi] != [ct.encode(x) for x in wo]:
            problems.append(f"{path}: omit-signing node was modified")
        return
    action = cfg.get("already-signed-action", "error")
    old = [x for x in wi[1:] if is_sign1(x)]
    if old and action == "skip":
        if [ct.encode(x) for x in wi] != [ct.encode(x) for x in wo]:
            problems.append(f"{path}: skip modified the wrapper")
        return
    expected_prefix = list(wi)
    if old and action == "remove-old":
        expected_prefix.remove(old[0])
    if len(wo) != len(expected_prefix) + 1 or [ct.encode(x) for x in wo[:-1]] != [ct.encode(x) for x in expected_prefix]:
        problems.append(f"{path}: wrapper is not the previous blocks plus exactly one new block")
        return
    problems += [f"{path}: {p}" for p in check_block(wo[-1], wo[0], cfg["key-name"], alg, int(cfg["key-id"], 0))]


def cfg_to_model(cfg, root=True):
    m = {}
    if cfg.get("omit-signing"):
        m["omit"] = True
    if "key-name" in cfg:
        m["key_name"] = cfg["key-name"]
    if "key-id" in cfg:
        m["key_id"] = int(cfg["key-id"], 0)
    if "alg" in cfg:
        m["alg"] = cfg["alg"]
    if "already-signed-action" in cfg:
        m["action"] = cfg["already-signed-action"]
    if "dependencies" in cfg:
        m["deps"] = [[n, cfg_to_model(c, False)] for n, c in cfg["dependencies"].items()]
    return m


def build_tree(rng, seed, index, depth, counter):
    """an unsigned envelope description with nested dependencies, and the shape of the tree"""
    while True:
        counter[0] += 1
        try:
            desc, files, _ = suitcases.make_case(seed, index * 1000 + counter[0], depth=0)
            break
        except suitcases.ChildFailed:
            continue
    desc = strip_blocks(desc)
    e = desc["SUIT_Envelope_Tagged"]
    e.pop("suit-integrated-dependencies", None)
    shape = {}
    if depth > 0:
        deps = {}
        ndep = rng.choice([0, 1, 1, 2, 3])
        # the names of the dependencies of one level are integrated in no particular order (descending as often as ascending, C11-s)
        idx = list(range(ndep))
        if rng.random() < 0.5:
            idx.reverse()
        for i in idx:
            name = f"#dep{depth}_{i}"
            sub, subfiles, subshape = build_tree(rng, seed, index, depth - 1, counter)
            files.update(subfiles)
            deps[name] = sub
            shape[name] = subshape
        if deps:
            e["suit-integrated-dependencies"] = deps
            if rng.random() < 0.5:
                # the dependencies are not the last elements of the envelope: integrated payloads follow them (C04-q)
                pl = e.pop("suit-integrated-payloads", None) or {}
                pl[f"#after{depth}"] = "ff" + "%02x" % rng.randrange(256)
                e["suit-integrated-payloads"] = pl
    return desc, files, shape


def kid_text(rng, n: int) -> str:
    """the ways a key identifier is written in a configuration: the text is read as a number literal with the usual prefixes (C09-p)"""
    return rng.choice([hex(n), hex(n), str(n), str(n), "0X%X" % n, "0x%08x" % n, "0o%o" % n, "0b" + bin(n)[2:]])


def random_cfg(rng, shape, root, presigned):
    cfg = {}
    key_types = signing.KEY_TYPES
    if rng.random() < 0.2:
        cfg["omit-signing"] = True
        if rng.random() < 0.5:
            pass  # no key at all
        else:
            cfg["key-name"] = "key_ed25519"
            cfg["key-id"] = hex(rng.randrange(0, 2 ** 32))
    if "alg" not in cfg and (root or rng.random() < 0.5):
        cfg["alg"] = rng.choice(signing.ALGS)
    return cfg


def work_recursive(args):
    seed, index, mode, *rest = args
    rng = random.Random(f"{seed}:{index}:c09rec")
    drv = common.worker_driver()
    desc, files, shape = build_tree(rng, seed, index, rest[0] if rest else rng.choice([1, 2, 3]), [0])
    c = suitcases.run_impl_create(desc, files)
    if "ok" not in c:
        return None
    b = bytes.fromhex(c["ok"])

    def mk(shape, inherited, root):
        cfg = {}
        omit = rng.random() < 0.25
        if rng.random() < 0.6 or root:
            cfg["alg"] = rng.choice(signing.ALGS)
        alg = cfg.get("alg", inherited)
        if omit:
            cfg["omit-signing"] = True
            if rng.random() < 0.4:
                cfg["key-name"] = "key_" + signing.MATCHING_KEY[alg]
                cfg["key-id"] = hex(rng.randrange(0, 2 ** 32))
        else:
            cfg["key-name"] = "key_" + signing.MATCHING_KEY[alg] + rng.choice(["", "_b", "_c", ".v2", ".v2"])
            cfg["key-id"] = kid_text(rng, rng.choice([0, 23, 24, 255, 256, 65535, 65536, 2 ** 31 - 32, 2 ** 32 - 1, 40022100, 10000000, rng.randrange(0, 2 ** 32)]))
            if rng.random() < 0.3:
                cfg["already-signed-action"] = rng.choice(["error", "skip", "remove-old"])
        named = {n: s for n, s in shape.items() if rng.random() < 0.8}
        if named or rng.random() < 0.2:
            order = list(named.items())
            if rng.random() < 0.5:
                rng.shuffle(order)          # a configuration names the dependencies in its own order, not the envelope's (C04-q)
            cfg["dependencies"] = {n: mk(s, alg, False) for n, s in order}
        return cfg

    cfg = mk(shape, "eddsa", True)
    cfg["sign-script"] = str(common.REPO / "ncs" / "sign_script.py")
    cfg["kms-script"] = str(common.VERIF / "harness" / "kms_recording.py")
    cfg["context"] = signing.keys_dir()
    expect_fail = None
    def bogus_node():
        # the configuration of the named-but-unusable dependency: to be signed, or passed over (with and without a key / an empty dependency map)
        return rng.choice([{"key-name": "key_ed25519", "key-id": "0x1"}, {"omit-signing": True}, {"omit-signing": True, "dependencies": {}},
                           {"omit-signing": True, "key-name": "key_ed25519", "key-id": "0x1"}, {"omit-signing": True, "alg": "es-256"}])

    def some_node(c, shape_here):
        # a configured node at a random depth whose envelope exists (the root, or a named dependency on a path of named dependencies)
        deeper = [(x, shape_here[n]) for n, x in c.get("dependencies", {}).items() if n in shape_here]
        if deeper and rng.random() < 0.5:
            return some_node(*rng.choice(deeper))
        return c
    if mode == "absent":
        some_node(cfg, shape).setdefault("dependencies", {})["#nope"] = bogus_node()
        expect_fail = "a named dependency is absent"
    elif mode == "not-envelope":
        # name an integrated payload (not an envelope) as a dependency
        root, mm = member_map(b)
        pl = [k[1].decode() for k in mm if k[0] == 3 and not k[1].decode().startswith("#dep")]
        if not pl:
            return None
        cfg.setdefault("dependencies", {})[pl[0]] = bogus_node()
        expect_fail = "a named dependency is not an envelope"
    elif mode == "mismatch":
        def poison(c, inherited="eddsa"):
            alg = c.get("alg", inherited)          # the algorithm in force at this node (its own, or the one handed down)
            if not c.get("omit-signing"):
                c["key-name"] = "key_p256" if alg != "es-256" else "key_ed25519"
                return True
            return any(poison(x, alg) for x in c.get("dependencies", {}).values())
        if not poison(cfg):
            return None
        expect_fail = "a key whose type does not match the algorithm"
    compare_model = True
    with tempfile.TemporaryDirectory(prefix="verif_c09_") as d:
        if mode == "resign":
            # second pass over an already signed tree: each node's action is its own (default: error), never an ancestor's
            first, _ = signing.run_sign("recursive", b, d, configuration=cfg)
            if "ok" not in first:
                return None
            b = first["ok"]

            def reconfigure(c, root):
                c = dict(c)
                c.pop("already-signed-action", None)
                r = rng.random()
                if root:
                    c["already-signed-action"] = rng.choice(["skip", "remove-old", "remove-old"])
                elif r < 0.35:
                    c["already-signed-action"] = rng.choice(["skip", "remove-old"])
                elif r < 0.45:
                    c["already-signed-action"] = "error"
                if "dependencies" in c:
                    c["dependencies"] = {n: reconfigure(x, False) for n, x in c["dependencies"].items()}
                return c
            cfg = reconfigure(cfg, True)

            def refused(c):
                # every configured node that is not omitted was signed by the first pass
                if not c.get("omit-signing") and c.get("already-signed-action", "error") == "error":
                    return True
                return any(refused(x) for x in c.get("dependencies", {}).values())
            if refused(cfg):
                expect_fail = "an already signed node whose own action is 'error' (the default)"
        elif mode == "parties":
            # every node has its own copy of the KMS script (same file name, another directory) with its own keys next to it and no context
            compare_model = False
            cfg.pop("context", None)
            counter = [0]

            def party(c):
                c = dict(c)
                c.pop("context", None)
                counter[0] += 1
                pd = os.path.join(d, f"party{counter[0]}")
                os.makedirs(pd)
                import shutil
                shutil.copy(str(common.REPO / "ncs" / "basic_kms.py"), os.path.join(pd, "basic_kms.py"))
                if "key-name" in c:
                    for ext in (".pem",):
                        shutil.copy(os.path.join(signing.keys_dir(), c["key-name"] + ext), os.path.join(pd, c["key-name"] + ext))
                c["kms-script"] = os.path.join(pd, "basic_kms.py")
                if "dependencies" in c:
                    c["dependencies"] = {n: party(x) for n, x in c["dependencies"].items()}
                return c
            cfg = party(cfg)
        env_saved = None
        if mode == "environment":
            # the build environment offers fall-back scripts (NCS_SUIT_KMS_SCRIPT / NCS_SUIT_SIGN_SCRIPT / ZEPHYR_BASE); a configuration whose root names
            # its own scripts hands them down to its dependencies - the environment is only the last resort.  The fall-back KMS lies in a directory
            # holding *other* keys under the same names, so a node signed through it does not verify.
            compare_model = False
            import shutil
            from cryptography.hazmat.primitives import serialization
            from cryptography.hazmat.primitives.asymmetric import ec, ed25519, ed448
            cfg.pop("context", None)
            own = os.path.join(d, "vendor_kms")
            zb = os.path.join(d, "zephyrproject", "zephyr")
            stock = os.path.join(d, "zephyrproject", "modules", "lib", "suit-generator", "ncs")
            for pd in (own, zb, stock):
                os.makedirs(pd)
            for pd in (own, stock):
                shutil.copy(str(common.REPO / "ncs" / "basic_kms.py"), os.path.join(pd, "basic_kms.py"))
            shutil.copy(str(common.REPO / "ncs" / "sign_script.py"), os.path.join(stock, "sign_script.py"))
            gens = {"p256": lambda: ec.generate_private_key(ec.SECP256R1()), "p384": lambda: ec.generate_private_key(ec.SECP384R1()),
                    "p521": lambda: ec.generate_private_key(ec.SECP521R1()), "ed25519": ed25519.Ed25519PrivateKey.generate, "ed448": ed448.Ed448PrivateKey.generate}
            for f in os.listdir(signing.keys_dir()):
                if f.endswith(".pem"):
                    shutil.copy(os.path.join(signing.keys_dir(), f), os.path.join(own, f))
                    kt = f[len("key_"):].split(".")[0].split("_")[0]
                    with open(os.path.join(stock, f), "wb") as fh:
                        fh.write(gens[kt]().private_bytes(serialization.Encoding.PEM, serialization.PrivateFormat.PKCS8, serialization.NoEncryption()))
            cfg["kms-script"] = os.path.join(own, "basic_kms.py")
            env_saved = {k: os.environ.get(k) for k in ("NCS_SUIT_KMS_SCRIPT", "NCS_SUIT_SIGN_SCRIPT", "ZEPHYR_BASE")}
            which = index % 3
            if which in (0, 2):
                os.environ["ZEPHYR_BASE"] = zb
            if which in (1, 2):
                os.environ["NCS_SUIT_KMS_SCRIPT"] = os.path.join(stock, "basic_kms.py")
                os.environ["NCS_SUIT_SIGN_SCRIPT"] = os.path.join(stock, "sign_script.py")
        try:
            res, recs = signing.run_sign("recursive", b, d, configuration=cfg)
        finally:
            if env_saved is not None:
                for k, v in env_saved.items():
                    if v is None:
                        os.environ.pop(k, None)
                    else:
                        os.environ[k] = v
    model = drv.call({"op": "sign.recursive", "file": b.hex(), "cfg": cfg_to_model(cfg), "table": recs}) if compare_model else None
    impl = {"ok": res["ok"].hex()} if "ok" in res else {"err": res["err"]}
    out = {"hash": hashlib.sha1(b + json.dumps(cfg, sort_keys=True).encode()).hexdigest(), "mode": mode, "problems": [], "mismatch": None,
           "nodes": json.dumps(cfg).count("key-id"), "impl": "ok" if "ok" in res else res["err"]}
    if compare_model and impl != model:
        out["mismatch"] = {"op": "sign.recursive", "impl": _short(impl), "model": _short(model), "cfg": cfg}
    if expect_fail:
        if "ok" in res:
            out["problems"].append(f"{expect_fail}: signing succeeded")
        elif res.get("wrote_output"):
            out["problems"].append(f"{expect_fail}: an output file was written although signing failed")
    elif "ok" in res:
        check_tree(b, res["ok"], cfg, "eddsa", "", out["problems"])
    else:
        out["problems"].append("recursive signing of a valid tree with valid configuration failed: " + res["err"])
    return out


def work_single(args):
    seed, index, alg, action, presigned, keytype = args
    drv = common.worker_driver()
    try:
        desc, files, _ = suitcases.make_case(seed, index, depth=1)
    except suitcases.ChildFailed:
        return None
    desc = strip_blocks(desc)
    c = suitcases.run_impl_create(desc, files)
    if "ok" not in c:
        return None
    b = bytes.fromhex(c["ok"])
    out = {"hash": hashlib.sha1(b + f"{alg}{action}{presigned}{keytype}".encode()).hexdigest(), "mode": f"single:{'signed' if presigned else 'unsigned'}:{action}:"
           + ("match" if signing.keyMatches(keytype, alg) else "mismatch"), "problems": [], "mismatch": None}
    with tempfile.TemporaryDirectory(prefix="verif_c09_") as d:
        if presigned:
            r0, _ = signing.run_sign("single-level", b, d, key_name="key_ed25519_b", key_id=7, alg="eddsa", action="error")
            if "ok" not in r0:
                out["problems"].append("pre-signing failed")
                return out
            b = r0["ok"]
        res, recs = signing.run_sign("single-level", b, d, key_name="key_" + keytype, key_id=0x7FFFFFE0, alg=alg, action=action)
    model = drv.call({"op": "sign.single", "file": b.hex(), "alg": alg, "key_name": "key_" + keytype, "key_id": 0x7FFFFFE0, "action": action, "table": recs})
    impl = {"ok": res["ok"].hex()} if "ok" in res else {"err": res["err"]}
    out["impl"] = "ok" if "ok" in res else res["err"]
    if impl != model:
        out["mismatch"] = {"op": "sign.single", "impl": _short(impl), "model": _short(model)}
    match = signing.keyMatches(keytype, alg)
    root = ct.decode(b)
    n_old = sum(1 for x in wrapper_list(root)[1:] if is_sign1(x))
    if presigned and action == "error":
        if "ok" in res or res.get("wrote_output"):
            out["problems"].append("already signed + error: not refused / output written")
    elif presigned and action == "skip":
        if "ok" not in res or res["ok"] != b:
            out["problems"].append("already signed + skip: the envelope is not returned unchanged")
    elif not match:
        if "ok" in res or res.get("wrote_output"):
            out["problems"].append("a key whose type does not match the algorithm was accepted / output written")
    else:
        if "ok" not in res:
            out["problems"].append("signing failed: " + res["err"])
        else:
            wo = wrapper_list(ct.decode(res["ok"]))
            blocks = [x for x in wo[1:] if is_sign1(x)]
            exp = 1 if (not presigned or action == "remove-old") else 2
            if len(blocks) != exp:
                out["problems"].append(f"{len(blocks)} signature blocks in the result, expected {exp}")
            else:
                out["problems"] += check_block(blocks[-1], wo[0], "key_" + keytype, alg, 0x7FFFFFE0)
    return out


def run(tier: str, seed: int) -> int:
    common.ensure_repo_on_path()
    res = Result(PROP, tier, seed)
    st = stage_a(PROP, thorough=(tier == "thorough"))
    if not st.ok_driver:
        return finish(res, st, RULE, NOTE)
    signing.keys_dir()
    jobs = []
    i = 0
    reps = 1 if tier == "quick" else 12
    for _ in range(reps):
        for alg in signing.ALGS:
            for action in ("error", "skip", "remove-old"):
                for presigned in (False, True):
                    for keytype in (signing.MATCHING_KEY[alg], "p256" if alg != "es-256" else "ed25519", "ed448" if alg in ("eddsa", "hash-eddsa") else "p384" if alg != "es-384" else "p521"):
                        jobs.append(("single", (seed, i, alg, action, presigned, keytype)))
                        i += 1
    nrec = 110 if tier == "quick" else 3000
    for k in range(nrec):
        mode = ["valid", "valid", "resign", "valid", "absent", "not-envelope", "mismatch", "parties", "resign", "environment"][k % 10]
        jobs.append(("rec", (seed, k, mode)))
    outs = common.pmap(_dispatch, jobs, chunk=2)
    for job, o in zip(jobs, outs):
        if o is None:
            res.count("skipped")
            continue
        res.evaluations += 1
        res.nontrivial.add(o["hash"])
        res.count("mode:" + o["mode"])
        res.count("outcome:" + str(o.get("impl")))
        if "nodes" in o:
            res.count(f"config_nodes:{min(o['nodes'], 6)}")
        if o["mismatch"]:
            res.mismatches.append({**o["mismatch"], "job": list(job[1])})
        for p in o["problems"]:
            res.spec_failures.append({"job": [job[0]] + list(job[1]), "what": p})
        if len(res.samples) < 5 and job[0] == "rec" and job[1][1] % 17 == 0:
            res.sample({"job": list(job[1]), "mode": o["mode"], "outcome": o.get("impl"), "config_nodes": o.get("nodes")})
    cli_cases(res, seed)
    return finish(res, st, RULE, NOTE)


def cli_cases(res, seed):
    """the policy through the real command line: a valid configuration signs, and every refusal is an exit status other than 0 with no output file"""
    rng = random.Random(f"{seed}:c09cli")
    k = 0
    while True:
        desc, files, shape = build_tree(rng, seed, 70000 + k, 2, [0])
        k += 1
        if shape:
            c = suitcases.run_impl_create(desc, files)
            if "ok" in c:
                break
    b = bytes.fromhex(c["ok"])
    dep = next(iter(shape))
    kms, script = str(common.REPO / "ncs" / "basic_kms.py"), str(common.REPO / "ncs" / "sign_script.py")
    base = {"sign-script": script, "kms-script": kms, "context": signing.keys_dir(), "alg": "eddsa", "key-name": "key_ed25519", "key-id": "0x10"}
    good = dict(base, dependencies={dep: {"key-name": "key_p256", "key-id": "7", "alg": "es-256"}})
    cases = [("valid", good, b, True),
             ("a named dependency is absent", dict(base, dependencies={"#nope": {"omit-signing": True}}), b, False),
             ("a key that does not match the algorithm", dict(base, dependencies={dep: {"key-name": "key_p256", "key-id": "7", "alg": "es-384"}}), b, False),
             ("signing is required and no key is named", dict(base, dependencies={dep: {"key-id": "7"}}), b, False),
             ("an unknown algorithm", dict(base, alg="es-255"), b, False)]
    with tempfile.TemporaryDirectory(prefix="verif_c09cli_") as d:
        inp = os.path.join(d, "in.suit")
        open(inp, "wb").write(b)
        signed = None
        for i, (what, cfg, data, ok) in enumerate(cases + [("an already signed envelope with the default action", good, None, False)]):
            if data is None:
                if signed is None:
                    continue
                open(inp, "wb").write(signed)
            cfgp, out = os.path.join(d, f"cfg{i}.json"), os.path.join(d, f"out{i}.suit")
            json.dump(cfg, open(cfgp, "w"))
            rc, log = common.run_cli(["sign", "recursive", "--input-envelope", inp, "--output-envelope", out, "--configuration", cfgp], d)
            res.case(["cli-sign-recursive", what], nontrivial=True)
            res.count("cli:sign-recursive")
            wrote = os.path.exists(out)
            if ok:
                if rc != 0 or not wrote:
                    res.spec_failures.append({"cli": "sign recursive", "case": what, "what": f"a valid configuration was refused on the command line (exit {rc})", "log": log[-300:]})
                    continue
                signed = open(out, "rb").read()
                problems = []
                check_tree(b, signed, cfg, "eddsa", "", problems)
                for p_ in problems:
                    res.spec_failures.append({"cli": "sign recursive", "case": what, "what": p_})
            elif rc == 0:
                res.spec_failures.append({"cli": "sign recursive", "case": what, "what": f"{what}: the command line reported success (exit 0)", "output_written": wrote})
            elif wrote:
                res.spec_failures.append({"cli": "sign recursive", "case": what, "what": f"{what}: the command failed and still wrote an output envelope"})


def _dispatch(job):
    kind, args = job
    return work_single(args) if kind == "single" else work_recursive(args)


def _short(x):
    s = json.dumps(x)
    return x if len(s) < 2500 else s[:2500] + "..."


def replay(payload: dict) -> int:
    common.ensure_repo_on_path()
    job = payload.get("job") or payload.get("first_mismatch", {}).get("job")
    if not job:
        print(payload)
        return 1
    signing.keys_dir()
    if job and job[0] in ("single", "rec"):
        kind, args = job[0], tuple(job[1:])
    else:
        kind, args = ("rec" if len(job) == 3 else "single"), tuple(job)
    o = _dispatch((kind, args))
    print(_short(o))
    bad = bool(o.get("mismatch")) or bool(o.get("problems"))
    if bad:
        print(f"VIOLATION property={PROP} replay=(given)")
    return 1 if bad else 0
