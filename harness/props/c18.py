"""C18 - output depends only on the inputs."""
from __future__ import annotations

import hashlib
import json
import os
import random
import subprocess
import tempfile

import yaml

from .. import common, suitio, suitcases, signing
from ..common import Result, Driver, stage_a, finish, rng_for
from . import c07, c06

PROP = "C18"
RULE = ("a set of operations on generated inputs (create from descriptions with file references, create from JSON and YAML files of the same description, parse, "
        "mpi generate, cache creation, image boot) is executed (a) each in a fresh interpreter under PYTHONHASHSEED in {0, 1, 2, random} and from different working "
        "directories with absolute paths, (b) all in one interpreter in several permuted orders; every output must equal the stateless model's output for that "
        "operation and hence be the same in every history; create is also run twice on the same (mutated) description object; signing and encryption are run twice "
        "and compared outside the signature / IV / ciphertext fields. distinct = distinct operations; evaluations = operation executions")
NOTE = ["the model is a pure function of the inputs by construction; what is checked is that the implementation, in every explored history, equals it",
        "explored histories are sampled permutations, not all interleavings"]


def run_worker(ops, hashseed, cwd, d, tag, rounds=1):
    specp = os.path.join(d, f"spec_{tag}.json")
    json.dump({"repo": str(common.REPO), "ops": ops, "rounds": rounds}, open(specp, "w"))
    env = dict(os.environ)
    env["PYTHONHASHSEED"] = str(hashseed)
    env.pop("PYTHONPATH", None)
    try:
        p = subprocess.run([common.PY, str(common.VERIF / "harness" / "c18_worker.py"), specp], cwd=cwd, env=env, stdout=subprocess.PIPE, stderr=subprocess.PIPE, text=True,
                           timeout=1200)
    except subprocess.TimeoutExpired:
        return {"__timeout__": True}
    for line in p.stdout.splitlines():
        if line.startswith("C18RESULT "):
            return json.loads(line[len("C18RESULT "):])
    raise RuntimeError("worker failed: " + p.stderr[-2000:])


def absolutise(desc, root):
    """file references made absolute (the generator uses names ending in these extensions)"""
    if isinstance(desc, dict):
        return {k: absolutise(v, root) for k, v in desc.items()}
    if isinstance(desc, list):
        return [absolutise(v, root) for v in desc]
    if isinstance(desc, str) and (desc.endswith(".bin") or desc.endswith(".suit") or desc.endswith(".txt")) and "/" not in desc:
        return os.path.join(root, desc)
    return desc


MODEL_FAILURES: list = []


def ref(m, what):
    """the model's output as the reference; where the model has no answer (a class the translator could not classify on this tree) the answer of a fresh
    interpreter is the reference and the lost correspondence is reported"""
    if "ok" in m:
        return m["ok"]
    MODEL_FAILURES.append({"op": "suit.create", "request": what, "impl": "(reference: fresh interpreter)", "model": m})
    return ("fresh",)


def build_ops(seed, tier, d, drv):
    rng = random.Random(f"{seed}:c18ops")
    ops, expect = [], {}
    files_dir = os.path.join(d, "files")
    os.makedirs(files_dir)
    n = 10 if tier == "quick" else 60
    i = 0
    k = 0
    nb = 0
    seen_b = set()
    while k < n:
        i += 1
        try:
            desc, files, feats = suitcases.make_case(seed * 7919 + 5, i)
        except suitcases.ChildFailed:
            continue
        want = {"digest:file", "size:file", "payload:file"} - seen_b
        if k >= n - 4 and want and not (want & set(feats)):
            continue   # the last cases must cover every by-content file reference form
        # distinct file names per case so that all cases can live in one directory
        ren = {name: f"c{k}_{name}" for name in files}
        desc = json.loads(_rename(json.dumps(desc), ren))
        files = {ren[a]: b for a, b in files.items()}
        for name, content in files.items():
            open(os.path.join(files_dir, name), "wb").write(content)
        adesc = absolutise(desc, files_dir)
        afiles = {os.path.join(files_dir, a): b for a, b in files.items()}
        m = suitio.model_create(drv, adesc, afiles)
        if "ok" not in m:
            if not str(m.get("err", "")).startswith("model-") or i > 40 * n:
                if i > 40 * n:
                    break
                continue
            MODEL_FAILURES.append({"op": "suit.create", "request": f"create{k}", "impl": "(reference: fresh interpreter)", "model": m})
            oid = f"create{k}"
            ops.append({"id": oid, "kind": "create", "desc": adesc})
            expect[oid] = ("fresh",)
            ic = suitio.impl_create(adesc)
            if "ok" in ic:
                ops.append({"id": f"parse{k}", "kind": "parse", "bytes": ic["ok"]})
                expect[f"parse{k}"] = ("fresh",)
            k += 1
            continue
        oid = f"create{k}"
        ops.append({"id": oid, "kind": "create", "desc": adesc, "twice": k % 3 == 0})
        expect[oid] = [m["ok"], m["ok"]] if k % 3 == 0 else m["ok"]
        # the same description from a JSON and a YAML file
        jp, yp = os.path.join(files_dir, f"c{k}.json"), os.path.join(files_dir, f"c{k}.yaml")
        json.dump(adesc, open(jp, "w"))
        # (PyYAML's writer does not round-trip a literal NEL / LS / PS: such text goes out escaped)
        yaml.dump(adesc, open(yp, "w"), sort_keys=False, allow_unicode=not any(c in json.dumps(adesc, ensure_ascii=False) for c in "\x85\u2028\u2029"))
        ops.append({"id": f"json{k}", "kind": "create_file", "path": jp})
        ops.append({"id": f"yaml{k}", "kind": "create_file", "path": yp})
        expect[f"json{k}"] = m["ok"]
        expect[f"yaml{k}"] = m["ok"]
        if ({"digest:file", "size:file", "payload:file"} & set(feats)) and nb < 8 and files:
            nb += 1
            seen_b |= {"digest:file", "size:file", "payload:file"} & set(feats)
            # same file *names* with different contents in a second directory (a cache keyed by name would confuse them)
            files2_dir = os.path.join(d, "files2")
            os.makedirs(files2_dir, exist_ok=True)
            files2 = {a: (b if a.endswith(".suit") or a.endswith(".txt") else bytes(x ^ 0x5A for x in b) + b"\x01") for a, b in files.items()}
            for name, content in files2.items():
                open(os.path.join(files2_dir, name), "wb").write(content)
            bdesc = absolutise(desc, files2_dir)
            bfiles = {os.path.join(files2_dir, a): b for a, b in files2.items()}
            # child envelopes referenced by path live in the first directory only
            for a, b in files.items():
                if a.endswith(".suit") or a.endswith(".txt"):
                    bfiles[os.path.join(files2_dir, a)] = b
            m2 = suitio.model_create(drv, bdesc, bfiles)
            if "ok" in m2:
                ops.append({"id": f"create{k}b", "kind": "create", "desc": bdesc})
                expect[f"create{k}b"] = m2["ok"]
        pm = drv.call({"op": "suit.parse", "bytes": m["ok"]})
        if "ok" in pm:
            ops.append({"id": f"parse{k}", "kind": "parse", "bytes": m["ok"]})
            expect[f"parse{k}"] = json.dumps(suitio.dec_obj(pm["ok"]), sort_keys=False)
        elif str(pm.get("err", "")).startswith("model-"):
            ops.append({"id": f"parse{k}", "kind": "parse", "bytes": m["ok"]})
            expect[f"parse{k}"] = ref(pm, f"parse{k}")
        k += 1
    # items that more than one alternative of a union would accept (a 16-byte identifier part whose first bytes read as a CBOR integer or text):
    # which alternative wins must not depend on what the same union decoded before (C18-o)
    def comp_env(parts_list):
        return {"SUIT_Envelope_Tagged": {"suit-authentication-wrapper": {"SuitDigest": {"suit-digest-algorithm-id": "cose-alg-sha-256"}},
                                         "suit-manifest": {"suit-manifest-version": 1, "suit-manifest-sequence-number": 1,
                                                           "suit-common": {"suit-components": parts_list}}}}
    union_cases = [("ints", [["M", 2, 4096, 256]]), ("rawint", [[{"raw": "0102030405060708090a0b0c0d0e0f10"}, 7]]), ("ints2", [["M", 255, 235225088, 352256]]),
                   ("rawint2", [[{"raw": "17ffeeddccbbaa998877665544332211"}]]), ("texts", [["I", "name"]]), ("rawtext", [[{"raw": "6261626364656667" * 2}, "x"]]),
                   ("ints3", [["C", 3]]), ("rawneg", [[{"raw": "20112233445566778899aabbccddeeff"}, 1]]), ("texts2", [["D", "z"]]),
                   ("rawtext2", [[{"raw": "6f" + "41" * 15}]])]
    for tag, parts in union_cases:
        mu = suitio.model_create(drv, comp_env(parts), {})
        if "ok" not in mu:
            continue
        pmu = drv.call({"op": "suit.parse", "bytes": mu["ok"]})
        if "ok" in pmu:
            ops.append({"id": "union_" + tag, "kind": "parse", "bytes": mu["ok"]})
            expect["union_" + tag] = json.dumps(suitio.dec_obj(pmu["ok"]), sort_keys=False)
    # inputs at the border of what the parser accepts (nesting near the interpreter's recursion limit): accepted or refused, but the same in every
    # history - a limit moved by an earlier operation would show here (C18-s)
    from . import c17 as _c17
    for lv in (120, 170, 250, 320):
        ops.append({"id": f"deepparse{lv}", "kind": "parse", "bytes": _c17.nested_envelope(lv, "run").hex()})
        expect[f"deepparse{lv}"] = ("fresh",)
    # two descriptions that differ only in the directory of the referenced files (same names, different contents)
    for tag, salt in (("A", 1), ("B", 2), ("C", 3)):
        dd = os.path.join(d, "fixed" + tag)
        os.makedirs(dd)
        blob = bytes((x * 7 + salt) % 256 for x in range(300 + salt))
        open(os.path.join(dd, "fw.bin"), "wb").write(blob)
        open(os.path.join(dd, "digest.bin"), "wb").write(hashlib.sha256(blob).digest())
        open(os.path.join(dd, "size.txt"), "w").write(str(len(blob)))
        fdesc = {"SUIT_Envelope_Tagged": {
            "suit-authentication-wrapper": {"SuitDigest": {"suit-digest-algorithm-id": "cose-alg-sha-256"}},
            "suit-manifest": {"suit-manifest-version": 1, "suit-manifest-sequence-number": 1,
                              "suit-install": [{"suit-directive-override-parameters": {
                                  "suit-parameter-image-digest": {"suit-digest-algorithm-id": "cose-alg-sha-512", "suit-digest-bytes": {"file": os.path.join(dd, "fw.bin")}},
                                  "suit-parameter-image-size": {"file": os.path.join(dd, "fw.bin")}}},
                                  {"suit-directive-override-parameters": {
                                      "suit-parameter-image-digest": {"suit-digest-algorithm-id": "cose-alg-sha-256", "suit-digest-bytes": {"file_direct": os.path.join(dd, "digest.bin")}},
                                      "suit-parameter-image-size": {"file_direct": os.path.join(dd, "size.txt")}}}]},
            "suit-integrated-payloads": {"#fw": os.path.join(dd, "fw.bin")}}}
        ff = {os.path.join(dd, n): open(os.path.join(dd, n), "rb").read() for n in ("fw.bin", "digest.bin", "size.txt")}
        m = suitio.model_create(drv, fdesc, ff)
        ops.append({"id": "fixed" + tag, "kind": "create", "desc": fdesc})
        expect["fixed" + tag] = ref(m, "fixed" + tag)
    # one mapping of a description referenced from two places (YAML writes an anchor and an alias for a shared object; JSON writes it twice): the two
    # renderings are one description - e.g. one {file: ...} source under two digest algorithms (C18-t)
    dd = os.path.join(d, "fixedA")
    shared_src = {"file": os.path.join(dd, "fw.bin")}
    sdesc = {"SUIT_Envelope_Tagged": {
        "suit-authentication-wrapper": {"SuitDigest": {"suit-digest-algorithm-id": "cose-alg-sha-256"}},
        "suit-manifest": {"suit-manifest-version": 1, "suit-manifest-sequence-number": 1,
                          "suit-validate": [{"suit-directive-override-parameters": {
                              "suit-parameter-image-digest": {"suit-digest-algorithm-id": "cose-alg-sha-256", "suit-digest-bytes": shared_src}}}],
                          "suit-install": [{"suit-directive-override-parameters": {
                              "suit-parameter-image-digest": {"suit-digest-algorithm-id": "cose-alg-sha-512", "suit-digest-bytes": shared_src},
                              "suit-parameter-image-size": shared_src}}]}}}
    sp_y, sp_j = os.path.join(files_dir, "shared.yaml"), os.path.join(files_dir, "shared.json")
    yaml.dump(sdesc, open(sp_y, "w"), sort_keys=False)
    json.dump(sdesc, open(sp_j, "w"))
    if "&id" in open(sp_y).read():
        ms = suitio.model_create(drv, json.loads(json.dumps(sdesc)), {os.path.join(dd, "fw.bin"): open(os.path.join(dd, "fw.bin"), "rb").read()})
        for oid, pth in (("sharedyaml", sp_y), ("sharedjson", sp_j)):
            ops.append({"id": oid, "kind": "create_file", "path": pth})
            expect[oid] = ref(ms, oid)
    # the same *relative* spelling of the file names in three working directories, and one absolute path whose content is rewritten
    # before each operation (a result remembered under the spelling of a path would be stale)
    def small_desc(fw, dg, sz):
        return {"SUIT_Envelope_Tagged": {
            "suit-authentication-wrapper": {"SuitDigest": {"suit-digest-algorithm-id": "cose-alg-sha-256"}},
            "suit-manifest": {"suit-manifest-version": 1, "suit-manifest-sequence-number": 1,
                              "suit-install": [{"suit-directive-override-parameters": {
                                  "suit-parameter-image-digest": {"suit-digest-algorithm-id": "cose-alg-sha-256", "suit-digest-bytes": {"file": fw}},
                                  "suit-parameter-image-size": {"file": fw}}},
                                  {"suit-directive-override-parameters": {
                                      "suit-parameter-image-digest": {"suit-digest-algorithm-id": "cose-alg-sha-256", "suit-digest-bytes": {"file_direct": dg}},
                                      "suit-parameter-image-size": {"file_direct": sz}}}]},
            "suit-integrated-payloads": {"#fw": fw}}}
    for tag, salt in (("A", 1), ("B", 2), ("C", 3)):
        dd = os.path.join(d, "fixed" + tag)
        rdesc = small_desc("fw.bin", "digest.bin", "size.txt")
        ff = {n: open(os.path.join(dd, n), "rb").read() for n in ("fw.bin", "digest.bin", "size.txt")}
        m = suitio.model_create(drv, rdesc, ff)
        ops.append({"id": "rel" + tag, "kind": "create", "desc": rdesc, "cwd": dd})
        expect["rel" + tag] = ref(m, "rel" + tag)
    rw = "@RW@"
    for tag, salt in (("1", 11), ("2", 12), ("3", 13)):
        blob = bytes((x * 13 + salt) % 256 for x in range(200 + salt))
        paths = {n: os.path.join(rw, n) for n in ("fw.bin", "digest.bin", "size.txt")}
        content = {paths["fw.bin"]: blob, paths["digest.bin"]: hashlib.sha256(blob).digest(), paths["size.txt"]: str(len(blob)).encode()}
        wdesc = small_desc(paths["fw.bin"], paths["digest.bin"], paths["size.txt"])
        m = suitio.model_create(drv, wdesc, content)
        ops.append({"id": "rewrite" + tag, "kind": "create", "desc": wdesc, "pre_write": {a: b.hex() for a, b in content.items()}})
        expect["rewrite" + tag] = ref(m, "rewrite" + tag)
    # cache generation from an envelope with several integrated dependencies (the order of the slots is the order in the envelope)
    for j in range(2 if tier == "quick" else 8):
        ndeps = 3 + j % 3
        def leaf(t):
            e_ = {"SUIT_Envelope_Tagged": {
                "suit-authentication-wrapper": {"SuitDigest": {"suit-digest-algorithm-id": "cose-alg-sha-256"}},
                "suit-manifest": {"suit-manifest-version": 1, "suit-manifest-sequence-number": t + 1},
                "suit-integrated-payloads": {f"#img{j}_{t}_{u}": bytes((t * 31 + u * 7 + x) % 256 for x in range(5 + u)).hex() for u in range(1 + t % 2)}}}
            if t < 100 and t % 2 == 0:
                # a third level: the middle envelope integrates a dependency envelope of its own (the same middle envelope is met by every rendering
                # of this hierarchy within one history, C18-q)
                e_["SUIT_Envelope_Tagged"]["suit-integrated-dependencies"] = {f"#leaf{j}_{t}.suit": leaf(100 + t)}
            return e_
        names = [f"#dep{j}_{t}.suit" for t in range(ndeps)]
        rng.shuffle(names)
        edesc = {"SUIT_Envelope_Tagged": {
            "suit-authentication-wrapper": {"SuitDigest": {"suit-digest-algorithm-id": "cose-alg-sha-256"}},
            "suit-manifest": {"suit-manifest-version": 1, "suit-manifest-sequence-number": 9},
            "suit-integrated-payloads": {f"#top{j}": "aa55"},
            "suit-integrated-dependencies": {nm: leaf(t) for t, nm in enumerate(names)}}}
        me = suitio.model_create(drv, edesc, {})
        if "ok" not in me:
            continue
        # the text files parse writes (YAML and JSON, with and without hierarchy): judged against the same operation in a fresh interpreter
        for fmt in ("yaml", "json"):
            for hier in (True, False):
                oid = f"parsefile{j}_{fmt}_{int(hier)}"
                ops.append({"id": oid, "kind": "parse_file", "bytes": me["ok"], "fmt": fmt, "hierarchy": hier})
                expect[oid] = ("fresh",)
        eb = [1, 8, 16][j % 3]
        mc = drv.call({"op": "extract.cache", "eb": eb, "envelope": me["ok"], "deps": names})
        if "ok" in mc:
            ops.append({"id": f"cacheenv{j}", "kind": "cache_env", "envelope": me["ok"], "eb": eb, "dep": r"#dep.*\.suit"})
            expect[f"cacheenv{j}"] = mc["ok"]
    for j in range(4 if tier == "quick" else 20):
        args = dict(vendor_name=rng.choice(["nordicsemi.com", "é"]), class_name=f"cls{j}", address=rng.choice([0x1000, 0xFFF0]), size=64,
                    downgrade_prevention_enabled=bool(j % 2), independent_updates=bool(j % 3), signature_verification=[None, "update", "update-and-boot"][j % 3])
        ops.append({"id": f"mpi{j}", "kind": "mpi", "args": args})
        expect[f"mpi{j}"] = ("image", drv.call({"op": "mpi.generate", "vendor": args["vendor_name"], "cls": args["class_name"], "address": args["address"], "size": 64,
                                                "dp": args["downgrade_prevention_enabled"], "iu": args["independent_updates"], "sv": args["signature_verification"]})["ok"])
        slots = [[f"#u{j}_{t}", bytes(rng.randrange(256) for _ in range(rng.randrange(0, 40))).hex()] for t in range(rng.randrange(1, 4))]
        ops.append({"id": f"cache{j}", "kind": "cache", "eb": rng.choice([1, 8, 16]), "slots": slots})
        expect[f"cache{j}"] = drv.call({"op": "cache.from_payloads", "eb": ops[-1]["eb"], "slots": slots})["ok"]
    with tempfile.TemporaryDirectory() as td:
        signing.keys_dir()
        for j in range(2 if tier == "quick" else 10):
            soc = ["nrf54h20", "nrf9280"][j % 2]
            layout = drv.call({"op": "storage.layout", "soc": soc})["ok"]
            v, c, role = layout["assignments"][j % len(layout["assignments"])]
            b = c07.envelope_for(seed, 700000 + j, v, c, rng, td)
            if b is None:
                continue
            m = drv.call({"op": "storage.boot", "files": [b.hex()], "base": 0x0E1ED000, "soc": soc, "fs": {}})
            if "ok" in m:
                ops.append({"id": f"boot{j}", "kind": "boot", "files": [b.hex()], "base": 0x0E1ED000, "soc": soc})
                expect[f"boot{j}"] = ("images", m["ok"])
    # operations on unusual or unusable inputs (refused, or accepted through a rarely taken path): whatever their own outcome - the outcome in a
    # fresh interpreter is the reference - they must leave nothing behind for the operations that follow them in a history
    plain = {"SUIT_Envelope_Tagged": {"suit-authentication-wrapper": {"SuitDigest": {"suit-digest-algorithm-id": "cose-alg-sha-256"}},
                                      "suit-manifest": {"suit-manifest-version": 1, "suit-manifest-sequence-number": 3,
                                                        "suit-install": [{"suit-condition-image-match": []}], "suit-text": {"suit-digest-algorithm-id": "cose-alg-sha-256"}},
                                      "suit-text": {"en": {"suit-text-manifest-description": "d\u00e9scription"}}}}
    odd = os.path.join(d, "odd_inputs")
    os.makedirs(odd)
    texts = {"bom.json": b"\xef\xbb\xbf" + json.dumps(plain).encode(), "bom.yaml": b"\xef\xbb\xbf" + yaml.dump(plain, sort_keys=False).encode(),
             "crlf.json": json.dumps(plain, indent=2).replace("\n", "\r\n").encode(), "utf16.json": json.dumps(plain).encode("utf-16"),
             "latin1.yaml": yaml.dump(plain, sort_keys=False, allow_unicode=True).encode("latin-1"), "empty.json": b"", "list.yaml": b"- 1\n- 2\n",
             "missing_file.json": json.dumps({"SUIT_Envelope_Tagged": {**plain["SUIT_Envelope_Tagged"], "suit-integrated-payloads": {"#x": os.path.join(odd, "absent.bin")}}}).encode()}
    for name, data in texts.items():
        with open(os.path.join(odd, name), "wb") as fh:
            fh.write(data)
        ops.append({"id": "odd_" + name, "kind": "create_file", "path": os.path.join(odd, name)})
        expect["odd_" + name] = ("fresh",)
    good = suitio.impl_create(plain)
    if "ok" in good:
        for tagname, hx in (("truncated", good["ok"][: len(good["ok"]) // 2 * 1]), ("trailing", good["ok"] + "00"), ("empty", ""), ("not_cbor", "ff" * 8)):
            ops.append({"id": "oddparse_" + tagname, "kind": "parse", "bytes": hx})
            expect["oddparse_" + tagname] = ("fresh",)
            ops.append({"id": "oddparsefile_" + tagname, "kind": "parse_file", "bytes": hx, "fmt": "json", "hierarchy": False})
            expect["oddparsefile_" + tagname] = ("fresh",)
    return ops, expect, files_dir


def _rename(text, ren):
    for a in sorted(ren, key=len, reverse=True):
        text = text.replace('"' + a + '"', '"' + ren[a] + '"')
    return text


def matches(drv, got, exp):
    if isinstance(exp, tuple) and exp[0] == "image":
        if not isinstance(got, str):
            return False
        r = drv.call({"op": "ihex.read", "text": got})
        return r.get("ok") == exp[1]
    if isinstance(exp, tuple) and exp[0] == "images":
        if not isinstance(got, dict) or "err" in got:
            return False
        imgs = {}
        for f, t in got.items():
            imgs[f.replace("suit_installed_envelopes_", "").replace("_merged.hex", "").upper()] = drv.call({"op": "ihex.read", "text": t}).get("ok")
        return imgs == exp[1]
    return got == exp


def sign_encrypt_twice(res, drv, d):
    """two runs differ only in the signature value / IV and ciphertext"""
    desc, files, _ = suitcases.make_case(4242, 1)
    from .c04 import strip_blocks
    b = bytes.fromhex(suitcases.run_impl_create(strip_blocks(desc), files)["ok"])
    for alg in ("es-256", "eddsa"):
        outs = []
        for _ in range(2):
            r, recs = signing.run_sign("single-level", b, d, key_name="key_" + signing.MATCHING_KEY[alg], key_id=5, alg=alg, action="error")
            sp = drv.call({"op": "spec.C04", "input": b.hex(), "output": r["ok"].hex(), "cose_alg": signing.COSE[alg], "key_id": 5})["ok"]
            outs.append(r["ok"].hex().replace(sp["signature"], "S" * len(sp["signature"])))
        res.case(["sign-twice", alg])
        if outs[0] != outs[1]:
            res.spec_failures.append({"alg": alg, "what": "two signing runs differ outside the signature value"})
    arts = []
    for _ in range(2):
        r, recs = c06.run_encrypt(bytes(range(100)), 77, "sha-256", d)
        f = r["ok"]
        v = drv.call({"op": "spec.C06", "info": f["suit_encryption_info.bin"].hex()})["ok"]
        arts.append((f["plain_text_digest.bin"], f["plain_text_size.txt"], f["suit_encryption_info.bin"].hex().replace(v["iv"], "I" * 24), len(f["encrypted_content.bin"])))
    res.case(["encrypt-twice"])
    if arts[0] != arts[1]:
        res.spec_failures.append({"what": "two encryption runs differ outside the IV and ciphertext"})
    # one encryptor object serving a sequence of requests: each result equals that of a fresh object for the same request
    import importlib.util
    from suit_generator.suit_encrypt_script_base import SuitKWAlgorithms
    spec = importlib.util.spec_from_file_location("verif_encrypt_c18", common.REPO / "ncs" / "encrypt_script.py")
    mod = importlib.util.module_from_spec(spec)
    spec.loader.exec_module(mod)
    blob = bytes(range(12)) + bytes(range(16)) + bytes(range(40))
    reqs = [("aes-kw-256", bytes(40), 7), ("direct", b"", 7), ("direct", b"", 0x40022100), ("aes-kw-256", bytes(range(40)), 9), ("direct", None, 9),
            ("aes-kw-256", None, 1), ("direct", b"", 1)]

    def serve(enc, kw, cek, kid):
        try:
            return [x.hex() if isinstance(x, bytes) else x for x in enc.generate(blob, cek, kid, SuitKWAlgorithms(kw))]
        except ValueError:
            return "ValueError"
        except BaseException as e:  # noqa
            return type(e).__name__
    shared = mod.suit_encryptor_factory()
    for order in (reqs, list(reversed(reqs))):
        for k, (kw, cek, kid) in enumerate(order):
            got = serve(shared, kw, cek, kid)
            fresh = serve(mod.suit_encryptor_factory(), kw, cek, kid)
            res.case(["encryptor-reuse", k, kw, kid])
            if got != fresh:
                res.spec_failures.append({"request": [kw, cek.hex() if cek is not None else None, kid], "position": k, "reused_object": str(got)[:300], "fresh_object": str(fresh)[:300],
                                          "what": "an encryptor object that served other requests before answers this request differently from a fresh one"})


def run(tier: str, seed: int) -> int:
    common.ensure_repo_on_path()
    res = Result(PROP, tier, seed)
    st = stage_a(PROP, thorough=(tier == "thorough"))
    if not st.ok_driver:
        return finish(res, st, RULE, NOTE)
    import logging
    logging.disable(logging.CRITICAL)
    rng = rng_for(seed, PROP)
    drv = Driver()
    with tempfile.TemporaryDirectory(prefix="verif_c18_") as d:
        ops, expect, files_dir = build_ops(seed, tier, d, drv)
        other_cwd = os.path.join(d, "elsewhere")
        os.makedirs(other_cwd)
        # a crowded working directory: it holds a file named after every string that occurs in a description (inline hex payloads, names, URIs
        # without a slash, texts ...) - none of them is an input of any command
        crowded = os.path.join(d, "crowded")
        os.makedirs(crowded)

        def strings(x):
            if isinstance(x, str):
                yield x
            elif isinstance(x, dict):
                for k, v in x.items():
                    yield from strings(k)
                    yield from strings(v)
            elif isinstance(x, list):
                for v in x:
                    yield from strings(v)
        ncrowd = 0
        for op in ops:
            for t in set(strings(op.get("desc"))):
                if t and "/" not in t and "\x00" not in t and t not in (".", "..") and len(t.encode()) <= 120:
                    for name in {t, t.lower(), t.upper()}:
                        try:
                            with open(os.path.join(crowded, name), "xb") as fh:
                                fh.write(b"this file is not an input of the command\n")
                            ncrowd += 1
                        except OSError:
                            pass
        res.count("crowded-cwd-files", ncrowd)
        histories = []
        # (a) one fresh interpreter per operation
        seeds = ["0", "1", "2", "random"]
        fresh_ops = ops if tier == "thorough" else ops[:: max(1, len(ops) // 24)]
        fresh_ops = fresh_ops + [o for o in ops if expect[o["id"]] == ("fresh",) and o not in fresh_ops]
        procs = []
        for i, op in enumerate(fresh_ops):
            histories.append(("fresh", seeds[i % 4], [op], files_dir if i % 2 else other_cwd))
        # (b) permuted orders in one interpreter
        for pidx in range(5 if tier == "quick" else 24):
            perm = list(ops)
            rng.shuffle(perm)
            histories.append(("permuted", seeds[pidx % 4], perm, other_cwd if pidx % 2 else files_dir))
        histories.append(("reversed", "0", list(reversed(ops)), other_cwd))
        histories.append(("crowded-cwd", "1", list(ops), crowded))
        for i, op in enumerate(o for o in ops if o["kind"] in ("create", "create_file")):
            if i % 3 == 0 or tier == "thorough":
                histories.append(("crowded-cwd", seeds[i % 4], [op], crowded))
        # (c) a long-lived interpreter: the whole list several times over (well past a hundred parse / create / image operations)
        histories.append(("soak", "2", list(ops), other_cwd))
        histories.append(("soak-readers", "1", [o for o in ops if o["kind"] in ("parse", "parse_file", "cache_env", "boot")], files_dir))
        from concurrent.futures import ThreadPoolExecutor
        def go(h):
            kind, hs, hops, cwd = h[1]
            return run_worker(hops, hs, cwd, d, str(h[0]), rounds={"soak": 4 if tier == "quick" else 12, "soak-readers": 40 if tier == "quick" else 200}.get(kind, 1))
        with ThreadPoolExecutor(max_workers=12) as ex:
            results = list(ex.map(go, list(enumerate(histories))))
        # operations without a model: the result in a fresh interpreter is the reference
        for (kind, hs, hops, cwd), out in zip(histories, results):
            if kind == "fresh" and expect[hops[0]["id"]] == ("fresh",):
                expect[hops[0]["id"]] = out.get(hops[0]["id"])
        res.mismatches += MODEL_FAILURES[:3]
        for (kind, hs, hops, cwd), out in zip(histories, results):
            res.count("history:" + kind)
            res.count("hashseed:" + hs)
            if out.get("__timeout__"):
                res.spec_failures.append({"history": kind, "hashseed": hs, "operations": len(hops), "what": "a history of operations in one interpreter did not finish within 20 minutes"})
                continue
            for dr in out.get("__drift__", []):
                res.spec_failures.append({"history": kind, **dr, "what": f"the same operation gives another result in round {dr['round'] + 1} of the same list in one interpreter "
                                                                        "than in round 1 (state carried from call to call)"})
            for op in hops:
                res.evaluations += 1
                res.nontrivial.add(op["id"])
                got = out.get(op["id"])
                if not matches(drv, got, expect[op["id"]]):
                    res.spec_failures.append({"operation": op["id"], "history": kind, "hashseed": hs, "cwd": cwd, "position": [o["id"] for o in hops].index(op["id"]),
                                              "got": _short(got), "expected": _short(expect[op["id"]]),
                                              "what": "the output of an operation differs from the stateless model in this history"})
        res.count("operations", len(ops))
        res.sample({"operations": [o["id"] for o in ops][:12], "histories": len(histories)})
        sign_encrypt_twice(res, drv, d)
        from .. import reuse, suitcases as _sc
        from .c04 import strip_blocks as _sb
        d0, f0, _ = _sc.make_case(777, 3, depth=0)
        reuse.signer_reuse(res, bytes.fromhex(_sc.run_impl_create(_sb(d0), f0)["ok"]), PROP)
        reuse.encryptor_reuse(res, PROP)
        reuse.keygen_reuse(res, PROP)
        renderings_agree(res)
        # one process, several signing parties, each with its own copy of the KMS script (same file name, another directory, its own keys): every level
        # is signed by the KMS its own configuration names, whatever was loaded before (C18-p)
        from . import c09
        pj = [(seed, 882000 + i, "parties", 2 + i % 2) for i in range(10 if tier == "quick" else 60)]
        for job, o in zip(pj, common.pmap(c09.work_recursive, pj, chunk=2)):
            if o is None:
                continue
            res.case(["parties", job[1], o.get("nodes")], nontrivial=True)
            res.count("history:signing-parties")
            for p_ in o["problems"]:
                res.spec_failures.append({"job": ["rec"] + list(job), "what": "sign recursive with one KMS script per party: " + p_})
    drv.close()
    return finish(res, st, RULE, NOTE)


def renderings_agree(res):
    """the JSON and the YAML rendering `parse` writes for one envelope describe the same envelope: `create` from either gives the envelope that was
    parsed - for text with characters a text format may fold, escape or strip (C18-r)"""
    import tempfile
    texts = ["plain", "line one\u0085line two", "a\u2028b", "a\u2029b", "tab\there", " lead and trail ", "caf\u00e9 \U0001f680", "\ufeffbom", "two  blanks",
             "x\x7fy", "dash - colon: hash #", "'single' \"double\"", "back\\slash", "line\nbreak", "trailing break\n", "\u00a0nbsp\u00a0", "\x1b[0m"]
    with tempfile.TemporaryDirectory(prefix="verif_c18r_") as d:
        for k, t in enumerate(texts):
            desc = {"SUIT_Envelope_Tagged": {"suit-authentication-wrapper": {"SuitDigest": {"suit-digest-algorithm-id": "cose-alg-sha-256"}},
                                             "suit-manifest": {"suit-manifest-version": 1, "suit-manifest-sequence-number": 1, "suit-reference-uri": "u" + t if k % 3 == 0 else "u",
                                                               "suit-common": {"suit-components": [["M", 1]]},
                                                               "suit-text": {"suit-digest-algorithm-id": "cose-alg-sha-256"}},
                                             "suit-text": {"en": {"suit-text-manifest-description": t,
                                                                  '["M", 1]': {"suit-text-vendor-name": t + "!", "suit-text-model-info": t}}}}}
            c = suitio.impl_create(desc)
            res.case(["renderings", k], nontrivial=True)
            res.count("renderings:json-vs-yaml")
            if "ok" not in c:
                continue
            orig = bytes.fromhex(c["ok"])
            wd = os.path.join(d, f"t{k}")
            os.makedirs(wd)
            open(os.path.join(wd, "in.suit"), "wb").write(orig)
            got = {}
            for fmt in ("json", "yaml"):
                rc, log = common.run_cli(["parse", "--input-file", "in.suit", "--output-file", "out." + fmt, "--output-format", fmt], wd)
                if rc != 0:
                    got[fmt] = f"parse failed (exit {rc})"
                    continue
                rc, log = common.run_cli(["create", "--input-file", "out." + fmt, "--output-file", "again_" + fmt + ".suit"], wd)
                got[fmt] = open(os.path.join(wd, "again_" + fmt + ".suit"), "rb").read() if rc == 0 else f"create failed (exit {rc})"
            if got.get("json") != got.get("yaml") or got.get("json") != orig:
                res.spec_failures.append({"text": t, "json": "the parsed envelope" if got.get("json") == orig else (got["json"] if isinstance(got.get("json"), str) else "another envelope"),
                                          "yaml": "the parsed envelope" if got.get("yaml") == orig else (got["yaml"] if isinstance(got.get("yaml"), str) else "another envelope"),
                                          "what": "the JSON and the YAML rendering of one envelope do not both give back that envelope"})


def _short(x):
    s = json.dumps(x, default=str)
    return x if len(s) < 800 else s[:800] + "..."


def replay(payload: dict) -> int:
    print(payload)
    print("re-run ./check C18 with the same VERIF_SEED to reproduce the history")
    return 1
