"""C03 - parse then create reproduces the envelope."""
from __future__ import annotations

import hashlib
import json
import os

from .. import common, suitio, suitcases, cbortree as ct
from ..common import Result, stage_a, finish, Findings

PROP = "C03"
RULE = ("envelopes in the image of create over the generated description language (flat and hierarchical, with signature blocks, severed members, payloads), "
        "plus a separate stream with raw byte strings that look like CBOR (region F4). Each envelope is parsed by the real tool and by the model (descriptions "
        "compared), written to YAML and JSON files with and without hierarchy expansion, re-created by the real tool, and the spans of envelope keys 2, 3, "
        "15/16/17/18/20/23 and the set of text-keyed members are compared byte-for-byte. distinct = distinct envelopes")
NOTE = ["C03_partial-type theorem over the whole language is not yet proved; the Lean obligations are the kernel-checked counter-example of the full statement (F4) "
        "and the round-trip lemmas of the scalar kinds; the property is decided by the correspondence and the direct comparison on every generated envelope",
        "known finding F4: a raw byte string at a position whose union has an earlier decoded alternative is re-interpreted when its bytes decode (leniently) as "
        "that alternative and are not its canonical encoding; region predicate = harness.props.c03.ambiguous_positions"]


def spans(b: bytes):
    root = ct.decode(b)
    if root.major != 6 or root.arg != 107 or root.children[0].major != 5:
        raise ValueError("not an envelope")
    ints = {}
    strs = {}
    for k, v in root.children[0].children:
        if k.major == 0:
            ints[k.arg] = ct.encode(v)
        elif k.major == 3:
            strs[k.data.decode()] = v.data if v.major == 2 else ct.encode(v)
    return ints, strs


def lenient_prefix(b: bytes):
    """what cbor2.loads(b) returns (trailing bytes ignored), or a marker for failure / break marker"""
    import cbor2
    if not b:
        return ("fail",)
    try:
        v = cbor2.loads(b)
    except Exception:
        return ("fail",)
    if type(v) is object:
        return ("fail",)
    return ("ok", v)


def is_ambiguous_raw(b: bytes, accept) -> bool:
    """bytes given raw where an earlier union alternative `accept`s the leniently decoded value and re-encodes it differently"""
    import cbor2
    r = lenient_prefix(b)
    if r[0] != "ok":
        return False
    v = r[1]
    if not accept(v):
        return False
    try:
        return cbor2.dumps(v) != b
    except Exception:
        return True


def ambiguous_positions(desc, path=()):
    """the region predicate of finding F4, syntactic on the description"""
    out = []

    def is_int(v):
        return v is None or (isinstance(v, int))

    def is_uint(v):
        return v is None or (isinstance(v, int) and v >= 0)

    def rec(d, path):
        if isinstance(d, dict):
            for k, v in d.items():
                p = path + (k,)
                if k == "suit-parameter-content" and isinstance(v, str):
                    if is_ambiguous_raw(bytes.fromhex(v), is_uint):
                        out.append(p)
                elif k == "suit-cose-key-id" and isinstance(v, str):
                    if is_ambiguous_raw(bytes.fromhex(v), is_int):
                        out.append(p)
                elif k == "ciphertext" and isinstance(v, str):
                    b = bytes.fromhex(v)
                    if b[:1] == b"\xf6":
                        out.append(p)
                elif k == "raw" and isinstance(v, str) and path and isinstance(path[-1], int):
                    # component identifier part given raw
                    b = bytes.fromhex(v)
                    if len(b) != 16 and not (len(b) == 1 and b.decode("latin1").isalpha() and b[0] < 128):
                        if is_ambiguous_raw(b, lambda x: x is None or isinstance(x, (int, str))):
                            out.append(p)
                        elif lenient_prefix(b)[:2] == ("ok", None):
                            # the part *is* (or begins with) CBOR null: parse shows `null`, which no alternative of a component part can be
                            # re-created from (SuitBchar accepts None and fails in to_cbor) - the null case of F4, canonical encoding or not
                            out.append(p)
                rec(v, p)
        elif isinstance(d, list):
            for i, v in enumerate(d):
                rec(v, path + (i,))

    rec(desc, path)
    return out


def reparse_create(b: bytes, fmt: str, hierarchy: bool, d: str):
    """`parse` to a text file, then `create` from it, through the SuitEnvelope front end (what the CLI calls)"""
    from suit_generator.envelope import SuitEnvelope

    # file names as they occur: the format is named explicitly, or taken from the (last) suffix - whatever other dots and suffixes the name holds
    import zlib
    pick = zlib.crc32(b[:64] + fmt.encode()) % 5
    other = "json" if fmt == "yaml" else "yaml"
    stem, auto = [("parsed", False), ("parsed", True), ("app.suit", True), ("app.v1.2", True), ("x." + other, True)][pick]
    src = os.path.join(d, "in.suit")
    txt = os.path.join(d, stem + "." + fmt)
    out = os.path.join(d, "again.suit")
    with open(src, "wb") as fh:
        fh.write(b)
    old = os.getcwd()
    os.chdir(d)
    try:
        e = SuitEnvelope()
        e.load(src, "AUTO" if auto else "suit")
        e.dump(txt, "AUTO" if auto else fmt, hierarchy)
        e2 = SuitEnvelope()
        e2.load(txt, "AUTO" if auto else fmt)
        e2.dump(out, "AUTO" if auto else "suit")
        with open(out, "rb") as fh:
            return {"ok": fh.read()}
    except BaseException as ex:  # noqa
        return {"err": suitio.err_class(ex)}
    finally:
        os.chdir(old)
        for p in (src, txt, out):
            try:
                os.unlink(p)
            except OSError:
                pass


def work(args):
    seed, index, kind = args
    drv = common.worker_driver()
    import random
    try:
        if kind == "sized":
            from .c02 import sized_case, SIZED
            desc, files, feats = sized_case(*SIZED[index % len(SIZED)]), {}, []
            suitcases.LAST_CHILDREN[:] = []
        else:
            if kind == "samename":
                # a hierarchy three and four levels deep in which different parents integrate *different* envelopes under the same name
                def env_(seq, deps=None, payload=None):
                    e = {"suit-authentication-wrapper": {"SuitDigest": {"suit-digest-algorithm-id": "cose-alg-sha-256"}},
                         "suit-manifest": {"suit-manifest-version": 1, "suit-manifest-sequence-number": seq,
                                           "suit-common": {"suit-components": [["M", seq % 5]]}}}
                    if payload:
                        e["suit-integrated-payloads"] = {"#fw": payload}
                    if deps:
                        e["suit-integrated-dependencies"] = deps
                    return {"SUIT_Envelope_Tagged": e}
                k_ = index % 3
                deep = {"#local.suit": env_(33 + index)} if k_ == 2 else None
                desc = env_(1 + index % 9, {"#app.suit": env_(10, {"#local.suit": env_(11, deep, "aa11")}),
                                            "#rad.suit": env_(20, {"#local.suit": env_(22, None, "bb22" if k_ else None)})})
                files, feats = {}, []
                suitcases.LAST_CHILDREN[:] = []
            elif kind == "signed" and index % 10 < 5:
                # the plainest envelope there is (SHA-256, one component, one command), signed with each algorithm in turn
                desc, files, feats = {"SUIT_Envelope_Tagged": {
                    "suit-authentication-wrapper": {"SuitDigest": {"suit-digest-algorithm-id": "cose-alg-sha-256"}},
                    "suit-manifest": {"suit-manifest-version": 1, "suit-manifest-sequence-number": index % 1000,
                                      "suit-common": {"suit-components": [["M", 2, index % 7]]},
                                      "suit-validate": [{"suit-condition-image-match": []}]}}}, {}, []
                suitcases.LAST_CHILDREN[:] = []
            else:
                desc, files, feats = suitcases.make_case(seed, index, ambiguous=(kind == "ambiguous"), depth=(1 if kind == "signed" else 2))
    except suitcases.ChildFailed:
        return None
    desc = suitcases.perturb_text(desc, random.Random(f"{seed}:{index}:text"))
    created = suitcases.run_impl_create(desc, files)
    if "ok" not in created:
        return {"skip": created["err"]}
    b = bytes.fromhex(created["ok"])
    if kind == "signed":
        # signatures as the real sign command writes them (its own encoding of the protected header), one to three of them, small and
        # large key identifiers: the parse -> create round trip must keep the authentication wrapper byte for byte
        import tempfile
        from .. import signing
        from .c04 import strip_blocks
        rs = random.Random(f"{seed}:{index}:sign")
        c0 = suitcases.run_impl_create(strip_blocks(desc), files)
        if "ok" not in c0:
            return None
        b = bytes.fromhex(c0["ok"])
        with tempfile.TemporaryDirectory(prefix="verif_c03s_") as sd:
            # every signature algorithm of the sign command (their COSE identifiers span the one-, two- and five-byte negative integers)
            alg = signing.ALGS[index % len(signing.ALGS)]
            r, _recs = signing.run_sign("single-level", b, sd, key_name="key_" + signing.MATCHING_KEY[alg], alg=alg, action="error",
                                        key_id=rs.choice([0, 7, 23, 24, 255, 256, 300, 65535, 65536, 0x40022100, 0x7FFFFFE0, 0xFFFFFFFF]))
            if "ok" not in r:
                return {"skip": "sign:" + r["err"]}
            b = r["ok"]
    amb = ambiguous_positions(desc) + [p for ch in suitcases.LAST_CHILDREN for p in ambiguous_positions(ch)]
    res = {"amb": len(amb) > 0, "kind": kind, "hash": hashlib.sha1(b).hexdigest(), "problems": [], "mismatch": None, "len": len(b)}
    # parse: implementation vs model
    pi = suitio.impl_parse(b)
    pm = suitio.model_parse(drv, b)
    # the model's domain: raw byte strings that cbor2 would decode into objects outside the modelled subset (bignums, dates,
    # indefinite lengths, ...) are compared only through the direct checks below, not model against implementation
    from .c17 import py_lenient_ok
    in_domain = kind != "ambiguous" or py_lenient_ok(b)
    res["model_domain"] = in_domain
    if in_domain and pi != pm and not suitio.same_err(pi, pm):
        res["mismatch"] = {"op": "suit.parse", "impl": _short(pi), "model": _short(pm)}
    if "ok" not in pi:
        res["problems"].append(("parse-of-created-envelope-fails", pi["err"]))
        return res
    # composite through the model (no files needed: parse output is self-contained)
    rm = drv.call({"op": "suit.roundtrip", "bytes": b.hex(), "fs": {}})
    i0, s0 = spans(b)
    d = suitcases.scratch_dir()
    routes = [("yaml", False), ("json", False)] + ([("yaml", True), ("json", True)] if index % 2 == 0 or kind == "samename" else [])
    for fmt, hier in routes:
        r = reparse_create(b, fmt, hier, d)
        tag = f"{fmt}{'+hierarchy' if hier else ''}"
        if "ok" not in r:
            res["problems"].append((tag, "re-create fails: " + r["err"]))
            continue
        b2 = r["ok"]
        if in_domain and not hier and fmt == "yaml" and "ok" in rm and rm["ok"] != b2.hex() and res["mismatch"] is None:
            res["mismatch"] = {"op": "suit.roundtrip", "impl": b2.hex()[:600], "model": rm["ok"][:600]}
        try:
            i1, s1 = spans(b2)
        except Exception as ex:  # noqa
            res["problems"].append((tag, "re-created file is not an envelope"))
            continue
        for k in (2, 3, 15, 16, 17, 18, 20, 23):
            if i0.get(k) != i1.get(k):
                res["problems"].append((tag, f"envelope key {k} differs"))
        if set(s0) != set(s1):
            res["problems"].append((tag, "set of integrated payloads / dependencies differs"))
        else:
            for name in s0:
                if s0[name] != s1[name]:
                    res["problems"].append((tag, f"member {name!r} differs"))
    res["seed"], res["index"] = seed, index
    return res


def run(tier: str, seed: int) -> int:
    common.ensure_repo_on_path()
    res = Result(PROP, tier, seed)
    st = stage_a(PROP, thorough=(tier == "thorough"))
    if not st.ok_driver:
        return finish(res, st, RULE, NOTE)
    n = 700 if tier == "quick" else 15000
    jobs = [(seed, i, "plain") for i in range(n)] + [(seed, 8 * 10 ** 6 + i, "ambiguous") for i in range(n // 3)]
    jobs += [(seed, 13 * 10 ** 6 + i, "samename") for i in range(3 if tier == "quick" else 30)]
    jobs += [(seed, i, "sized") for i in range(8)] + [(seed, 11 * 10 ** 6 + i, "signed") for i in range(40 if tier == "quick" else 600)]
    known = {e["id"] for e in Findings().known(PROP)}
    outs = common.pmap(work, jobs, chunk=8)
    for job, o in zip(jobs, outs):
        if o is None or "skip" in o:
            res.count("skipped")
            continue
        res.evaluations += 1
        res.nontrivial.add(o["hash"])
        res.count("stream:" + o["kind"])
        res.count("in_region_F4:" + str(o["amb"]))
        if o["mismatch"]:
            res.mismatches.append({**o["mismatch"], "seed": job[0], "index": job[1], "kind": job[2]})
        if o["problems"]:
            if o["amb"] and "F4" in known:
                res.known_hits["F4"] = res.known_hits.get("F4", 0) + 1
            else:
                res.spec_failures.append({"seed": job[0], "index": job[1], "kind": job[2], "problems": o["problems"][:8],
                                          "what": "parse then create does not reproduce the envelope (outside the F4 region)"})
        else:
            res.count("roundtrip_exact")
        if len(res.samples) < 4 and job[1] % 101 == 0:
            res.sample({"seed": job[0], "index": job[1], "stream": o["kind"], "envelope_bytes": o["len"], "in_region_F4": o["amb"], "problems": o["problems"][:2]})
    return finish(res, st, RULE, NOTE)


def _short(x):
    s = json.dumps(x, default=str)
    return x if len(s) < 2500 else s[:2500] + "..."


def replay(payload: dict) -> int:
    common.ensure_repo_on_path()
    src = payload if "index" in payload else payload.get("first_mismatch", {})
    if "index" not in src:
        print(payload)
        return 1
    o = work((src["seed"], src["index"], src["kind"]))
    print(_short(o))
    bad = bool(o.get("mismatch")) or (bool(o.get("problems")) and not o.get("amb"))
    if bad:
        print(f"VIOLATION property={PROP} replay=(given)")
    return 1 if bad else 0
