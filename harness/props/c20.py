"""C20 - version strings and default sequence numbers preserve release ordering."""
from __future__ import annotations

import itertools
import os
import tempfile

from .. import common
from ..common import Result, Driver, stage_a, finish, rng_for, Findings

PROP = "C20"
RULE = ("bounded-exhaustive: every version with 1..3 numeric fields in 0..K and every pre-release form (none, label, label.N) is parsed by "
        "the real SuitComponentVersion and by the model, and ALL ordered pairs are compared (semver precedence vs zero-padded list order, "
        "evaluated by the Lean reference); random versions with fields up to 300; rejected labels; VERSION-file tuples on a grid with all "
        "pairs of sequence numbers; distinct = distinct version strings / tuples")
NOTE = ["domain of C20_order_partial: same number of numeric fields and no pre-release number written explicitly as 0 (regions F10a / F10b are "
        "kernel-checked counter-examples of the full statement, listed in known_findings.json)",
        "strings are ASCII; re.match / str.split / str.replace / int() modelled on List Char",
        "parse(render v) = conv v is tied bounded-exhaustively (not yet a theorem)"]

LABELS = ["alpha", "beta", "rc"]


def render(nums, label, n):
    s = ".".join(str(x) for x in nums)
    if label:
        s += "-" + label
        if n is not None:
            s += "." + str(n)
    return s


def impl_parse(s):
    from suit_generator.suit.manifest import SuitComponentVersion

    try:
        return {"ok": SuitComponentVersion.from_obj(s).to_obj()}
    except Exception as e:  # noqa
        return common.impl_err(e)


def versions(tier, rng):
    K = 3 if tier == "quick" else 5
    pres = [(None, None)] + [(l, None) for l in LABELS] + [(l, n) for l in LABELS for n in (0, 1, 2)]
    out = []
    for k in (1, 2, 3):
        for nums in itertools.product(range(K + 1), repeat=k):
            for (l, n) in pres:
                out.append((list(nums), l, n))
    return out


def run(tier: str, seed: int) -> int:
    common.ensure_repo_on_path()
    common.speed_patch()
    res = Result(PROP, tier, seed)
    st = stage_a(PROP, thorough=(tier == "thorough"))
    if not st.ok_driver:
        return finish(res, st, RULE, NOTE)
    rng = rng_for(seed, PROP)
    drv = Driver()
    known = {e["id"] for e in Findings().known(PROP)}

    # 1. parse: bounded-exhaustive + random + rejected
    vs = versions(tier, rng)
    extra = []
    for _ in range(300 if tier == "quick" else 5000):
        k = rng.randint(1, 4)
        nums = [rng.choice([0, 1, 9, 10, 99, 255, 256, 300, rng.randint(0, 300)]) for _ in range(k)]
        l = rng.choice([None] + LABELS)
        n = rng.choice([None, 0, 1, 7, 300]) if l else None
        extra.append((nums, l, n))
    items = []
    for (nums, l, n) in vs + extra:
        s = render(nums, l, n)
        impl = impl_parse(s)
        model = drv.call({"op": "version.parse", "s": s})
        conv = drv.call({"op": "version.conv", "nums": nums, "label": l, "n": n, "list": []})
        res.case(["parse", s])
        res.count("parse:" + ("ok" if "ok" in impl else impl["err"]))
        if impl != model:
            res.mismatches.append({"op": "version.parse", "s": s, "impl": impl, "model": model})
        if "ok" not in impl or impl["ok"] != conv["ok"]:
            res.spec_failures.append({"s": s, "impl": impl, "expected": conv["ok"],
                                      "what": "a version of the supported grammar is not converted to the list the draft assigns"})
        elif (nums, l, n) in vs:
            items.append({"nums": nums, "label": l, "n": n, "list": impl["ok"], "s": s})
    res.sample({"parse": [it["s"] + " -> " + str(it["list"]) for it in items[:: max(1, len(items) // 5)][:6]]})
    bad_labels = ["1.0-gamma", "1.0-pre", "1.0-RC", "1.0-", "", "1..2", "1.0-rc1", "1.0-dev.1", "a", "1.0-Alpha", "1.0-alpha-beta-x", "-1", "1.0.x",
                  "1.0-name", "1.0-value", "1.0-mro", "1.0-__doc__", " 1.0", "1.0 "]
    for s in bad_labels:
        impl = impl_parse(s)
        model = drv.call({"op": "version.parse", "s": s})
        res.case(["reject", s])
        res.count("reject:" + ("ok" if "ok" in impl else impl["err"]))
        if impl != model:
            res.mismatches.append({"op": "version.parse", "s": s, "impl": impl, "model": model})
        if "ok" in impl and not s.strip() == s:
            continue
        if "ok" in impl:
            res.spec_failures.append({"s": s, "impl": impl, "what": "an unsupported version string / pre-release label is accepted"})
    # also the list forms accepted by from_obj (ints pass through)
    # 2. order over ALL ordered pairs of the bounded set (on the implementation's lists)
    r = drv.call({"op": "version.pairs", "items": [{k: v for k, v in it.items() if k != "s"} for it in items]})["ok"]
    res.evaluations += r["pairs"]
    res.count("order:pairs", r["pairs"])
    res.count("order:pairs_semver_lt", r["semver_lt_true"])
    res.count("order:fail_region_mixed_field_count", r["fail_mixed"])
    res.count("order:fail_region_explicit_zero", r["fail_zero"])
    for (i, j) in r["fail_outside"]:
        res.spec_failures.append({"a": items[i]["s"], "b": items[j]["s"], "list_a": items[i]["list"], "list_b": items[j]["list"],
                                  "what": "semver precedence and zero-padded list order disagree outside the known regions"})
    for region, key, first in (("F10a", "fail_mixed", "first_mixed"), ("F10b", "fail_zero", "first_zero")):
        if r[key]:
            i, j = r[first]
            w = {"a": items[i]["s"], "b": items[j]["s"], "list_a": items[i]["list"], "list_b": items[j]["list"]}
            if region in known:
                res.known_hits[region] = r[key]
                res.notes.setdefault("known_finding_witnesses", {})[region] = w
            else:
                res.spec_failures.append({**w, "what": f"semver precedence and list order disagree (region {region}, not a listed finding)"})
    # 2b. a version is text (or the integer list): what a YAML / JSON loader makes of an unquoted 1.10 - the float 1.1 - has already lost what was
    # written; a float is refused, never turned into some list
    for obj in (1.10, 1.1, 0.300, 2.0, 1e3, 10.20):        # floats only: an integer or a boolean could be read faithfully, a float cannot (1.10 == 1.1)
        r_ = impl_parse(obj)
        res.case(["non-text", repr(obj)], nontrivial=True)
        res.count("non-text:" + ("accepted" if "ok" in r_ else "refused"))
        if "ok" in r_:
            res.spec_failures.append({"value": repr(obj), "type": type(obj).__name__, "impl": r_,
                                      "what": "a number that is not a version string is accepted as a version (an unquoted 1.10 reaches the tool as 1.1)"})
    # 3. VERSION files: default sequence number and default version
    from ncs import build as ncs_build  # noqa
    from configparser import ConfigParser

    grid = [0, 1, 2, 9, 10, 127, 254, 255]
    tuples = []
    extras = [None, "", "rc", "rc1", "rc.1", "alpha", "beta.12", "alpha.", "dev", "rc-1", "gamma", "RC1", "alpha1x"]
    G = list(itertools.product([0, 1, 2, 255, 256, 300], grid, grid, [None] + grid))
    rng.shuffle(G)
    G = G[: (600 if tier == "quick" else len(G))]
    # the corners are always part of the sample: the very bottom of the range, the field borders, a missing tweak next to tweak 0 and 1
    corners = [(0, 0, 0, None), (0, 0, 0, 0), (0, 0, 0, 1), (0, 0, 1, None), (0, 0, 1, 0), (0, 1, 0, 0), (1, 0, 0, 0), (1, 0, 0, None), (0, 255, 255, 255),
               (255, 255, 255, 255), (256, 0, 0, 0), (256, 0, 0, None), (300, 0, 0, 1), (1, 2, 3, None), (1, 2, 2, 5), (1, 2, 3, 0)]
    G = corners + [g for g in G if g not in corners]
    for n, (M, m, p, t) in enumerate(G):
        e = extras[n % len(extras)]
        txt = f"VERSION_MAJOR = {M}\nVERSION_MINOR = {m}\nPATCHLEVEL = {p}\n"
        if t is not None:
            txt += f"VERSION_TWEAK = {t}\n"
        if e is not None:
            txt += f"EXTRAVERSION = {e}\n"
        cfg = ConfigParser()
        cfg.optionxform = lambda o: o
        cfg.read_string("[VERSION]\n" + txt)
        try:
            ncs_build.append_default_version_values(cfg)
            impl = {"ok": {"version": cfg["VERSION"]["DEFAULT_VERSION"], "seq": int(cfg["VERSION"]["DEFAULT_SEQ_NUM"])}}
        except Exception as ex:  # noqa
            impl = common.impl_err(ex)
        # the same values as a VERSION *file* read by the build script, in the layouts such a file is found in: entries in any order (an empty
        # EXTRAVERSION before the other entries), CRLF line ends and no final line break, no blanks around '=', comments and blank lines, other entries
        lines_v = [ln for ln in txt.split("\n") if ln]
        layout = n % 8
        if layout == 1:
            rng.shuffle(lines_v)
        elif layout == 2:
            lines_v = [ln for ln in lines_v if ln.startswith("EXTRAVERSION")] + [ln for ln in lines_v if not ln.startswith("EXTRAVERSION")]
        elif layout == 4:
            lines_v = ["# version of the application", ""] + [ln.replace(" = ", "=") for ln in lines_v] + ["", "; end"]
        elif layout == 5:
            # the system controller firmware's own version lives in the same file: its numbers depend on its own entries only
            sys_tweak = [None, 3, 0, 255][(n // 6) % 4]
            sys_extra = ["", "rc2", "beta", "dev"][(n // 24) % 4]
            lines_v = [x for k_, ln in enumerate(lines_v) for x in ("UNRELATED_%d =" % k_, ln)] + ["SYSCTRL_VERSION_MAJOR = 9", "SYSCTRL_VERSION_MINOR = 8", "SYSCTRL_VERSION_PATCH = 7",
                                                                                           "SYSCTRL_VERSION_EXTRA =" + (" " + sys_extra if sys_extra else "")]
            if sys_tweak is not None:
                lines_v.append(f"SYSCTRL_VERSION_TWEAK = {sys_tweak}")
        elif layout == 6:
            # exactly one of the two overrides next to the version fields: the other default still follows from the fields (C20-p)
            lines_v.insert(n % (len(lines_v) + 1), "APP_ROOT_VERSION = 7.7.7-rc.7")
        elif layout == 7:
            lines_v.insert(n % (len(lines_v) + 1), "APP_ROOT_SEQ_NUM = 41")
        text_v = ("\r\n" if layout == 3 else "\n").join(lines_v) + ("" if layout == 3 else "\n")
        with tempfile.TemporaryDirectory(prefix="verif_c20_") as vd:
            vf = os.path.join(vd, "VERSION")
            with open(vf, "w", newline="") as fh:
                fh.write(text_v)
            try:
                got = dict(ncs_build.read_version_file(vf))
                via_file = {"ok": {"version": got["DEFAULT_VERSION"], "seq": int(got["DEFAULT_SEQ_NUM"])}}
            except Exception as ex:  # noqa
                via_file = common.impl_err(ex)
        res.count(f"version-file-layout:{layout}")
        if layout == 5 and "ok" in via_file:
            want_seq = (9 << 24) + (8 << 16) + (7 << 8) + (sys_tweak or 0)
            want_ver = "9.8.7" + {"": "", "rc2": "-rc.2", "beta": "-beta", "dev": "-alpha"}[sys_extra]
            if str(got.get("SCFW_SEQ_NUM")) != str(want_seq) or got.get("SCFW_VERSION") != want_ver:
                res.spec_failures.append({"case": [M, m, p, t, e], "version_file": text_v, "SCFW_SEQ_NUM": got.get("SCFW_SEQ_NUM"), "SCFW_VERSION": got.get("SCFW_VERSION"),
                                          "expected": [want_seq, want_ver],
                                          "what": "the system controller's sequence number / version are not those of its own SYSCTRL_VERSION_* entries"})
        want_file = impl
        if "ok" in impl and layout == 6:
            want_file = {"ok": {"version": "7.7.7-rc.7", "seq": impl["ok"]["seq"]}}
        elif "ok" in impl and layout == 7:
            want_file = {"ok": {"version": impl["ok"]["version"], "seq": 41}}
        if via_file != want_file:
            res.spec_failures.append({"case": [M, m, p, t, e], "version_file": text_v, "through_the_file": via_file, "from_the_values": want_file,
                                      "what": "the default version / sequence number read from the VERSION file differ from those of the values it holds"})
        model = drv.call({"op": "version.default", "major": str(M), "minor": str(m), "patch": str(p), "extra": e,
                          "tweak": None if t is None else str(t)})
        res.case(["default", M, m, p, t, e])
        res.count("default:" + ("ok" if "ok" in impl else impl["err"]))
        if impl != model:
            res.mismatches.append({"op": "version.default", "case": [M, m, p, t, e], "impl": impl, "model": model})
        if "ok" in impl:
            tuples.append([M, m, p, t or 0, impl["ok"]["seq"]])
            acc = impl_parse(impl["ok"]["version"])
            if "ok" not in acc:
                res.spec_failures.append({"case": [M, m, p, t, e], "default_version": impl["ok"]["version"], "impl": acc,
                                          "what": "the derived default version string is rejected by the manifest encoder"})
    r2 = drv.call({"op": "version.seq_pairs", "tuples": tuples})["ok"]
    res.evaluations += r2["pairs"]
    res.count("seq:pairs", r2["pairs"])
    for (i, j) in r2["bad"]:
        res.spec_failures.append({"a": tuples[i], "b": tuples[j], "what": "default sequence numbers do not follow (major, minor, patch, tweak) order"})
    res.sample({"default": tuples[:3]})
    res.exhaustive = True
    res.notes["exhaustive_scope"] = "all ordered pairs of all versions with 1..3 numeric fields in 0..%d x 13 pre-release forms" % (3 if tier == "quick" else 5)
    drv.close()
    return finish(res, st, RULE, NOTE)


def replay(payload: dict) -> int:
    common.ensure_repo_on_path()
    drv = Driver()
    bad = False
    for k in ("a", "b", "s"):
        if k in payload and isinstance(payload[k], str):
            print(k, payload[k], "impl:", impl_parse(payload[k]), "model:", drv.call({"op": "version.parse", "s": payload[k]}))
    if "a" in payload and "b" in payload and isinstance(payload["a"], str):
        la = impl_parse(payload["a"]).get("ok")
        lb = impl_parse(payload["b"]).get("ok")
        print("lists:", la, lb, "(expected order per semver: see 'what')", payload.get("what"))
        bad = True
    drv.close()
    if bad:
        print(f"VIOLATION property={PROP} replay=(given)")
    return 1 if bad else 0
