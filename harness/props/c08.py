"""C08 - symbolic names and registry codes are in one-to-one correspondence."""
from __future__ import annotations

import sys

from .. import common, suitio, cbortree as ct
import json
from ..common import Result, Driver, stage_a, finish

PROP = "C08"
RULE = ("exhaustive: every (key space, name) pair of the union vocabulary (registry + code) is encoded as a single entry through the "
        "public from_obj/to_cbor API and decoded back through from_cbor/to_obj, by the real classes and by the model; every name is also "
        "placed in every other closed key space and must be rejected; thorough adds every integer in [-70000, 300] on the decode side. "
        "distinct = distinct (class, name or code, direction)")
NOTE = ["Registry.lean is written from memory of the drafts/RFCs; entries marked 'v' in DESIGN.md Appendix C are pinned to the pinned commit",
        "a name present in the code but absent from the registry is reported in the evidence (coverage.not_in_registry), not as a violation"]


def sample_for(descs, order, ci, depth=0):
    """a minimal valid description for class index ci"""
    kind, name, x = descs[id(order[ci])]
    if depth > 12:
        return None
    if kind in ("uint", "int", "imageSize"):
        return 0 if kind != "imageSize" else {"raw": 0}
    if kind == "bool":
        return True
    if kind in ("null",):
        return None
    if kind == "tstr":
        return "t"
    if kind in ("bstr", "hex", "rawBstr"):
        return "ff00"
    if kind == "emptyBstr":
        return ""
    if kind == "bchar":
        return "M"
    if kind == "enum":
        return x[0][0]
    if kind == "union":
        return sample_for(descs, order, x[0], depth + 1)
    if kind == "headerMapOptional":
        return {}
    if kind == "tupleNamed":
        return {k.replace("*", "0"): sample_for(descs, order, c, depth + 1) for k, c in x if not k.endswith("*")}
    if kind in ("keyValue", "keyValueUnnamed", "payloadMap"):
        return {}
    if kind == "keyValueTuple":
        es, _ = x
        n, i, c, m = es[0]
        return {n: sample_for(descs, order, c, depth + 1)}
    if kind == "tag":
        return {x[1]: sample_for(descs, order, x[2], depth + 1)}
    if kind in ("list", "bitfield"):
        return []
    if kind == "version":
        return [1]
    if kind == "uuid":
        return {"raw": "00" * 16}
    if kind == "digestExt":
        return None
    if kind == "encInfoExt":
        return {"raw": "40"}
    if kind == "cbstr":
        return sample_for(descs, order, x, depth + 1)
    return None


def run(tier: str, seed: int) -> int:
    common.ensure_repo_on_path()
    res = Result(PROP, tier, seed)
    st = stage_a(PROP, thorough=(tier == "thorough"))
    if not st.ok_driver:
        return finish(res, st, RULE, NOTE)
    sys.path.insert(0, str(common.VERIF / "harness"))
    import harness_extract as hx
    import logging
    logging.disable(logging.CRITICAL)

    order, descs, index, hashes, notes, _ = hx.build_schema()
    drv = Driver()
    reg = drv.call({"op": "registry"})["ok"]
    registry = {sp: {n: c for n, c in es} for sp, es in reg["spaces"]}
    # vocabulary-bearing classes of the running code, first class per name (as Schema.space does)
    spaces = {}
    for ci, cls in enumerate(order):
        kind, name, x = descs[id(cls)]
        if kind == "enum" and name not in spaces:
            spaces[name] = (ci, kind, {n: i for n, i in x})
        elif kind in ("keyValue", "keyValueTuple") and name not in spaces:
            es, _ = x
            spaces[name] = (ci, kind, {n: i for n, i, c, m in es if not m}, {n: c for n, i, c, m in es})
    vocab = sorted({n for sp in spaces.values() for n in sp[2]} | {n for sp in registry.values() for n in sp})
    not_in_registry = []
    for sp, entry in spaces.items():
        ci, kind, names = entry[0], entry[1], entry[2]
        cls = order[ci]
        for n in vocab:
            member = n in names
            if member and (sp not in registry or n not in registry[sp]):
                not_in_registry.append(f"{sp}:{n}={names[n]}")
            # --- encode side -------------------------------------------------------------------
            if kind == "enum":
                obj = n
            else:
                child = entry[3].get(n)
                sample = sample_for(descs, order, child) if child is not None else 0
                obj = {n: sample}
            try:
                ib = cls.from_obj(__import__("copy").deepcopy(obj)).to_cbor()
                impl = {"ok": ib.hex()}
            except BaseException as e:  # noqa
                impl = {"err": suitio.err_class(e)}
            model = drv.call({"op": "suit.encode", "cls": ci, "desc": suitio.enc_obj(obj), "fs": {}})
            res.case([sp, n, "enc"])
            res.count("encode:" + ("member" if member else "foreign") + ":" + ("ok" if "ok" in impl else impl["err"]))
            if impl != model and not suitio.same_err(impl, model):
                res.mismatches.append({"op": "suit.encode", "space": sp, "name": n, "impl": impl, "model": model})
            if member and kind == "keyValue" and "ok" in impl:
                # the two alphabets do not mix: in CBOR a member is its code, never a text key spelled like its name; in a description it is its name,
                # never its number (C08-t)
                import cbor2 as _c2
                try:
                    dec = _c2.loads(ib)
                    items = list(dec.items()) if hasattr(dec, "items") else []
                except Exception:  # noqa
                    items = []
                # (a class that also holds text-keyed members - the envelope with its integrated payloads - takes a text key for a payload name)
                has_text_members = any(m_ for _n, _i, _c, m_ in descs[id(cls)][2][0])
                if len(items) == 1 and items[0][0] == names[n] and not has_text_members:
                    try:
                        alt = _c2.dumps({n: items[0][1]})
                    except Exception:  # noqa
                        alt = None
                    if alt is not None:
                        try:
                            cls.from_cbor(alt)
                            acc = True
                        except BaseException:  # noqa
                            acc = False
                        res.case([sp, n, "text-key-in-cbor"])
                        res.count("alphabet:text-key-in-cbor:" + ("accepted" if acc else "rejected"))
                        if acc:
                            res.spec_failures.append({"space": sp, "name": n, "code": names[n], "bytes": alt.hex(),
                                                      "what": "a CBOR map key that is a text string spelled like the member's name is accepted in place of the registered code"})
                try:
                    cls.from_obj({names[n]: __import__("copy").deepcopy(obj[n])})
                    acc = True
                except BaseException:  # noqa
                    acc = False
                res.case([sp, n, "code-in-description"])
                res.count("alphabet:code-in-description:" + ("accepted" if acc else "rejected"))
                if acc:
                    res.spec_failures.append({"space": sp, "name": n, "code": names[n], "description": str({names[n]: obj[n]})[:200],
                                              "what": "a description key that is the member's registered number is accepted in place of its name"})
            if not member:
                if "ok" in impl:
                    res.spec_failures.append({"space": sp, "name": n, "impl": impl, "what": "a name foreign to this key space is accepted"})
                if kind != "enum":
                    # ... whatever stands next to it: no value (YAML `name:`), an empty container, next to a name of the space
                    own = next(iter(names), None)
                    own_child = entry[3].get(own) if own is not None else None
                    variants = [{n: None}, {n: {}}, {n: []}, {n: ""}]
                    if own is not None and kind == "keyValue":
                        variants.append({own: sample_for(descs, order, own_child) if own_child is not None else 0, n: None})
                    for vobj in variants:
                        try:
                            vb = cls.from_obj(__import__("copy").deepcopy(vobj)).to_cbor()
                        except BaseException:  # noqa
                            continue
                        res.spec_failures.append({"space": sp, "name": n, "description": vobj, "encoded": vb.hex(),
                                                  "what": "a name foreign to this key space is accepted (and dropped) when it stands there without a value"})
                        break
                continue
            if "ok" not in impl:
                res.spec_failures.append({"space": sp, "name": n, "impl": impl, "what": "a name of this key space is rejected"})
                continue
            # the code on the wire
            item = ct.decode(bytes.fromhex(impl["ok"]))
            if kind == "enum":
                code_item = item
            elif kind == "keyValue":
                code_item = item.children[0][0] if item.major == 5 and item.children else None
            else:
                code_item = item.children[0] if item.major == 4 and item.children else None
            code = None
            if code_item is not None and code_item.major in (0, 1):
                code = code_item.arg if code_item.major == 0 else -1 - code_item.arg
            expected = registry.get(sp, {}).get(n)
            if expected is not None and code != expected:
                res.spec_failures.append({"space": sp, "name": n, "wire_code": code, "registered": expected,
                                          "what": "the name does not encode to its registered integer"})
            # --- decode side -------------------------------------------------------------------
            try:
                back = {"ok": cls.from_cbor(bytes.fromhex(impl["ok"])).to_obj()}
            except BaseException as e:  # noqa
                back = {"err": suitio.err_class(e)}
            mback = drv.call({"op": "suit.decode", "cls": ci, "bytes": impl["ok"]})
            if "ok" in mback:
                mback = {"ok": suitio.dec_obj(mback["ok"])}
            res.case([sp, n, "dec"])
            if back != mback and not suitio.same_err(back, mback):
                res.mismatches.append({"op": "suit.decode", "space": sp, "name": n, "impl": back, "model": mback})
            got = back.get("ok")
            got_name = got if kind == "enum" else (next(iter(got)) if isinstance(got, dict) and got else None)
            if got_name != n:
                res.spec_failures.append({"space": sp, "name": n, "rendered": got, "what": "parse does not render the code back as the same name"})
        # decode side over integers (closed key spaces reject foreign codes)
        lo, hi = (-70, 70) if tier == "quick" else (-70000, 300)
        extra = [-65537, -65536, 255, 256, 65535, 65536]
        codes = list(range(lo, hi + 1)) + extra
        if kind == "enum":
            import cbor2
            valid = set(names.values())
            for code in codes:
                b = cbor2.dumps(code)
                try:
                    r = cls.from_cbor(b).to_obj()
                    ok = True
                except ValueError:
                    ok = False
                except BaseException as e:  # noqa
                    res.spec_failures.append({"space": sp, "code": code, "impl": suitio.err_class(e), "what": "unexpected exception decoding a code"})
                    continue
                res.case([sp, code, "deccode"])
                if ok != (code in valid):
                    res.spec_failures.append({"space": sp, "code": code, "accepted": ok, "what": "code acceptance disagrees with the key space"})
                elif ok and names.get(r) != code:
                    res.spec_failures.append({"space": sp, "code": code, "rendered": r, "what": "code rendered as the wrong name"})
    # --- every command, parameter and text key once more *in context*: inside a whole envelope, created and parsed through the real path
    def in_context(kind_label, name, manifest_patch, envelope_patch=None, locate=None):
        desc = {"SUIT_Envelope_Tagged": {"suit-authentication-wrapper": {"SuitDigest": {"suit-digest-algorithm-id": "cose-alg-sha-256"}},
                                         "suit-manifest": {"suit-manifest-version": 1, "suit-manifest-sequence-number": 1, **manifest_patch}, **(envelope_patch or {})}}
        impl = suitio.impl_create(__import__("copy").deepcopy(desc))
        model = suitio.model_create(drv, desc, {})
        res.case([kind_label, name, "context"])
        res.count("context:" + kind_label + ":" + ("ok" if "ok" in impl else impl["err"]))
        if impl != model and not suitio.same_err(impl, model):
            res.mismatches.append({"op": "suit.create", "context": kind_label, "name": name, "impl": str(impl)[:300], "model": str(model)[:300]})
        if "ok" not in impl:
            res.spec_failures.append({"context": kind_label, "name": name, "impl": impl, "what": "a registered name is rejected when used inside an envelope"})
            return
        back = suitio.impl_parse(bytes.fromhex(impl["ok"]))
        if "ok" not in back:
            res.spec_failures.append({"context": kind_label, "name": name, "envelope": impl["ok"][:400], "impl": back,
                                      "what": "the envelope the tool created with this name cannot be parsed back"})
            return
        found = locate(back["ok"]["SUIT_Envelope_Tagged"])
        if found != name:
            res.spec_failures.append({"context": kind_label, "name": name, "rendered": str(found)[:200], "what": "the name does not come back as itself from a parsed envelope"})

    for sp in ("SuitCondition", "SuitDirective"):
        if sp in spaces:
            for n in spaces[sp][2]:
                child = spaces[sp][3].get(n)
                arg = sample_for(descs, order, child) if child is not None else 0
                # the command alone, after another command, and nested in a run-sequence (the paths a real manifest takes)
                in_context(sp, n, {"suit-validate": [{n: arg}]}, locate=lambda e: next(iter(e["suit-manifest"]["suit-validate"][0]), None))
                in_context(sp + ":second", n, {"suit-install": [{"suit-directive-set-component-index": 0}, {n: arg}]},
                           locate=lambda e: next(iter(e["suit-manifest"]["suit-install"][1]), None))
    if "SuitParameters" in spaces:
        for n in spaces["SuitParameters"][2]:
            child = spaces["SuitParameters"][3].get(n)
            arg = sample_for(descs, order, child) if child is not None else 0
            in_context("SuitParameters", n, {"suit-validate": [{"suit-directive-override-parameters": {n: arg}}]},
                       locate=lambda e: next(iter(e["suit-manifest"]["suit-validate"][0]["suit-directive-override-parameters"]), None))
    for sp in ("SuitTextLMap", "SuitTextKeys", "SuitText"):
        pass
    text_keys = [n for sp, es in registry.items() for n in es if n.startswith("suit-text-") and not n.startswith("suit-text-vendor") and not n.startswith("suit-text-model")
                 and not n.startswith("suit-text-component")]
    for n in sorted(set(text_keys)):
        for value in ("some text", "", "x"):
            in_context("text-key:" + ("empty" if value == "" else "text"), n, {"suit-text": {"suit-digest-algorithm-id": "cose-alg-sha-256"}},
                       envelope_patch={"suit-text": {"en": {n: value}}}, locate=lambda e: next(iter(e["suit-text"]["en"]), None))
    comp_text = [n for sp, es in registry.items() for n in es if n.startswith("suit-text-vendor") or n.startswith("suit-text-model") or n.startswith("suit-text-component")]
    for n in sorted(set(comp_text)):
        for value in ("some text", ""):
            in_context("component-text-key", n, {"suit-common": {"suit-components": [["M", 1]]}, "suit-text": {"suit-digest-algorithm-id": "cose-alg-sha-256"}},
                       envelope_patch={"suit-text": {"en": {'["M", 1]': {n: value}}}}, locate=lambda e: next(iter(e["suit-text"]["en"]['["M", 1]']), None))
    # CWT claims and COSE header keys *in context*: inside the payload / the two header buckets of a COSE_Sign1 in the authentication wrapper of a
    # whole envelope (the node classes on their own may be fine while the structure around them hands the bytes to another alternative, C08-s)
    def sign1_env(payload, prot, unprot):
        return {"suit-authentication-wrapper": {"SuitDigest": {"suit-digest-algorithm-id": "cose-alg-sha-256"},
                                                "SuitAuthentication0": {"CoseSign1Tagged": {"protected": prot, "unprotected": unprot, "payload": payload, "signature": "00" * 64}}}}

    def sign1_of(e):
        w = e["suit-authentication-wrapper"]
        k = next((k for k in w if k.startswith("SuitAuthentication")), None)
        return (w[k] or {}).get("CoseSign1Tagged", {}) if k is not None else {}

    def payload_of(e):
        pl = sign1_of(e).get("payload")
        return next(iter(pl), None) if isinstance(pl, dict) else pl
    if "SuitCwtPayload" in spaces:
        for n in spaces["SuitCwtPayload"][2]:
            child = spaces["SuitCwtPayload"][3].get(n)
            arg = sample_for(descs, order, child) if child is not None else 0
            in_context("cwt-claim-in-sign1", n, {}, envelope_patch=sign1_env({n: arg}, {"suit-cose-algorithm-id": "cose-alg-es-256"}, {}), locate=payload_of)
    if "SuitHeaderMap" in spaces:
        for n in spaces["SuitHeaderMap"][2]:
            child = spaces["SuitHeaderMap"][3].get(n)
            arg = sample_for(descs, order, child) if child is not None else 0
            for bucket in ("protected", "unprotected"):
                env_p = sign1_env(None, {n: arg} if bucket == "protected" else {"suit-cose-algorithm-id": "cose-alg-es-256"}, {n: arg} if bucket == "unprotected" else {})
                in_context("header-key-in-sign1:" + bucket, n, {}, envelope_patch=env_p,
                           locate=lambda e, b=bucket, nm=n: (nm if isinstance(sign1_of(e).get(b), dict) and nm in sign1_of(e)[b] else str(sign1_of(e).get(b))))
    # tags
    for cname, t in reg["tags"]:
        cls = next((c for c in order if c.__name__ == cname), None)
        res.case(["tag", cname])
        if cls is None or cls._metadata.tag.value != t:
            res.spec_failures.append({"class": cname, "expected_tag": t, "what": "CBOR tag number differs from the registry"})
    tag_behaviour(res, order, dict(reg["tags"]))
    unregistered_codes(res, order, spaces)
    res.notes["not_in_registry"] = sorted(set(not_in_registry))
    # bit sets over a key space (reporting policy): a code is accepted exactly when it is a sum of registered bits, and comes back as exactly those
    # names; a bit that no name is registered for is not a code of the space (C08-q)
    import cbor2 as _cbor2
    for ci, cls in enumerate(order):
        kind, name, x = descs[id(cls)]
        if kind != "bitfield":
            continue
        bit_kind, bit_name, bit_x = descs[id(order[x[0]])]
        if bit_kind != "enum":
            continue
        bits = {n: c for n, c in bit_x}
        full = sum(bits.values())
        for code in list(range(0, 300)) + [511, 512, 65535, 65536, -1, -2]:
            expected_ok = code >= 0 and (code & ~full) == 0 and all(code & c == c or code & c == 0 for c in bits.values())
            try:
                r = cls.from_cbor(_cbor2.dumps(code)).to_obj()
                ok = True
            except ValueError:
                ok, r = False, None
            except BaseException as e:  # noqa
                res.spec_failures.append({"space": bit_name, "bit-set": name, "code": code, "impl": suitio.err_class(e), "what": "unexpected exception decoding a bit set"})
                continue
            res.case([name, code, "bitset"])
            res.count("bitset:" + ("accepted" if ok else "rejected"))
            mb = drv.call({"op": "suit.decode", "cls": ci, "bytes": _cbor2.dumps(code).hex()})
            if ("ok" in mb) != ok:
                res.mismatches.append({"op": "suit.decode", "bit-set": name, "code": code, "impl": "accepted" if ok else "rejected", "model": mb})
            if ok != expected_ok:
                res.spec_failures.append({"space": bit_name, "bit-set": name, "code": code, "accepted": ok, "rendered": r,
                                          "what": "a bit-set code is accepted although a bit of it has no registered name" if ok else "a sum of registered bits is rejected"})
            elif ok and (not isinstance(r, list) or sorted(r) != sorted(n for n, c in bits.items() if code & c)):
                res.spec_failures.append({"space": bit_name, "bit-set": name, "code": code, "rendered": r, "what": "a bit-set code is rendered as other names than those of its bits"})
    # a registered name the running code no longer has in its key space: the name itself is the failing input (C08-p)
    for sp, rn in registry.items():
        if sp not in spaces:
            continue
        entry = spaces[sp]
        ci, kind, names = entry[0], entry[1], entry[2]
        for n, code in rn.items():
            if n in names and names[n] == code:
                continue
            if kind == "enum":
                obj = n
            else:
                obj = {n: 0}
            try:
                got = order[ci].from_obj(__import__("copy").deepcopy(obj)).to_cbor().hex()
            except BaseException as e:  # noqa
                got = suitio.err_class(e)
            res.case([sp, n, "registered-missing"])
            res.spec_failures.append({"space": sp, "name": n, "registered_code": code, "code_in_tool": names.get(n), "description": str(obj), "impl": got,
                                      "what": f"the registered name {n} of key space {sp} (code {code}) is not a member of that key space in the tool"})
    # a vocabulary-bearing class the registry does not know, all of whose members are members of ONE registered key space with the registered
    # codes: that key space applies there, so every name of it must be accepted there (a key space split for one context, C08-o)
    for sp, entry in spaces.items():
        if sp in registry or entry[1] == "enum":
            continue
        ci, kind, names = entry[0], entry[1], entry[2]
        homes = [r for r, rn in registry.items() if names and all(rn.get(n) == c for n, c in names.items())]
        if len(homes) != 1:
            continue
        home = homes[0]
        hci, _, _, hchild = spaces[home] if home in spaces and len(spaces[home]) == 4 else (None, None, None, {})
        for n, code in registry[home].items():
            if n in names:
                continue
            child = hchild.get(n)
            obj = {n: sample_for(descs, order, child) if child is not None else 0}
            try:
                order[ci].from_obj(__import__("copy").deepcopy(obj)).to_cbor()
                continue
            except BaseException as e:  # noqa
                err = suitio.err_class(e)
            res.case([sp, n, "split-space"])
            res.spec_failures.append({"space": home, "class": sp, "name": n, "code": code, "description": str(obj)[:200], "impl": err,
                                      "what": f"class {sp} carries the key space {home} (all its members are that space's, with the registered codes) "
                                              f"but rejects the registered name {n}"})
    res.notes["key_spaces"] = {k: len(v[2]) for k, v in spaces.items()}
    res.sample({"space": "SuitDirective", "name": "suit-directive-fetch", "desc": {"suit-directive-fetch": []}, "wire": "8215" "00"})
    res.exhaustive = True
    drv.close()
    return finish(res, st, RULE, NOTE)


def unregistered_codes(res, order, spaces):
    """parse direction, integers that are no code of a key space (all of -80 .. 80 and the codes of the other spaces): a closed key space rejects
    them - never rendered under some registered name, never silently dropped"""
    import cbor2
    every = sorted({c for sp in spaces.values() for c in sp[2].values()} | set(range(-80, 81)))
    for sp, entry in spaces.items():
        ci, kind, names = entry[0], entry[1], entry[2]
        cls = order[ci]
        if kind == "keyValue" and getattr(cls._metadata, "embedded", None):
            continue            # an open map (the envelope: unknown keys are integrated payloads)
        registered = set(names.values())
        own = next(iter(names.items()), None)
        for code in every:
            if code in registered:
                continue
            items = {"enum": [code], "keyValueTuple": [[code, 0], [code, [1]], [code, None]], "keyValue": [{code: 0}, {code: b"\x00"}, {code: None}]}[kind]
            for it in items:
                try:
                    o = cls.from_cbor(cbor2.dumps(it))
                    shown = o.to_obj()
                except BaseException:  # noqa
                    continue
                res.spec_failures.append({"space": sp, "code": code, "item": cbor2.dumps(it).hex(), "rendered_as": json.dumps(shown, default=str)[:200],
                                          "what": "an integer that is no code of this key space is accepted on parse "
                                                  + ("and rendered under a registered name" if shown else "and silently dropped")})
                break
        res.case(["unregistered-codes", sp], nontrivial=True)
        res.count("decode:unregistered-code-sweeps")


def tag_behaviour(res, order, tags):
    """the tag numbers as behaviour: an item is read as the envelope / COSE_Sign1 / COSE_Encrypt exactly when it carries that class's registered tag (written
    back under the same tag); the same content under any other tag number, or under none, is not read as that class - also inside an authentication wrapper"""
    import cbor2
    from .. import suitio
    sign1 = [cbor2.dumps({1: -7}), {4: b"\x01"}, None, b"\x02" * 64]
    encrypt = [cbor2.dumps({1: 3}), {5: b"\x03" * 12}, None, [[b"", {1: -6, 4: b"\x09"}, None]]]
    created = suitio.impl_create({"SUIT_Envelope_Tagged": {"suit-authentication-wrapper": {"SuitDigest": {"suit-digest-algorithm-id": "cose-alg-sha-256"}},
                                                          "suit-manifest": {"suit-manifest-version": 1, "suit-manifest-sequence-number": 1}}})
    bodies = {"CoseSign1Tagged": sign1, "CoseEncryptTagged": encrypt}
    if "ok" in created:
        bodies["SuitEnvelopeTagged"] = cbor2.loads(bytes.fromhex(created["ok"])).value
    others = [16, 17, 18, 19, 96, 97, 98, 106, 107, 108, 24, 1070, 55799, None]
    # the classes themselves, not the byte-string wrappers that take over their names once instantiated (cbstr() copies __name__)
    from suit_generator.suit import security, envelope
    real = {"CoseSign1Tagged": security.CoseSign1Tagged, "CoseEncryptTagged": security.CoseEncryptTagged, "SuitAuthentication": security.SuitAuthentication,
            "SuitEnvelopeTagged": envelope.SuitEnvelopeTagged}
    for cname, body in bodies.items():
        cls = real.get(cname)
        if cls is None or cname not in tags:
            continue
        for t in others:
            b = cbor2.dumps(cbor2.CBORTag(t, body)) if t is not None else cbor2.dumps(body)
            res.case(["tag-behaviour", cname, t], nontrivial=True)
            res.count("tag-behaviour")
            try:
                o = cls.from_cbor(b)
                back = o.to_cbor()
                outcome = "accepted"
            except BaseException:  # noqa
                outcome, back = "rejected", None
            if t == tags[cname]:
                if outcome != "accepted" or back != b:
                    res.spec_failures.append({"class": cname, "tag": t, "item": b.hex(), "written_back": back.hex() if back else None, "what": f"an item carrying the registered tag {t} is not read as {cname} and written back unchanged ({outcome})"})
            elif outcome == "accepted":
                res.spec_failures.append({"class": cname, "tag": t, "written_back_under": back[:3].hex() if back else None,
                                          "what": f"an item tagged {t} is read as {cname} (registered tag {tags[cname]})" if t is not None else f"an untagged item is read as {cname}"})
    # in context: an authentication wrapper whose block carries another COSE tag (COSE_Mac0 = 17, COSE_Sign = 98) is not described as a COSE_Sign1
    auth = real["SuitAuthentication"]
    for t in (17, 98, 16):
        w = cbor2.dumps([cbor2.dumps([-16, b"\x00" * 32]), cbor2.dumps(cbor2.CBORTag(t, sign1))])
        res.case(["tag-behaviour", "SuitAuthentication", t], nontrivial=True)
        try:
            o = auth.from_cbor(w)
            desc, back = o.to_obj(), o.to_cbor()
        except BaseException:  # noqa
            continue
        if "CoseSign1Tagged" in json.dumps(desc) or back != w:
            res.spec_failures.append({"class": "SuitAuthentication", "tag": t, "what": f"an authentication block tagged {t} is described as CoseSign1Tagged or written back differently"})


def replay(payload: dict) -> int:
    print(payload)
    return 1
