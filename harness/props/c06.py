"""C06 - encryption artifacts are mutually consistent and decrypt to the firmware (also hosts the C14 history check)."""
from __future__ import annotations

import hashlib
import json
import os
import tempfile

from .. import common, suitio, signing
from ..common import Result, Driver, stage_a, finish, rng_for

PROP = "C06"
RULE = ("plaintexts of size 0, 1, 15, 16, 17, 4 KiB, 64 KiB-1/+0/+1 and random x key identifiers at CBOR width boundaries x five digest algorithms, through "
        "cmd_encrypt.main(encrypt-and-generate) with the repository's encrypt script and file KMS (calls recorded), and generate-info on random "
        "iv||tag||ciphertext blobs with and without a key file. Each case: model artifacts (given what AES-GCM returned) vs real files; the four files read back: "
        "Spec (strict reader) view of the info, independent AESGCM.decrypt with the harness key, the published IV and the Enc_structure of the published header; "
        "digest and size files recomputed; create accepts the info as raw parameter unchanged. distinct = distinct (plaintext, key id, algorithm)")
NOTE = ["AES-GCM is a parameter of the model (hypothesis: decryption inverts encryption for the same key, nonce and AAD); cryptography's AESGCM is the oracle",
        "C06_aad is checked by the kernel against the AAD bytes captured from the running encrypt script on every run"]

DIGESTS = {"sha-256": lambda b: hashlib.sha256(b).digest(), "sha-384": lambda b: hashlib.sha384(b).digest(), "sha-512": lambda b: hashlib.sha512(b).digest(),
           "shake128": lambda b: hashlib.shake_128(b).digest(16), "shake256": lambda b: hashlib.shake_256(b).digest(32)}
KEY_IDS = [0, 23, 24, 255, 256, 65535, 65536, 0x7FFFFFE0, 0xFFFFFFFF]
AES_KEY = bytes(range(32))


# key names are names: a dot in the name is part of the name ("fw_enc.v2" is the file fw_enc.v2.bin, not fw_enc.bin, which also exists)
AES_KEYS = {"aes_key": AES_KEY, "fw_enc.v2": bytes(range(1, 33)), "fw_enc": bytes(range(2, 34)), "app.prod": bytes(range(3, 35)),
            "key.bin": bytes(range(4, 36)), "with space": bytes(range(5, 37)),
            # key material is 32 bytes, whatever they look like: all printable hex digits, all white space and digits
            "printable": b"0123456789abcdef0123456789abcdef", "digits": b"12345678901234567890123456789012"}


def aes_keys_dir():
    d = signing.keys_dir()
    for name, key in AES_KEYS.items():
        p = os.path.join(d, name + ".bin")
        if not os.path.exists(p):
            with open(p, "wb") as fh:
                fh.write(key)
    return d


def run_encrypt(firmware: bytes, key_id: int, hash_alg: str, d: str, key_name: str = "aes_key"):
    from suit_generator import cmd_encrypt
    fw = os.path.join(d, "fw.bin")
    outd = os.path.join(d, "out")
    os.makedirs(outd, exist_ok=True)
    for f in os.listdir(outd):
        os.unlink(os.path.join(outd, f))
    for f in ("encrypted_content.bin", "suit_encryption_info.bin", "plain_text_digest.bin", "plain_text_size.txt"):
        common.make_stale(os.path.join(outd, f))           # artifacts of an earlier, larger build are in the output directory
    with open(fw, "wb") as fh:
        fh.write(firmware)
    rec = os.path.join(d, "kms_record.jsonl")
    if os.path.exists(rec):
        os.unlink(rec)
    os.environ["VERIF_KMS_RECORD"] = rec
    os.environ["REPO"] = str(common.REPO)
    try:
        if (len(firmware) + key_id) % 4 == 1:
            # an incremental rebuild: the output directory holds the artifacts of an earlier run for this very firmware
            for f in os.listdir(outd):
                os.unlink(os.path.join(outd, f))
            cmd_encrypt.main(encrypt_subcommand="encrypt-and-generate", firmware=fw, key_name=key_name, key_id=key_id, context=aes_keys_dir(),
                             hash_alg=hash_alg, kw_alg="direct", kms_script=str(common.REPO / "ncs" / "basic_kms.py"),
                             encrypt_script=str(common.REPO / "ncs" / "encrypt_script.py"), output_dir=outd)
        cmd_encrypt.main(encrypt_subcommand="encrypt-and-generate", firmware=fw, key_name=key_name, key_id=key_id, context=aes_keys_dir(),
                         hash_alg=hash_alg, kw_alg="direct", kms_script=str(common.VERIF / "harness" / "kms_recording.py"),
                         encrypt_script=str(common.REPO / "ncs" / "encrypt_script.py"), output_dir=outd)
        files = {f: open(os.path.join(outd, f), "rb").read() for f in os.listdir(outd)}
        res = {"ok": files}
    except BaseException as e:  # noqa
        res = {"err": type(e).__name__}
    recs = [json.loads(l) for l in open(rec)] if os.path.exists(rec) else []
    return res, recs


def check_artifacts(drv, files, firmware, key_id, hash_alg, problems, key_name="aes_key"):
    need = {"encrypted_content.bin", "suit_encryption_info.bin", "plain_text_digest.bin", "plain_text_size.txt"}
    if set(files) != need:
        problems.append(f"output files are {sorted(files)}")
        return None
    info = files["suit_encryption_info.bin"]
    v = drv.call({"op": "spec.C06", "info": info.hex()})
    if "ok" not in v:
        problems.append("encryption info is not a bstr-wrapped COSE_Encrypt (tag 96) of the expected shape")
        return None
    v = v["ok"]
    if v["protected"] != "a10103":
        problems.append("protected header does not name AES-GCM-256")
    if v["kw"] != -6 or v["cek"] is not None:
        problems.append("recipient is not the direct key")
    if v["key_id"] != key_id:
        problems.append("key identifier in the info differs")
    content = files["encrypted_content.bin"]
    from cryptography.hazmat.primitives.ciphers.aead import AESGCM
    try:
        pt = AESGCM(AES_KEYS[key_name]).decrypt(bytes.fromhex(v["iv"]), content[16:] + content[:16], bytes.fromhex(v["aad"]))
        if pt != firmware:
            problems.append("decryption yields a different plaintext")
    except Exception:
        problems.append(f"AES-GCM decryption with the key named {key_name!r}, the published IV, the Enc_structure of the published protected header and tag||ciphertext fails")
    if files["plain_text_digest.bin"] != DIGESTS[hash_alg](firmware):
        problems.append("plain_text_digest.bin is not the digest of the plaintext")
    if files["plain_text_size.txt"] != str(len(firmware)).encode():
        problems.append("plain_text_size.txt is not the plaintext length")
    # create accepts the info unchanged as a raw encryption-info parameter
    try:
        from suit_generator.suit.manifest import SuitEncryptionInfo
        # the hex text of the file as people paste it into a description: one line, upper case, a folded / literal block scalar (line breaks),
        # a hex dump with blanks
        hx = info.hex()
        form = (len(firmware) + key_id) % 5
        text = [hx, hx.upper(), "\n".join(hx[i:i + 64] for i in range(0, len(hx), 64)) + "\n", " ".join(hx[i:i + 2] for i in range(0, len(hx), 2)),
                " ".join(hx[i:i + 32] for i in range(0, len(hx), 32))][form]
        obj = {"raw": text}
        if SuitEncryptionInfo.from_obj(obj).to_cbor() != info:
            problems.append("create re-encodes the raw encryption info differently")
        # one mapping referenced from two places of a description (a YAML anchor and its alias are one object): the second use is the first use
        if SuitEncryptionInfo.from_obj(obj).to_cbor() != info:
            problems.append("create re-encodes the raw encryption info differently when the same mapping object is used a second time (YAML alias)")
    except BaseException as e:  # noqa
        problems.append(f"create rejects the raw encryption info (hex text form {form}; first or second use of the same mapping object): " + type(e).__name__)
    return v


def work(args):
    seed, index, size, key_id, hash_alg = args
    import random
    rng = random.Random(f"{seed}:{index}:c06")
    firmware = bytes(rng.randrange(256) for _ in range(size)) if size < 100000 else rng.randbytes(size)
    drv = common.worker_driver()
    out = {"hash": hashlib.sha1(firmware + f"{key_id}{hash_alg}".encode()).hexdigest(), "problems": [], "mismatch": None, "iv": None}
    key_name = "aes_key" if index % 3 else sorted(AES_KEYS)[(index // 3) % len(AES_KEYS)]
    out["key_name"] = key_name
    with tempfile.TemporaryDirectory(prefix="verif_c06_") as d:
        res, recs = run_encrypt(firmware, key_id, hash_alg, d, key_name)
    if "ok" not in res:
        out["problems"].append(f"encrypt-and-generate with the key named {key_name!r} failed: " + res["err"])
        return out
    files = res["ok"]
    encs = [r for r in recs if r[0] == "encrypt"]
    if len(encs) == 1:
        _, _, aad, nonce, tag, ct = encs[0]
        model = drv.call({"op": "enc.encrypt", "nonce": nonce, "tag": tag, "ct": ct, "key_id": key_id})["ok"]
        if model["content"] != files.get("encrypted_content.bin", b"").hex() or model["info"] != files.get("suit_encryption_info.bin", b"").hex():
            out["mismatch"] = {"op": "enc.encrypt", "impl": {k: v.hex()[:300] for k, v in files.items()}, "model": {k: v[:300] for k, v in model.items()}}
    else:
        out["problems"].append(f"{len(encs)} KMS encrypt calls for one encryption")
    v = check_artifacts(drv, files, firmware, key_id, hash_alg, out["problems"], key_name)
    out["iv"] = v["iv"] if v else None
    return out


def generate_info_cases(drv, res, rng, tier):
    from suit_generator import cmd_encrypt
    n = 60 if tier == "quick" else 1500
    with tempfile.TemporaryDirectory(prefix="verif_c06g_") as d:
        outd = os.path.join(d, "out")
        os.makedirs(outd)
        for i in range(n):
            size = rng.choice([28, 29, 44, 28 + 4096, rng.randrange(28, 300)])
            blob = bytes(rng.randrange(256) for _ in range(size))
            cek = rng.choice([b"", bytes(rng.randrange(256) for _ in range(40))])
            if i % 3 == 1:
                # the blob and the wrapped key are binary: bytes that text handling would strip or translate at either end (C06-p)
                edge = rng.choice([b"\n", b"\r", b"\r\n", b" ", b"\t", b"\x00", b"\x1a", b"\n\n", b"\xef\xbb\xbf"])
                blob = (edge + blob[len(edge):]) if rng.random() < 0.35 else (blob[:len(blob) - len(edge)] + edge)
                if cek and rng.random() < 0.5:
                    cek = cek[:-len(edge)] + edge
                res.count("generate-info:text-sensitive-edge-bytes")
            key_id = rng.choice(KEY_IDS)
            kw = rng.choice(["direct", "aes-kw-256"])
            bf, kf = os.path.join(d, "blob.bin"), os.path.join(d, "cek.bin")
            for f in os.listdir(outd):
                os.unlink(os.path.join(outd, f))
            for f in ("encrypted_content.bin", "suit_encryption_info.bin"):
                common.make_stale(os.path.join(outd, f))
            if i % 5 == 3:
                # conversion in place: the blob handed out by the KMS already lies in the output directory under the artifact's name
                bf = os.path.join(outd, "encrypted_content.bin")
                res.count("generate-info:in-place")
            open(bf, "wb").write(blob)
            open(kf, "wb").write(cek)
            try:
                cmd_encrypt.main(encrypt_subcommand="generate-info", encrypted_firmware=bf, encrypted_key=kf, key_id=key_id, kw_alg=kw,
                                 encrypt_script=str(common.REPO / "ncs" / "encrypt_script.py"), output_dir=outd)
                impl = {"ok": {"content": open(os.path.join(outd, "encrypted_content.bin"), "rb").read().hex(),
                               "info": open(os.path.join(outd, "suit_encryption_info.bin"), "rb").read().hex()}}
            except BaseException as e:  # noqa
                impl = {"err": type(e).__name__}
            model = drv.call({"op": "enc.generate", "asset": blob.hex(), "cek": cek.hex(), "key_id": key_id, "kw": -6 if kw == "direct" else -5})
            res.case(["generate-info", blob.hex(), cek.hex(), key_id, kw])
            res.count("generate-info:" + ("ok" if "ok" in impl else impl["err"]))
            if impl != model:
                res.mismatches.append({"op": "enc.generate", "case": [size, len(cek), key_id, kw], "impl": impl, "model": model})
            if "ok" not in impl:
                res.spec_failures.append({"case": [blob.hex()[:200], key_id, kw], "size": size, "what": f"generate-info refused a well-formed iv || tag || ciphertext blob of {size} bytes ({size - 28} bytes of ciphertext): " + impl["err"]})
            if "ok" in impl:
                v = drv.call({"op": "spec.C06", "info": impl["ok"]["info"]})
                if "ok" not in v:
                    res.spec_failures.append({"case": [blob.hex(), key_id], "what": "generate-info: encryption info has not the expected shape"})
                    continue
                v = v["ok"]
                if bytes.fromhex(v["iv"]) + bytes.fromhex(impl["ok"]["content"]) != blob:
                    res.spec_failures.append({"case": [blob.hex(), key_id], "what": "generate-info: iv || tag || ciphertext of the outputs is not the supplied blob"})
                if v["key_id"] != key_id or v["kw"] != (-6 if kw == "direct" else -5) or v["cek"] != cek.hex():
                    res.spec_failures.append({"case": [blob.hex(), key_id], "what": "generate-info: key id / key-wrap algorithm / CEK differ"})


def failed_run_cases(drv, res, rng, tier):
    """a run that fails (key unknown to the KMS, unreadable firmware) after a good run into the same output directory: what lies in the directory
    afterwards is still a consistent set of artifacts (the untouched earlier one), or nothing"""
    from suit_generator import cmd_encrypt
    names = ("encrypted_content.bin", "suit_encryption_info.bin", "plain_text_digest.bin", "plain_text_size.txt")
    for i in range(4 if tier == "quick" else 40):
        with tempfile.TemporaryDirectory(prefix="verif_c06f_") as d:
            outd = os.path.join(d, "out")
            os.makedirs(outd)
            fw = os.path.join(d, "fw.bin")
            firmware = bytes(rng.randrange(256) for _ in range(rng.choice([1, 16, 300, 5000])))
            open(fw, "wb").write(firmware)
            key_id = rng.choice(KEY_IDS)
            kwargs = dict(encrypt_subcommand="encrypt-and-generate", firmware=fw, key_name="aes_key", key_id=key_id, context=aes_keys_dir(), hash_alg="sha-256",
                          kw_alg="direct", kms_script=str(common.REPO / "ncs" / "basic_kms.py"), encrypt_script=str(common.REPO / "ncs" / "encrypt_script.py"), output_dir=outd)
            res.case(["failed-run", i, key_id], nontrivial=True)
            res.count("failed-run")
            try:
                cmd_encrypt.main(**kwargs)
            except BaseException as e:  # noqa
                res.spec_failures.append({"case": ["failed-run", i], "what": "a plain encrypt-and-generate run failed: " + type(e).__name__})
                continue
            before = {f: open(os.path.join(outd, f), "rb").read() for f in os.listdir(outd)}
            how = ["unknown key name", "firmware file missing"][i % 2]
            bad = dict(kwargs, key_name="no_such_key") if i % 2 == 0 else dict(kwargs, firmware=os.path.join(d, "absent.bin"))
            try:
                cmd_encrypt.main(**bad)
                res.spec_failures.append({"case": ["failed-run", i, how], "what": "a run that cannot succeed reported success"})
                continue
            except BaseException:  # noqa
                pass
            after = {f: open(os.path.join(outd, f), "rb").read() for f in os.listdir(outd)}
            if after == before or not any(f in after for f in names):
                continue
            problems = []
            check_artifacts(drv, after, firmware, key_id, "sha-256", problems)
            if problems:
                res.spec_failures.append({"case": ["failed-run", i, how], "sizes_before": {f: len(b) for f, b in before.items()}, "sizes_after": {f: len(b) for f, b in after.items()},
                                          "what": f"after a run that failed ({how}) the output directory holds artifacts that are not consistent: " + problems[0]})


def cli_cases(res, drv, tier):
    """encrypt-and-generate and generate-info through the real command line: the key identifier written in decimal and hexadecimal"""
    from concurrent.futures import ThreadPoolExecutor
    nums = [12345678, 40022100, 0, 23, 24, 0x40022100, 0xFFFFFFFF, 10000000] if tier == "quick" else common.CLI_NUMBERS
    cases = [(n, sp, sub) for n in nums for sp in common.spellings(n)[: (2 if tier == "quick" else 4)] for sub in ("encrypt-and-generate", "generate-info")]
    fw = bytes(range(100))
    with tempfile.TemporaryDirectory(prefix="verif_c06cli_") as d:
        fwp, blobp, cekp = os.path.join(d, "fw.bin"), os.path.join(d, "blob.bin"), os.path.join(d, "cek.bin")
        open(fwp, "wb").write(fw)
        open(blobp, "wb").write(bytes(range(12)) + bytes(range(16)) + bytes(range(33)))
        open(cekp, "wb").write(b"")

        def one(k):
            n, sp, sub = cases[k]
            outd = os.path.join(d, f"o{k}")
            os.makedirs(outd)
            if sub == "encrypt-and-generate":
                args = ["encrypt", sub, "--firmware", fwp, "--key-name", "aes_key", "--key-id", sp, "--context", aes_keys_dir(), "--kms-script",
                        str(common.REPO / "ncs" / "basic_kms.py"), "--encrypt-script", str(common.REPO / "ncs" / "encrypt_script.py"), "--output-dir", outd]
            else:
                args = ["encrypt", sub, "--encrypted-firmware", blobp, "--encrypted-key", cekp, "--key-id", sp, "--encrypt-script",
                        str(common.REPO / "ncs" / "encrypt_script.py"), "--output-dir", outd]
            rc, log = common.run_cli(args, d)
            files = {f: open(os.path.join(outd, f), "rb").read() for f in os.listdir(outd)}
            return rc, log, files
        with ThreadPoolExecutor(max_workers=12) as ex:
            outs = list(ex.map(one, range(len(cases))))
    for (n, sp, sub), (rc, log, files) in zip(cases, outs):
        res.case(["cli-encrypt", sub, n, sp], nontrivial=True)
        res.count("cli:" + sub)
        info = files.get("suit_encryption_info.bin")
        if rc != 0 or info is None:
            res.spec_failures.append({"cli": "encrypt " + sub, "key_id_argument": sp, "what": f"the command line refused --key-id {sp} (exit {rc})", "log": log[-300:]})
            continue
        v = drv.call({"op": "spec.C06", "info": info.hex()})
        if "ok" not in v or v["ok"]["key_id"] != n:
            res.spec_failures.append({"cli": "encrypt " + sub, "key_id_argument": sp, "denotes": n, "in_info": v.get("ok", {}).get("key_id"),
                                      "what": f"--key-id {sp} on the command line: the encryption info does not name key {n}"})
            continue
        if sub == "encrypt-and-generate":
            check_artifacts(drv, files, fw, n, "sha-256", problems := [])
            for pr in problems:
                res.spec_failures.append({"cli": "encrypt " + sub, "key_id_argument": sp, "what": pr})


def run(tier: str, seed: int, prop=PROP) -> int:
    common.ensure_repo_on_path()
    res = Result(PROP, tier, seed)
    st = stage_a(PROP, thorough=(tier == "thorough"))
    if not st.ok_driver:
        return finish(res, st, RULE, NOTE)
    aes_keys_dir()
    rng = rng_for(seed, PROP)
    sizes = [0, 1, 15, 16, 17, 4096, 65535, 65536, 65537]
    jobs = []
    i = 0
    reps = 1 if tier == "quick" else 12
    for _ in range(reps):
        for size in sizes:
            for alg in DIGESTS:
                jobs.append((seed, i, size, KEY_IDS[i % len(KEY_IDS)], alg))
                i += 1
    for k in range(120 if tier == "quick" else 4000):
        jobs.append((seed, i, rng.randrange(0, 3000), rng.choice(KEY_IDS + [rng.randrange(0, 2 ** 32)]), rng.choice(list(DIGESTS))))
        i += 1
    # images of real size (application cores are megabytes): around 1 MiB and beyond, where a reader or cipher working in pieces changes its path
    for size in ([1 << 20, (1 << 20) + 1, 2621440 + 7] if tier == "quick" else [1 << 20, (1 << 20) + 1, (1 << 20) - 1, 2621440 + 7, 4 << 20, (8 << 20) + 3]):
        jobs.append((seed, i, size, KEY_IDS[i % len(KEY_IDS)], list(DIGESTS)[i % len(DIGESTS)]))
        i += 1
    outs = common.pmap(work, jobs, chunk=4)
    for job, o in zip(jobs, outs):
        res.evaluations += 1
        res.nontrivial.add(o["hash"])
        res.count("size:" + (str(job[2]) if job[2] in sizes else "random"))
        res.count("digest:" + job[4])
        res.count("key-name:" + o.get("key_name", "?"))
        if o["mismatch"]:
            res.mismatches.append({**o["mismatch"], "job": list(job)})
        for p in o["problems"]:
            res.spec_failures.append({"job": list(job), "what": p})
        if len(res.samples) < 4 and job[1] % 41 == 0:
            res.sample({"job": list(job), "published_iv": o["iv"]})
    drv = Driver()
    generate_info_cases(drv, res, rng, tier)
    failed_run_cases(drv, res, rng, tier)
    from .. import reuse
    reuse.encryptor_reuse(res, PROP)
    cli_cases(res, drv, tier)
    drv.close()
    return finish(res, st, RULE, NOTE)


def replay(payload: dict) -> int:
    common.ensure_repo_on_path()
    job = payload.get("job") or payload.get("first_mismatch", {}).get("job")
    if not job:
        print(payload)
        return 1
    aes_keys_dir()
    o = work(tuple(job))
    print(o)
    bad = bool(o.get("mismatch")) or bool(o.get("problems"))
    if bad:
        print(f"VIOLATION property={PROP} replay=(given)")
    return 1 if bad else 0
