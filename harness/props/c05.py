"""C05 - digests, sizes and payloads taken from files describe those exact files."""
from __future__ import annotations

import hashlib
import json
import os

from .. import common, suitio, suitcases, cbortree as ct
from ..common import Result, stage_a, finish, Findings

PROP = "C05"
RULE = ("generated descriptions referring to external artifacts in all four reference forms (file, file_direct, envelope inline / by path, raw) for image "
        "digests and sizes, integrated payloads by path, dependencies inline and by path (nesting to depth 3), five algorithms, file sizes 0, 1 and CBOR width "
        "boundaries, file names that look like hex. Each case: real create vs model (bytes); then the created envelope is parsed by the *model* and every "
        "reference in the description is re-computed from the files with hashlib / len and compared. distinct = distinct descriptions")
NOTE = ["the theorems are per reference form, for all file systems and hash functions; the composition along a whole description is by the generic interpreter "
        "and is tied by byte-exact correspondence",
        "known finding F9: an integrated payload whose text is all hex digits is taken as hex even when a file of that name exists (input-language ambiguity)",
        "dependency by path: the parent hashes the child after re-encoding it; identical to the file's manifest span unless the child is in the F4 region (C03)"]

HASHES = {"cose-alg-sha-256": lambda b: hashlib.sha256(b).digest(), "cose-alg-sha-384": lambda b: hashlib.sha384(b).digest(),
          "cose-alg-sha-512": lambda b: hashlib.sha512(b).digest(), "cose-alg-shake128": lambda b: hashlib.shake_128(b).digest(16),
          "cose-alg-shake256": lambda b: hashlib.shake_256(b).digest(32)}


def manifest_span(envelope: bytes) -> bytes:
    root = ct.decode(envelope)
    for k, v in root.children[0].children:
        if k.major == 0 and k.arg == 3:
            return ct.encode(v)
    raise ValueError("no manifest")


def child_bytes(sub, files):
    """the child envelope as created on its own (inline description) or as stored in the file"""
    if isinstance(sub, dict):
        r = suitcases.run_impl_create(sub, files)
        return bytes.fromhex(r["ok"]) if "ok" in r else None
    return files.get(sub)


def walk(desc, parsed, files, path, out):
    if isinstance(desc, dict):
        if "suit-digest-algorithm-id" in desc and isinstance(desc.get("suit-digest-bytes"), dict):
            ref = desc["suit-digest-bytes"]
            alg = desc["suit-digest-algorithm-id"]
            got = parsed.get("suit-digest-bytes") if isinstance(parsed, dict) else None
            exp = None
            if "file" in ref:
                exp = HASHES[alg](files[ref["file"]]).hex()
            elif "file_direct" in ref:
                exp = files[ref["file_direct"]].hex()
            elif "raw" in ref:
                exp = ref["raw"].lower()
            elif "envelope" in ref:
                cb = child_bytes(ref["envelope"], files)
                exp = HASHES[alg](manifest_span(cb)).hex() if cb is not None else None
                if isinstance(ref["envelope"], dict):
                    walk_envelope(ref["envelope"], cb, files, path + ["<child>"], out)
            out.append(("digest:" + next(iter(ref)), path, exp, got))
            return
        for k, v in desc.items():
            sub = parsed.get(k) if isinstance(parsed, dict) else None
            if k == "suit-parameter-image-size" and isinstance(v, dict) and "raw" not in v:
                exp = None
                if "file" in v:
                    exp = len(files[v["file"]])
                elif "file_direct" in v:
                    exp = int(files[v["file_direct"]].decode())
                elif "envelope" in v:
                    cb = child_bytes(v["envelope"], files)
                    exp = len(cb) if cb is not None else None
                out.append(("size:" + next(iter(v)), path + [k], exp, sub.get("raw") if isinstance(sub, dict) else None))
                continue
            if k in ("suit-integrated-payloads", "suit-integrated-dependencies") and isinstance(v, dict):
                continue  # handled at the envelope level
            walk(v, sub, files, path + [k], out)
    elif isinstance(desc, list):
        # a command-sequence item holding several commands is rendered by parse as one item per command
        desc = [x for v in desc for x in ([{k: a} for k, a in v.items()] if isinstance(v, dict) and len(v) > 1 and
                                          all(k.startswith(("suit-condition-", "suit-directive-")) for k in v) else [v])]
        for i, v in enumerate(desc):
            walk(v, parsed[i] if isinstance(parsed, list) and i < len(parsed) else None, files, path + [i], out)


def is_all_hex(s):
    import string
    return all(c in string.hexdigits for c in s)


def walk_envelope(desc, env_bytes, files, path, out, drv=None):
    """desc: envelope description; env_bytes: what create produced for it"""
    if env_bytes is None:
        return
    drv = drv or common.worker_driver()
    parsed = suitio.model_parse(drv, env_bytes)
    if "ok" not in parsed:
        out.append(("parse", path, "ok", parsed))
        return
    p = parsed["ok"].get("SUIT_Envelope_Tagged", {})
    d = desc["SUIT_Envelope_Tagged"]
    members = {}
    for kk in ("suit-integrated-payloads", "suit-integrated-dependencies"):
        members.update(p.get(kk, {}) or {})
    for kk in ("suit-integrated-payloads", "suit-integrated-dependencies"):
        for name, v in (d.get(kk) or {}).items():
            got = members.get(name)
            if isinstance(v, dict):
                cb = child_bytes(v, files)
                out.append(("dependency:inline", path + [kk, name], cb.hex() if cb is not None else None, got))
                walk_envelope(v, cb, files, path + [kk, name], out, drv)
            elif isinstance(v, str) and is_all_hex(v):
                kind = "payload:hex" if v not in files else "payload:hex-named-file(F9)"
                out.append((kind, path + [kk, name], files[v].hex() if v in files else v.lower(), got))
            elif isinstance(v, str):
                out.append(("payload:path" if not v.endswith(".suit") else "dependency:path", path + [kk, name], files[v].hex(), got))
    # digests that create recalculates from the envelope's own content are C01's subject: a reference supplied there does not survive (and must not)
    d = dict(d)
    aw = d.get("suit-authentication-wrapper")
    if isinstance(aw, dict) and isinstance(aw.get("SuitDigest"), dict) and isinstance(aw["SuitDigest"].get("suit-digest-bytes"), dict):
        d["suit-authentication-wrapper"] = {**aw, "SuitDigest": {**aw["SuitDigest"], "suit-digest-bytes": ""}}
    mf = d.get("suit-manifest")
    if isinstance(mf, dict):
        mf = dict(mf)
        for k in ("suit-payload-fetch", "suit-install", "suit-install-legacy", "suit-dependency-resolution", "suit-candidate-verification", "suit-text"):
            if k in d and isinstance(mf.get(k), dict) and isinstance(mf[k].get("suit-digest-bytes"), dict):
                mf[k] = {**mf[k], "suit-digest-bytes": ""}
        d["suit-manifest"] = mf
    walk(d, p, files, path, out)


def work(args):
    seed, index, kind = args
    drv = common.worker_driver()
    try:
        desc, files, feats = suitcases.make_case(seed, index, big=(kind == "big"), depth=3 if kind == "deep" else 2)
    except suitcases.ChildFailed:
        return None
    if kind == "bigfile":
        # a digest / size / payload taken from a file just over a whole number of 64 KiB blocks (block-wise readers)
        import random
        rng = random.Random(f"{seed}:{index}:bigfile")
        size = rng.choice([65537, 65536 + 4096, 131073, 200000, 65535, 65536, 131072])
        files["bigfile.bin"] = bytes((i * 131 + 7) % 256 for i in range(size))
        alg = rng.choice(["cose-alg-sha-256", "cose-alg-sha-384", "cose-alg-sha-512", "cose-alg-shake128", "cose-alg-shake256"])
        m = desc["SUIT_Envelope_Tagged"]["suit-manifest"]
        m["suit-validate"] = [{"suit-directive-override-parameters": {
            "suit-parameter-image-digest": {"suit-digest-algorithm-id": alg, "suit-digest-bytes": {"file": "bigfile.bin"}},
            "suit-parameter-image-size": {"file": "bigfile.bin"}}}]
        if rng.random() < 0.5:
            desc["SUIT_Envelope_Tagged"].setdefault("suit-integrated-payloads", {})["#bigfile"] = "bigfile.bin"
    if kind == "hexname":
        # a payload file whose name consists of hex digits only
        import random
        rng = random.Random(f"{seed}:{index}:hexname")
        name = rng.choice(["cafe", "00", "deadbeef", "ABCD", "f00d"])
        files[name] = bytes([0xFF]) + bytes(rng.randrange(256) for _ in range(rng.randrange(1, 30)))
        desc["SUIT_Envelope_Tagged"].setdefault("suit-integrated-payloads", {})["#hexnamed"] = name
        # the same kind of name in the dictionary forms {file: NAME}: there the name is a path and nothing else (no ambiguity: not part of F9)
        name2 = rng.choice(["3f9a2c1e", "20240926", "deadbeef", "00ff", "ABCDEF"])
        files[name2] = bytes(rng.randrange(256) for _ in range(rng.randrange(1, 1200)))
        alg = rng.choice(["cose-alg-sha-256", "cose-alg-sha-384", "cose-alg-sha-512", "cose-alg-shake128", "cose-alg-shake256"])
        desc["SUIT_Envelope_Tagged"]["suit-manifest"]["suit-validate"] = [{"suit-directive-override-parameters": {
            "suit-parameter-image-digest": {"suit-digest-algorithm-id": alg, "suit-digest-bytes": {"file": name2}},
            "suit-parameter-image-size": {"file": name2}}}]
    if kind == "suffix":
        # files whose names suggest a format (Intel HEX, JSON, YAML, base64, gzip) and whose content *is* of that format: a referenced file is bytes,
        # whatever it is called - the member is the file's content, digest and size describe the file
        import random
        import io
        import intelhex
        rng = random.Random(f"{seed}:{index}:suffix")
        raw = bytes(rng.randrange(256) for _ in range(rng.choice([16, 300, 1000])))
        ih = intelhex.IntelHex()
        ih.frombytes(raw, offset=rng.choice([0, 0x1000, 0x0E0A0000]))
        sio = io.StringIO()
        ih.write_hex_file(sio)
        import base64
        import gzip
        candidates = {"app.hex": sio.getvalue().encode(), "APP_CORE.HEX": sio.getvalue().encode(), "radio.ihex": sio.getvalue().encode(), "cfg.json": b'{"a": [1, 2, 3]}\n',
                      "notes.yaml": b"a: 1\nb: [x, y]\n", "blob.b64": base64.b64encode(raw) + b"\n", "fw.bin.gz": gzip.compress(raw, mtime=0), "image.txt": raw.hex().encode()}
        name = rng.choice(sorted(candidates))
        files[name] = candidates[name]
        alg = rng.choice(["cose-alg-sha-256", "cose-alg-sha-384", "cose-alg-sha-512", "cose-alg-shake128", "cose-alg-shake256"])
        desc["SUIT_Envelope_Tagged"].setdefault("suit-integrated-payloads", {})["#" + name] = name
        desc["SUIT_Envelope_Tagged"]["suit-manifest"]["suit-validate"] = [{"suit-directive-override-parameters": {
            "suit-parameter-image-digest": {"suit-digest-algorithm-id": alg, "suit-digest-bytes": {"file": name}}, "suit-parameter-image-size": {"file": name}}}]
    if kind == "paddedchild":
        # a dependency envelope file that is valid but not what this tool would write byte for byte (padding after the CBOR item, as in a flash dump or
        # a file from another encoder): size and content by path describe the *file*
        import random
        rng = random.Random(f"{seed}:{index}:padded")
        child = {"SUIT_Envelope_Tagged": {"suit-authentication-wrapper": {"SuitDigest": {"suit-digest-algorithm-id": "cose-alg-sha-256"}},
                                          "suit-manifest": {"suit-manifest-version": 1, "suit-manifest-sequence-number": index % 50,
                                                            "suit-common": {"suit-components": [["M", 1]]}}}}
        cb = suitcases.run_impl_create(child, {})
        if "ok" not in cb:
            return None
        pad = rng.choice([b"\xff", b"\xff" * 3, b"\xff" * 64, b"\x00" * 2])
        files["child_padded.suit"] = bytes.fromhex(cb["ok"]) + pad
        desc["SUIT_Envelope_Tagged"]["suit-manifest"]["suit-validate"] = [{"suit-directive-override-parameters": {
            "suit-parameter-image-size": {"envelope": "child_padded.suit"}}}]
        desc["SUIT_Envelope_Tagged"].setdefault("suit-integrated-dependencies", {})["#child_padded.suit"] = "child_padded.suit"
    if kind == "symlink":
        # a referenced path is resolved the way the operating system resolves it: ".." after a directory that is a symbolic link leads to the parent of the
        # link's target, not to the parent of the link's name; at the lexically shortened place lies another file
        import random
        import shutil
        rng = random.Random(f"{seed}:{index}:symlink")
        real, lexical = bytes([0xFF]) + rng.randbytes(rng.choice([20, 300])), bytes([0xFF]) + rng.randbytes(rng.choice([33, 64]))
        ref_name = "current/../images/app.bin"
        alg = rng.choice(["cose-alg-sha-256", "cose-alg-sha-512", "cose-alg-shake128"])
        desc["SUIT_Envelope_Tagged"].setdefault("suit-integrated-payloads", {})["#linked"] = ref_name
        desc["SUIT_Envelope_Tagged"]["suit-manifest"]["suit-validate"] = [{"suit-directive-override-parameters": {
            "suit-parameter-image-digest": {"suit-digest-algorithm-id": alg, "suit-digest-bytes": {"file": ref_name}}, "suit-parameter-image-size": {"file": ref_name}}}]
        d = suitcases.scratch_dir()
        made = [os.path.join(d, x) for x in ("store", "images", "current")]
        for x in made:
            if os.path.islink(x):
                os.unlink(x)
            else:
                shutil.rmtree(x, ignore_errors=True)
        os.makedirs(os.path.join(d, "store", "build_7", "out"))
        os.makedirs(os.path.join(d, "store", "build_7", "images"))
        os.makedirs(os.path.join(d, "images"))
        open(os.path.join(d, "store", "build_7", "images", "app.bin"), "wb").write(real)
        open(os.path.join(d, "images", "app.bin"), "wb").write(lexical)
        os.symlink(os.path.join("store", "build_7", "out"), os.path.join(d, "current"))
        suitcases.write_files(files, d)
        try:
            impl = suitio.impl_create(desc, cwd=d)
        finally:
            suitcases.clear_files(files, d)
            os.unlink(os.path.join(d, "current"))
            shutil.rmtree(os.path.join(d, "store"), ignore_errors=True)
            shutil.rmtree(os.path.join(d, "images"), ignore_errors=True)
        files[ref_name] = real
    else:
        impl = suitcases.run_impl_create(desc, files)
    model = suitio.model_create(drv, desc, files)
    if kind == "decoy" and "ok" in impl:
        # through the command line, the description kept in another directory that holds same-named files with other contents:
        # relative names are relative to the working directory
        cli = suitcases.run_cli_create(desc, files, "yaml" if index % 2 else "json", decoy=True)
        if cli != impl:
            impl = cli if "ok" in cli else {"err": "cli:" + cli.get("err", "?")}
    agree = impl == model or suitio.same_err(impl, model)
    refs = []
    if "ok" in impl:
        walk_envelope(desc, bytes.fromhex(impl["ok"]), files, [], refs, drv)
    import json
    h = hashlib.sha1(json.dumps(desc, sort_keys=True, default=str).encode()).hexdigest()
    bad = [(k, p, e, g) for (k, p, e, g) in refs if e is not None and e != g]
    return {"agree": agree, "impl": None if agree else impl, "model": None if agree else model, "ok": "ok" in impl, "err": impl.get("err"),
            "refs": [k for (k, _, _, _) in refs], "bad": [(k, [str(x) for x in p], str(e)[:200], str(g)[:200]) for (k, p, e, g) in bad[:5]], "hash": h}


def run(tier: str, seed: int) -> int:
    common.ensure_repo_on_path()
    res = Result(PROP, tier, seed)
    st = stage_a(PROP, thorough=(tier == "thorough"))
    if not st.ok_driver:
        return finish(res, st, RULE, NOTE)
    n = 1000 if tier == "quick" else 20000
    jobs = [(seed, i, "lib") for i in range(n)] + [(seed, 5 * 10 ** 6 + i, "deep") for i in range(n // 5)]
    jobs += [(seed, 6 * 10 ** 6 + i, "hexname") for i in range(20 if tier == "quick" else 300)]
    jobs += [(seed, 9 * 10 ** 6 + i, "bigfile") for i in range(14 if tier == "quick" else 120)]
    jobs += [(seed, 10 * 10 ** 6 + i, "decoy") for i in range(40 if tier == "quick" else 400)]
    jobs += [(seed, 7 * 10 ** 6 + i, "big") for i in range(6 if tier == "quick" else 60)]
    jobs += [(seed, 12 * 10 ** 6 + i, "suffix") for i in range(24 if tier == "quick" else 300)]
    jobs += [(seed, 13 * 10 ** 6 + i, "symlink") for i in range(8 if tier == "quick" else 80)]
    jobs += [(seed, 14 * 10 ** 6 + i, "paddedchild") for i in range(8 if tier == "quick" else 80)]
    known = {e["id"] for e in Findings().known(PROP)}
    outs = common.pmap(work, jobs, chunk=8)
    for job, o in zip(jobs, outs):
        if o is None:
            res.count("skipped:child-failed")
            continue
        res.evaluations += 1
        if o["refs"]:
            res.nontrivial.add(o["hash"])
        res.count("outcome:" + ("ok" if o["ok"] else o["err"]))
        for k in o["refs"]:
            res.count("ref:" + k)
        if not o["agree"]:
            res.mismatches.append({"op": "suit.create", "seed": job[0], "index": job[1], "kind": job[2], "impl": _short(o["impl"]), "model": _short(o["model"])})
        for (k, p, e, g) in o["bad"]:
            if "(F9)" in k and "F9" in known:
                res.known_hits["F9"] = res.known_hits.get("F9", 0) + 1
                continue
            res.spec_failures.append({"seed": job[0], "index": job[1], "kind": job[2], "reference": k, "path": p, "expected_from_files": e, "in_envelope": g,
                                      "what": "the created envelope does not carry the hash / length / content of the referenced artifact"})
        if len(res.samples) < 4 and o["refs"] and job[1] % 53 == 0:
            res.sample({"seed": job[0], "index": job[1], "references_checked": o["refs"][:10]})
    rebuild_cases(res)
    return finish(res, st, RULE, NOTE)


def rebuild_cases(res):
    """the same `create` run again onto the same output path after a referenced file changed in a way that leaves the root manifest as it was (an
    integrated payload whose digest is given raw; a dependency envelope referred to by path): the new output holds the new file contents (C05-q)"""
    import tempfile, cbor2, hashlib, yaml
    with tempfile.TemporaryDirectory(prefix="verif_c05r_") as d:
        for k, form in enumerate(("payload-file", "dependency-file", "payload-file-json")):
            work_d = os.path.join(d, f"b{k}")
            os.makedirs(work_d)
            child = {"SUIT_Envelope_Tagged": {"suit-authentication-wrapper": {"SuitDigest": {"suit-digest-algorithm-id": "cose-alg-sha-256"}},
                                              "suit-manifest": {"suit-manifest-version": 1, "suit-manifest-sequence-number": 3},
                                              "suit-integrated-payloads": {"#inner": "ff0011"}}}
            first, second = bytes(range(50)), bytes(range(50, 120))
            if form == "dependency-file":
                yaml.dump(child, open(os.path.join(work_d, "child.yaml"), "w"), sort_keys=False)
                rc0, _ = common.run_cli(["create", "--input-file", "child.yaml", "--output-file", "dep.suit"], work_d)
                if rc0 != 0:
                    continue
                first = open(os.path.join(work_d, "dep.suit"), "rb").read()
                # the child rebuilt with another integrated payload: its manifest, hence the digest the root holds, is unchanged
                child["SUIT_Envelope_Tagged"]["suit-integrated-payloads"]["#inner"] = "ff0022334455"
                members = {"suit-integrated-dependencies": {"#dep": "dep.suit"}}
                name, fname = "#dep", "dep.suit"
            else:
                open(os.path.join(work_d, "fw.bin"), "wb").write(first)
                members = {"suit-integrated-payloads": {"#fw": "fw.bin"}}
                name, fname = "#fw", "fw.bin"
            root = {"SUIT_Envelope_Tagged": dict({"suit-authentication-wrapper": {"SuitDigest": {"suit-digest-algorithm-id": "cose-alg-sha-256"}},
                                                  "suit-manifest": {"suit-manifest-version": 1, "suit-manifest-sequence-number": 1,
                                                                    "suit-install": [{"suit-directive-override-parameters": {"suit-parameter-image-digest": {
                                                                        "suit-digest-algorithm-id": "cose-alg-sha-256", "suit-digest-bytes": {"raw": "00" * 32}}}}]}}, **members)}
            inp = "root.json" if form.endswith("json") else "root.yaml"
            (json.dump if inp.endswith("json") else (lambda o, f: yaml.dump(o, f, sort_keys=False)))(root, open(os.path.join(work_d, inp), "w"))
            outs = []
            for step in (1, 2):
                if step == 2:
                    if form == "dependency-file":
                        yaml.dump(child, open(os.path.join(work_d, "child.yaml"), "w"), sort_keys=False)
                        common.run_cli(["create", "--input-file", "child.yaml", "--output-file", "dep.suit"], work_d)
                        second = open(os.path.join(work_d, "dep.suit"), "rb").read()
                    else:
                        open(os.path.join(work_d, "fw.bin"), "wb").write(second)
                rc, log = common.run_cli(["create", "--input-file", inp, "--output-file", "root.suit"], work_d)
                got = None
                if rc == 0 and os.path.exists(os.path.join(work_d, "root.suit")):
                    try:
                        got = cbor2.loads(open(os.path.join(work_d, "root.suit"), "rb").read()).value.get(name)
                    except Exception:  # noqa
                        got = None
                outs.append((rc, got))
            res.case(["rebuild", form], nontrivial=True)
            res.count("rebuild:" + form)
            want = [first, second]
            for step, (rc, got) in enumerate(outs):
                if rc != 0 or got != want[step]:
                    res.spec_failures.append({"history": f"create twice onto the same output path, {fname} rewritten in between ({form})", "run": step + 1, "exit": rc,
                                              "got": None if got is None else got.hex()[:80], "expected": want[step].hex()[:80],
                                              "what": f"the envelope written by run {step + 1} does not hold the current content of {fname}"})


def _short(x):
    import json
    s = json.dumps(x)
    return x if len(s) < 3000 else s[:3000] + "..."


def replay(payload: dict) -> int:
    common.ensure_repo_on_path()
    src = payload if "index" in payload else payload.get("first_mismatch", {})
    if "index" not in src:
        print(payload)
        return 1
    o = work((src["seed"], src["index"], src["kind"]))
    print({k: (v if k not in ("impl", "model") else _short(v)) for k, v in o.items()})
    bad = (not o["agree"]) or any("(F9)" not in b[0] for b in o["bad"])
    if bad:
        print(f"VIOLATION property={PROP} replay=(given)")
    return 1 if bad else 0
