"""C13 - vendor/class UUIDs are derived identically everywhere."""
from __future__ import annotations

import hashlib
import os
import random
import tempfile
import uuid

from .. import common, suitio, suitcases, cbortree as ct
from ..common import Result, Driver, stage_a, finish, rng_for
from . import c07, c12

PROP = "C13"
RULE = ("vendor / class names (ASCII, non-ASCII, empty, 1 KiB, YAML- and regex-significant) at the three derivation sites: SuitUUID.from_obj in create, mpi generate "
        "(record bytes 16..47), and the role table of image boot (an envelope of that class, assigned by a generated build configuration, must land in that "
        "role's slot); build configurations assigning the configurable roles, with collisions between roles and with the defaults, values that are not quoted, and "
        "missing class names. Expected identifiers are computed with hashlib SHA-1 by the harness (RFC 4122 version 5). distinct = distinct names / configurations")
NOTE = ["uuid.uuid5 is modelled over the driver's SHA-1; the harness recomputes every identifier with hashlib independently of both",
        "kconfig values with escaped quotes are outside the domain (the parser strips the outer quotes only)"]

NAMES = ["nordicsemi.com", "nRF54H20_sample_root", "", "a", "é中\U0001f600", "x" * 1024, "name with space", "a.b-c_d", "UPPER", "123", "true", "a: b", "x #y", "p(1)+",
         # names are names, whatever they look like: text UUIDs, hex digests, numbers, leading / trailing blanks, mixed case
         "7d9f1e2a-4b3c-4d5e-8f60-a1b2c3d4e5f6", "7d9f1e2a4b3c4d5e8f60a1b2c3d4e5f6", "urn:uuid:7d9f1e2a-4b3c-4d5e-8f60-a1b2c3d4e5f6",
         "{7d9f1e2a-4b3c-4d5e-8f60-a1b2c3d4e5f6}", "6ba7b810-9dad-11d1-80b4-00c04fd430c8", "0x10", " padded ", "NordicSemi.com", "0", "None", "a\\b",
         # text that is not in Unicode normal form C is other text than its normalisation: decomposed accents, singletons (C13-q)
         "acme.example/iot", "ACME GmbH / Sensors", "a/b/c", "/lead", "trail/", "mu\u0308ller.example", "\u212bngstro\u0308m-sensor", "10k\u2126", "\u212a-band", "e\u0301\u0301", "\ufb01rmware"]


SPECIAL_PAIRS = [(("acme\u2028.example", "cls"), ("acme.example", "c\u0085ls")), (("a\x0bb.example", "c\x0cd"), ("x\x1cy", "z\x1e")), (("acme.example", "cl\u2029s"), ("acme.example", "cl\x1ds")),
                 (("acme.example", "9160"), ("acme.example", "0x54")), (("y", "y"), ("n", "0")), (("0x1F", "42"), ("42", "0x1F")),
                 (("example.com/lighting", "bulb"), ("example.com", "lighting/bulb")), (("a b", "c"), ("a", "b c")), (("a", "b,c"), ("a,b", "c")),
                 (("a:b", "c"), ("a", "b:c")), (("a", "b|c"), ("a|b", "c")), (("ab", "c"), ("a", "bc")), (("x.example", "y"), ("x.example", "Y")),
                 (("acme.example ", "cls"), ("acme.example", "cls")), (("ACME Corp", " gateway"), ("ACME Corp", "gateway\t")), (("acme.example", "cls "), ("acme.example", " cls")),
                 (("acme.example", "e\u0301"), ("acme.example", "\u00e9")),
                 (("acme.example", "é"), ("acme.example", "e")), (("Ölpumpe.example", "Wärmepumpe_app"), ("müller-geräte.example", "rad"))]


def rfc4122_v5(ns: bytes, name: str) -> bytes:
    h = bytearray(hashlib.sha1(ns + name.encode("utf-8")).digest()[:16])
    h[6] = (h[6] & 0x0F) | 0x50
    h[8] = (h[8] & 0x3F) | 0x80
    return bytes(h)


DNS = bytes.fromhex("6ba7b8109dad11d180b400c04fd430c8")


def site_manifest(vendor, cls):
    from suit_generator.suit.manifest import SuitUUID
    cid = SuitUUID.from_obj({"RFC4122_UUID": {"namespace": vendor, "name": cls}}).to_cbor()
    vid = SuitUUID.from_obj({"RFC4122_UUID": vendor}).to_cbor()
    return vid, cid


def run(tier: str, seed: int) -> int:
    common.ensure_repo_on_path()
    res = Result(PROP, tier, seed)
    st = stage_a(PROP, thorough=(tier == "thorough"))
    if not st.ok_driver:
        return finish(res, st, RULE, NOTE)
    import logging
    logging.disable(logging.CRITICAL)
    rng = rng_for(seed, PROP)
    drv = Driver()
    names = list(NAMES)
    for _ in range(40 if tier == "quick" else 3000):
        names.append("".join(rng.choice("abcXYZ019._- é中") for _ in range(rng.randrange(0, 40))))
    pairs = [(rng.choice(names), rng.choice(names)) for _ in range(150 if tier == "quick" else 6000)] + [("nordicsemi.com", "nRF54H20_sample_root"), ("", "")] + [(nm, NAMES[(k + 1) % len(NAMES)]) for k, nm in enumerate(NAMES)]
    with tempfile.TemporaryDirectory(prefix="verif_c13_") as d:
        for i, (v, c) in enumerate(pairs):
            evid = rfc4122_v5(DNS, v)
            ecid = rfc4122_v5(evid, c)
            res.case(["sites", v, c])
            # site 1: manifest
            try:
                vid_b, cid_b = site_manifest(v, c)
                if vid_b != b"\x50" + evid or cid_b != b"\x50" + ecid:
                    res.spec_failures.append({"vendor": v, "class": c, "site": "manifest", "got": [vid_b.hex(), cid_b.hex()], "expected": [evid.hex(), ecid.hex()],
                                              "what": "identifier embedded in the manifest is not UUIDv5(UUIDv5(DNS, vendor), class)"})
            except BaseException as e:  # noqa
                res.spec_failures.append({"vendor": v, "class": c, "site": "manifest", "what": "SuitUUID.from_obj failed: " + type(e).__name__})
            m = drv.call({"op": "suit.encode", "cls": uuid_cls(drv), "desc": suitio.enc_obj({"RFC4122_UUID": {"namespace": v, "name": c}}), "fs": {}})
            if m.get("ok") != (b"\x50" + ecid).hex():
                res.mismatches.append({"op": "suit.encode(SuitUUID)", "vendor": v, "class": c, "model": m, "expected": ecid.hex()})
            # site 2: MPI record
            r = c12.impl_generate(v, c, 0x1000, 64, False, False, None, d)
            if "ok" in r:
                img = drv.call({"op": "ihex.read", "text": r["ok"]})["ok"]
                rec = bytes.fromhex(img[0][1])
                if rec[16:32] != evid or rec[32:48] != ecid:
                    res.spec_failures.append({"vendor": v, "class": c, "site": "mpi", "got": rec[16:48].hex(), "expected": (evid + ecid).hex(),
                                              "what": "MPI record bytes 16..47 are not the vendor / class UUIDv5"})
                mm = drv.call({"op": "mpi.generate", "vendor": v, "cls": c, "address": 0x1000, "size": 64, "dp": False, "iu": False, "sv": None})
                if mm.get("ok") != img:
                    res.mismatches.append({"op": "mpi.generate", "vendor": v, "class": c})
            else:
                res.spec_failures.append({"vendor": v, "class": c, "site": "mpi", "what": "mpi generate failed: " + r["err"]})
            res.count("sites_checked")
        # site 2 once more through the real command line (option converters included): names with capitals, blanks, non-ASCII
        from concurrent.futures import ThreadPoolExecutor
        cli_pairs = [("NordicSemi.com", "Sample_Root"), ("ACME", "cls"), ("Acme-IoT.Example", "Sensor_v2"), (" padded ", " cls "), ("é中", "Ünï"), ("nordicsemi.com", "UPPER"),
                     ("7d9f1e2a-4b3c-4d5e-8f60-a1b2c3d4e5f6", "0x10"), ("@acme", "@home_sensor"), ("+v", "%c")]

        def cli_one(k):
            v, c = cli_pairs[k]
            out = os.path.join(d, f"cli_mpi{k}.hex")
            common.make_stale(out)
            rc, log = common.run_cli(["mpi", "generate", "--output-file", out, "--vendor-name", v, "--class-name", c, "--address", "0x1000", "--size", "64"], d)
            return rc, log, (open(out).read() if common.was_written(out) else None)
        with ThreadPoolExecutor(max_workers=8) as ex:
            cli_outs = list(ex.map(cli_one, range(len(cli_pairs))))
        for (v, c), (rc, log, text) in zip(cli_pairs, cli_outs):
            res.case(["cli-mpi", v, c], nontrivial=True)
            res.count("sites:mpi-through-command-line")
            evid = rfc4122_v5(DNS, v)
            ecid = rfc4122_v5(evid, c)
            if rc != 0 or text is None:
                res.spec_failures.append({"vendor": v, "class": c, "site": "mpi (command line)", "what": f"mpi generate failed on the command line (exit {rc})", "log": log[-300:]})
                continue
            rec = bytes.fromhex(drv.call({"op": "ihex.read", "text": text})["ok"][0][1])
            if rec[16:32] != evid or rec[32:48] != ecid:
                res.spec_failures.append({"vendor": v, "class": c, "site": "mpi (command line)", "got": rec[16:48].hex(), "expected": (evid + ecid).hex(),
                                          "what": "MPI record written through the command line: bytes 16..47 are not the vendor / class UUIDv5 of the names given"})
        # site 3 + kconfig semantics, end to end through image boot
        n = 108 if tier == "quick" else 1500
        for i in range(n):
            kind = ["assign", "assign", "collision-roles", "collision-default", "unquoted", "missing-class"][i % 6]
            soc = rng.choice(["nrf54h20", "nrf9280"])
            layout = drv.call({"op": "storage.layout", "soc": soc})["ok"]
            slots = {s["role"]: s for s in layout["slots"]}
            roles = rng.sample(list(c07.CONFIGURABLE), 2)
            v1, c1 = rng.choice(["acme.example", "é.example", "nordicsemi.com"]), f"cls{i}_a"
            v2, c2 = rng.choice(["acme.example", "other.example"]), f"cls{i}_b"
            expect = "ok"
            lines = [f'SB_CONFIG_SUIT_MPI_{c07.CONFIGURABLE[roles[0]]}_VENDOR_NAME="{v1}"', f'SB_CONFIG_SUIT_MPI_{c07.CONFIGURABLE[roles[0]]}_CLASS_NAME="{c1}"']
            if kind == "collision-roles":
                lines += [f'SB_CONFIG_SUIT_MPI_{c07.CONFIGURABLE[roles[1]]}_VENDOR_NAME="{v1}"', f'SB_CONFIG_SUIT_MPI_{c07.CONFIGURABLE[roles[1]]}_CLASS_NAME="{c1}"']
                # every other configurable role gets a pair of its own, so that the two colliding roles are not neighbours in any ordering
                for other in c07.CONFIGURABLE:
                    if other not in roles[:2] and other in slots and rng.random() < 0.8:
                        lines += [f'SB_CONFIG_SUIT_MPI_{c07.CONFIGURABLE[other]}_VENDOR_NAME="other.example"', f'SB_CONFIG_SUIT_MPI_{c07.CONFIGURABLE[other]}_CLASS_NAME="cls_{other.lower()}"']
                expect = "reject"
            elif kind == "collision-default":
                dv, dc, drole = rng.choice([a for a in layout["assignments"] if a[2] != roles[0]])
                v1, c1 = dv, dc
                lines = [f'SB_CONFIG_SUIT_MPI_{c07.CONFIGURABLE[roles[0]]}_VENDOR_NAME="{v1}"', f'SB_CONFIG_SUIT_MPI_{c07.CONFIGURABLE[roles[0]]}_CLASS_NAME="{c1}"']
            elif kind == "assign":
                if i % 6 == 1 or rng.random() < 0.25:
                    # names that look like other kconfig value kinds once the quotes are gone, and pairs of distinct pairs whose joined spellings coincide
                    (v1, c1), (v2, c2) = rng.choice(SPECIAL_PAIRS) if i % 6 != 1 else SPECIAL_PAIRS[(i // 6) % len(SPECIAL_PAIRS)]
                    if rng.random() < 0.5:
                        (v1, c1), (v2, c2) = (v2, c2), (v1, c1)
                    lines = [f'SB_CONFIG_SUIT_MPI_{c07.CONFIGURABLE[roles[0]]}_VENDOR_NAME="{v1}"', f'SB_CONFIG_SUIT_MPI_{c07.CONFIGURABLE[roles[0]]}_CLASS_NAME="{c1}"']
                    res.count("kconfig:special-names")
                lines += [f'SB_CONFIG_SUIT_MPI_{c07.CONFIGURABLE[roles[1]]}_VENDOR_NAME="{v2}"', f'SB_CONFIG_SUIT_MPI_{c07.CONFIGURABLE[roles[1]]}_CLASS_NAME="{c2}"']
            elif kind == "missing-class":
                lines = lines[:1]
                expect = "reject"
            elif kind == "unquoted":
                lines += ["CONFIG_A=y", "CONFIG_B=0x1F", "CONFIG_C=42", "CONFIG_D=plain", 'CONFIG_E=""']
            rng.shuffle(lines)
            if kind != "missing-class" and rng.random() < 0.6:
                # commented-out assignments are comments: an older value of the configured role after the active line, and a role that is not configured
                r0 = c07.CONFIGURABLE[roles[0]]
                lines += [f'# SB_CONFIG_SUIT_MPI_{r0}_VENDOR_NAME="old.example"', f'# SB_CONFIG_SUIT_MPI_{r0}_CLASS_NAME="old_class"',
                          f'#SB_CONFIG_SUIT_MPI_{r0}_CLASS_NAME="older_class"', "# SB_CONFIG_SUIT_MPI_GENERATE is not set"]
                free = [r for r in c07.CONFIGURABLE if r in slots and not any(c07.CONFIGURABLE[r] + "_" in ln for ln in lines)]
                if free:
                    rf = c07.CONFIGURABLE[rng.choice(free)]
                    lines.insert(rng.randrange(0, len(lines)), f'# SB_CONFIG_SUIT_MPI_{rf}_VENDOR_NAME="ghost.example"')
                    lines.insert(rng.randrange(0, len(lines)), f'# SB_CONFIG_SUIT_MPI_{rf}_CLASS_NAME="ghost_class"')
                res.count("kconfig:with-commented-assignments")
            kconfig = "\n".join(lines) + "\n"
            b = c07.envelope_for(seed, 900000 + i, v1, c1, rng, d)
            if b is None:
                continue
            impl = c07.impl_boot([b], 0x0E1ED000, kconfig, soc, d)
            model = drv.call({"op": "storage.boot", "files": [b.hex()], "base": 0x0E1ED000, "soc": soc, "fs": {}, "kconfig": kconfig})
            res.case(["kconfig", kind, soc, kconfig])
            res.count("kconfig:" + kind + ":" + ("ok" if "ok" in impl else impl["err"]))
            if ("ok" in impl) != ("ok" in model):
                res.mismatches.append({"op": "storage.boot", "kind": kind, "kconfig": kconfig, "impl": impl if "err" in impl else "ok", "model": model if "err" in model else "ok"})
            if expect == "reject":
                if "ok" in impl:
                    res.spec_failures.append({"kind": kind, "kconfig": kconfig, "what": "a configuration that must be rejected was accepted"})
                continue
            if "ok" not in impl:
                if model.get("err") == "GeneratorError:fit" and impl.get("err") == "GeneratorError":
                    res.count("kconfig:envelope-larger-than-its-slot")      # legitimately refused: the generated envelope does not fit the role's slot
                    continue
                res.spec_failures.append({"kind": kind, "kconfig": kconfig, "impl": impl, "what": "a valid configuration / envelope was rejected"})
                continue
            # the envelope must sit in exactly the configured role's slot
            s = slots[roles[0]]
            fname = f"suit_installed_envelopes_{s['domain'].lower()}_merged.hex"
            if list(impl["ok"]) != [fname]:
                res.spec_failures.append({"kind": kind, "kconfig": kconfig, "files": list(impl["ok"]), "expected": fname,
                                          "what": "the envelope of the configured class did not land in the configured role's domain"})
                continue
            img = drv.call({"op": "ihex.read", "text": impl["ok"][fname]})["ok"]
            if [a for a, _ in img] != [0x0E1ED000 + s["offset"]]:
                res.spec_failures.append({"kind": kind, "kconfig": kconfig, "segments": [a for a, _ in img], "expected": 0x0E1ED000 + s["offset"],
                                          "what": "the envelope of the configured class did not land in the configured role's slot"})
            if "ok" in model:
                mimg = model["ok"].get(s["domain"])
                if mimg != img:
                    res.mismatches.append({"op": "storage.boot", "kind": kind, "kconfig": kconfig})
    ncs_build_cases(res, drv, seed)
    unquoted_yaml_names(res)
    res.sample({"vendor": "nordicsemi.com", "class": "nRF54H20_sample_root", "vid": rfc4122_v5(DNS, "nordicsemi.com").hex(),
                "cid": rfc4122_v5(rfc4122_v5(DNS, "nordicsemi.com"), "nRF54H20_sample_root").hex()})
    drv.close()
    return finish(res, st, RULE, NOTE)


def unquoted_yaml_names(res):
    """a name written without quotes in a YAML description: if the tool accepts it at all, the identifier is that of the text as written (YAML 1.1 reads
    0100 as the number 64, 1_000 as 1000, 1.10 as 1.1, yes as true, 1:30 as 90 - a tool that goes on with what the loader made of it names another class)"""
    from .. import cbortree as ct
    from concurrent.futures import ThreadPoolExecutor
    names = ["0100", "1_000", "1.10", "0x54", "yes", "1:30", "9160", "sensor_v2", "0o17", "1e3"]
    with tempfile.TemporaryDirectory(prefix="verif_c13y_") as d:
        def one(k):
            nm = names[k]
            inp, out = os.path.join(d, f"u{k}.yaml"), os.path.join(d, f"u{k}.suit")
            with open(inp, "w") as fh:
                fh.write("SUIT_Envelope_Tagged:\n  suit-authentication-wrapper:\n    SuitDigest:\n      suit-digest-algorithm-id: cose-alg-sha-256\n"
                         "  suit-manifest:\n    suit-manifest-version: 1\n    suit-manifest-sequence-number: 1\n    suit-manifest-component-id:\n    - INSTLD_MFST\n"
                         f"    - RFC4122_UUID:\n        namespace: acme.example\n        name: {nm}\n")
            rc, log = common.run_cli(["create", "--input-file", inp, "--output-file", out], d)
            return rc, (open(out, "rb").read() if os.path.exists(out) else None)
        with ThreadPoolExecutor(max_workers=10) as ex:
            outs = list(ex.map(one, range(len(names))))
    for nm, (rc, data) in zip(names, outs):
        res.case(["unquoted-yaml-name", nm], nontrivial=True)
        res.count("sites:manifest-unquoted-yaml-name:" + ("accepted" if rc == 0 and data else "refused"))
        if rc != 0 or not data:
            continue
        want = rfc4122_v5(rfc4122_v5(DNS, "acme.example"), nm)
        if want not in data:
            res.spec_failures.append({"name_as_written": nm, "site": "manifest (YAML description, name without quotes)", "expected_class_id": want.hex(),
                                      "what": "the class identifier in the envelope is not UUIDv5 of the name as it is written in the description"})


def ncs_build_cases(res, drv, seed):
    """site 3 through the NCS build script (ncs/build.py storage --config-file): a configured pair puts its envelope into the configured role's slot;
    one pair given to two roles is an error the build sees (exit status) and nothing is written"""
    import random
    rng = random.Random(f"{seed}:c13ncs")
    with tempfile.TemporaryDirectory(prefix="verif_c13ncs_") as d:
        v, c = "build.example", "Sensor_v2 é"
        b = None
        k = 0
        while b is None:
            b = c07.envelope_for(seed, 997000 + k, v, c, rng, d)
            k += 1
        path = os.path.join(d, "custom.suit")
        open(path, "wb").write(b)
        for soc in ("nrf54h20", "nrf9280"):
            layout = drv.call({"op": "storage.layout", "soc": soc})["ok"]
            slots = {s_["role"]: s_ for s_ in layout["slots"]}
            role = "APP_LOCAL_2" if "APP_LOCAL_2" in slots else next(r for r in c07.CONFIGURABLE if r in slots)
            tag = c07.CONFIGURABLE[role]
            for what, text, ok in (("assigned", f'SB_CONFIG_SUIT_MPI_{tag}_VENDOR_NAME="{v}"\nSB_CONFIG_SUIT_MPI_{tag}_CLASS_NAME="{c}"\n', True),
                                   ("one pair for two roles", f'SB_CONFIG_SUIT_MPI_{tag}_VENDOR_NAME="{v}"\nSB_CONFIG_SUIT_MPI_{tag}_CLASS_NAME="{c}"\n'
                                    f'SB_CONFIG_SUIT_MPI_ROOT_VENDOR_NAME="{v}"\nSB_CONFIG_SUIT_MPI_ROOT_CLASS_NAME="{c}"\n', False)):
                cfgp = os.path.join(d, f"{soc}_{ok}.config")
                open(cfgp, "w").write(text)
                outd = os.path.join(d, f"out_{soc}_{ok}")
                os.makedirs(outd)
                rc, log = common.run_ncs_build(["storage", "--input-envelope", path, "--storage-output-directory", outd, "--config-file", cfgp, "--soc", soc], d)
                res.case(["ncs-build-storage", soc, what], nontrivial=True)
                res.count("sites:storage-through-build-script")
                left = sorted(os.listdir(outd))
                if not ok:
                    if rc == 0:
                        res.spec_failures.append({"soc": soc, "kconfig": text, "what": f"{what}: the build script reported success (exit 0)", "files": left, "log": log[-300:]})
                    elif left:
                        res.spec_failures.append({"soc": soc, "kconfig": text, "what": f"{what}: rejected, and files were left in the output directory", "files": left})
                    continue
                fname = f"suit_installed_envelopes_{slots[role]['domain'].lower()}_merged.hex"
                if rc != 0 or left != [fname]:
                    res.spec_failures.append({"soc": soc, "kconfig": text, "exit": rc, "files": left, "expected": fname,
                                              "what": "the envelope of the configured class did not land in the configured role's domain (build script)", "log": log[-300:]})
                    continue
                img = drv.call({"op": "ihex.read", "text": open(os.path.join(outd, fname)).read()})["ok"]
                if [a for a, _ in img] != [0x0E1ED000 + slots[role]["offset"]]:
                    res.spec_failures.append({"soc": soc, "kconfig": text, "segments": [a for a, _ in img], "expected": 0x0E1ED000 + slots[role]["offset"],
                                              "what": "the envelope of the configured class did not land in the configured role's slot (build script)"})


_uuid_cls = None


def uuid_cls(drv):
    """index of the SuitUUID class in the extracted schema"""
    global _uuid_cls
    if _uuid_cls is None:
        import sys
        sys.path.insert(0, str(common.VERIF / "harness"))
        import harness_extract as hx
        order, descs, index, hashes, notes, _ = hx.build_schema()
        _uuid_cls = next(i for i, c in enumerate(order) if descs[id(c)][0] == "uuid")
    return _uuid_cls


def replay(payload: dict) -> int:
    print(payload)
    return 1
