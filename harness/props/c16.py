"""C16 - update-candidate info and DFU partition images describe the envelope file."""
from __future__ import annotations

import os
import tempfile

from .. import common
from ..common import Result, Driver, stage_a, finish, rng_for

PROP = "C16"
RULE = ("grid of envelope sizes {0,1,15,16,17,255,256,65535,65536,65537,~200 KiB} x partition / record addresses around 64 KiB "
        "segment, 16 MiB and 2^32 boundaries x cache counts 0..16, plus random; image update is run through cmd_image.main with "
        "real files and both hex files are read back with the verifier's Intel-HEX reader; distinct = distinct (size, addresses, caches)")
NOTE = ["domain: address + size within 32 bits (outside it only 'both reject' is compared)",
        "the third-party intelhex writer is not modelled: its output is read back by the verifier's own reader (IHex.read) and the "
        "resulting memory image is what is compared and judged"]


def payload(n, salt=0):
    return bytes(((i * 131 + salt * 17 + 3) % 256) for i in range(n))


def impl_update(env: bytes, uci: int, dfu: int, caches: int, d: str):
    from suit_generator import cmd_image

    f = os.path.join(d, "env.suit")
    with open(f, "wb") as fh:
        fh.write(env)
    so = os.path.join(d, "storage.hex")
    do = os.path.join(d, "dfu.hex")
    for p in (so, do):
        common.make_stale(p)
    try:
        common.call_main(cmd_image.main, d, image="update", input_file=f, storage_output_file=so, dfu_partition_output_file=do,
                       update_candidate_info_address=uci, dfu_partition_address=dfu, dfu_max_caches=caches)
        return {"ok": [open(so).read(), open(do).read()]}
    except BaseException as e:  # noqa  (intelhex / struct raise assorted types)
        return common.impl_err(e)


def gen_cases(tier, rng):
    sizes = [0, 1, 15, 16, 17, 255, 256, 4096, 65535, 65536, 65537, 200 * 1024 + 3]
    addrs = [0, 1, 0xFFF0, 0xFFFF, 0x10000, 0x1FFF8, 0x0E100000, 0x0E1EF340, 0x00FFFFF0, 0x01000000, 0xFFFF0000, 0xFFFFFFF0,
             0xFFFFFFFF, 0x100000000]
    for s in sizes:
        for a in addrs:
            yield (s, 0x0E1EF340, a, 6)
    for a in addrs:
        for c in [0, 1, 2, 6, 16]:
            yield (33, a, 0x0E100000, c)
    for c in range(0, 17):
        yield (100, 0x0E1EF340, 0x0E100000, c)
    n = 150 if tier == "quick" else 4000
    for _ in range(n):
        s = rng.choice([0, 1, rng.randint(0, 70), rng.randint(0, 5000), rng.choice([65535, 65536, 65537, 70000])])
        base = rng.choice([0, 0x10000, 0x1000000, 0x0E100000, 0xFFFF0000, rng.randrange(0, 1 << 32)])
        a = max(0, base - rng.choice([0, 1, 2, 16, 17, s, s // 2]))
        u = rng.choice([0x0E1EF340, 0xFFFC, 0xFFFFFFE0, rng.randrange(0, 1 << 32)])
        yield (s, u, a, rng.randint(0, 16))


def cli_cases(res, drv, tier):
    """image update through the real command line: addresses and the cache count written in decimal and in hexadecimal"""
    from concurrent.futures import ThreadPoolExecutor
    env = payload(300, 5)
    cases = []
    nums = [4096, 65536, 0x0E1EF340, 236909376, 16, 0, 10000000, 0x10000 - 8] if tier == "quick" else common.CLI_NUMBERS + [236909376, 235929600]
    for k, n in enumerate(nums):
        for sp in common.spellings(n)[: (2 if tier == "quick" else 4)]:
            cases.append(("uci", n, sp))
            cases.append(("dfu", n, sp))
    for c in (0, 1, 6, 10, 16):
        cases.append(("caches", c, str(c)))
    # the cache count is a plain decimal integer option: the other decimal spellings it accepts denote the same count
    for c, sp in ((8, "08"), (16, "016"), (7, "007"), (9, "09"), (12, "012"), (0, "00"), (4, "+4"), (10, "010")):
        cases.append(("caches", c, sp))
    with tempfile.TemporaryDirectory(prefix="verif_c16cli_") as d:
        f = os.path.join(d, "env.suit")
        open(f, "wb").write(env)

        def one(k):
            which, n, sp = cases[k]
            so, do = os.path.join(d, f"s{k}.hex"), os.path.join(d, f"d{k}.hex")
            common.make_stale(so)
            common.make_stale(do)
            uci, dfu, caches = 0x0E1EF340, 0x0E100000, 6
            args = ["image", "update", "--input-file", f, "--storage-output-file", so, "--dfu-partition-output-file", do]
            args += ["--update-candidate-info-address", sp if which == "uci" else hex(uci), "--dfu-partition-address", sp if which == "dfu" else hex(dfu),
                     "--dfu-max-caches", sp if which == "caches" else str(caches)]
            rc, log = common.run_cli(args, d)
            if which == "uci":
                uci = n
            elif which == "dfu":
                dfu = n
            else:
                caches = n
            return rc, log, (open(so).read() if common.was_written(so) else None), (open(do).read() if common.was_written(do) else None), (uci, dfu, caches)
        with ThreadPoolExecutor(max_workers=12) as ex:
            outs = list(ex.map(one, range(len(cases))))
    for (which, n, sp), (rc, log, st_, dt_, (uci, dfu, caches)) in zip(cases, outs):
        res.case(["cli-update", which, n, sp], nontrivial=True)
        res.count("cli:update:" + which)
        ms = drv.call({"op": "update.storage", "uci": uci, "dfu": dfu, "size": len(env), "caches": caches})
        md = drv.call({"op": "update.dfu", "dfu": dfu, "envelope": env.hex()})
        if rc != 0 or st_ is None or dt_ is None:
            if "ok" in ms and "ok" in md:
                res.spec_failures.append({"cli": "image update", "argument": [which, sp], "denotes": n, "what": f"the command line refused {which} = {sp} (exit {rc})", "log": log[-300:]})
            continue
        rs, rd = drv.call({"op": "ihex.read", "text": st_}), drv.call({"op": "ihex.read", "text": dt_})
        if rs != ms or rd != md:
            res.spec_failures.append({"cli": "image update", "argument": [which, sp], "denotes": n,
                                      "what": f"{which} written as {sp} on the command line was not read as {n}: the images differ from those for that number",
                                      "storage_image": common_short(rs), "expected": common_short(ms)})


def run(tier: str, seed: int) -> int:
    common.ensure_repo_on_path()
    res = Result(PROP, tier, seed)
    st = stage_a(PROP, thorough=(tier == "thorough"))
    if not st.ok_driver:
        return finish(res, st, RULE, NOTE)
    rng = rng_for(seed, PROP)
    drv = Driver()
    with tempfile.TemporaryDirectory(prefix="verif_c16_") as d:
        for i, (size, uci, dfu, caches) in enumerate(gen_cases(tier, rng)):
            env = payload(size, i)
            in_domain = dfu + size <= 2 ** 32 and uci + 16 + 8 * caches <= 2 ** 32 and dfu < 2 ** 32
            impl = impl_update(env, uci, dfu, caches, d)
            ms = drv.call({"op": "update.storage", "uci": uci, "dfu": dfu, "size": size, "caches": caches})
            md = drv.call({"op": "update.dfu", "dfu": dfu, "envelope": env.hex()})
            res.case([size, uci, dfu, caches])
            res.count("domain:" + ("in" if in_domain else "out"))
            res.count("outcome:" + ("ok" if "ok" in impl else impl["err"]))
            case = {"size": size, "uci": uci, "dfu": dfu, "caches": caches, "seed_index": i}
            if i % 61 == 0:
                res.sample(case)
            if "ok" in impl:
                rs = drv.call({"op": "ihex.read", "text": impl["ok"][0]})
                rd = drv.call({"op": "ihex.read", "text": impl["ok"][1]})
                if "ok" not in rs or "ok" not in rd:
                    res.spec_failures.append({"case": case, "what": "output is not a well-formed Intel-HEX file", "storage": rs, "dfu": rd})
                    continue
                if not in_domain:
                    res.mismatches.append({"op": "update", "case": case, "impl": "accepted", "model": "domain excluded: expected rejection"})
                    continue
                if rs != ms or rd != md:
                    res.mismatches.append({"op": "update", "case": case, "impl": common_short([rs, rd]), "model": common_short([ms, md])})
                # validation of the writer model behind C16_dfu_file / C16_storage_file (IHexWrite.lean): the characters of the file are those the
                # model of the third-party writer produces for the image.  Counted in the evidence; the property is judged on the image, so a
                # different but equivalent file layout is not a violation
                big = size > 5000
                if big and size <= 70000 and res.dist.get("writer-model:big-files", 0) < 80:
                    res.count("writer-model:big-files")
                    big = False
                if not big:
                    for which, text_, img_ in (("dfu", impl["ok"][1], rd["ok"]), ("storage", impl["ok"][0], rs["ok"])):
                        if len(img_) == 1:
                            wt = drv.call({"op": "ihex.write", "address": img_[0][0], "data": img_[0][1]})
                            res.count("writer-model:" + which + ":" + ("same-text" if wt.get("ok") == text_ else "other-text"))
                c = drv.call({"op": "update.check", "uci": uci, "dfu": dfu, "size": size, "caches": caches,
                              "envelope": env.hex(), "storage": rs["ok"], "dfuimg": rd["ok"]})
                if not c["ok"]:
                    res.spec_failures.append({"case": case, "what": "Update.checkStorage/checkDfu (Spec.C16) false on the files the implementation wrote",
                                              "storage_image": common_short(rs), "dfu_image": common_short(rd)})
            else:
                if "ok" in ms and "ok" in md:
                    res.mismatches.append({"op": "update", "case": case, "impl": impl, "model": "accepted"})
                    if in_domain:
                        res.spec_failures.append({"case": case, "what": "image update refused arguments inside the 32-bit address space (record, cache table and envelope all fit): " + impl["err"]})
    cli_cases(res, drv, tier)
    drv.close()
    return finish(res, st, RULE, NOTE)


def common_short(x):
    import json
    s = json.dumps(x)
    return x if len(s) < 1500 else s[:1500] + "..."


def replay(payload: dict) -> int:
    common.ensure_repo_on_path()
    case = payload.get("case") or payload.get("first_mismatch", {}).get("case")
    if not case:
        print(payload)
        return 1
    drv = Driver()
    with tempfile.TemporaryDirectory() as d:
        env = globals()["payload"](case["size"], case.get("seed_index", 0))
        impl = impl_update(env, case["uci"], case["dfu"], case["caches"], d)
        bad = True
        if "ok" in impl:
            rs = drv.call({"op": "ihex.read", "text": impl["ok"][0]})
            rd = drv.call({"op": "ihex.read", "text": impl["ok"][1]})
            if "ok" in rs and "ok" in rd:
                c = drv.call({"op": "update.check", "uci": case["uci"], "dfu": case["dfu"], "size": case["size"], "caches": case["caches"],
                              "envelope": env.hex(), "storage": rs["ok"], "dfuimg": rd["ok"]})
                print("Spec.C16 on implementation output:", c["ok"])
                bad = not c["ok"]
        else:
            print("implementation raised", impl)
    drv.close()
    if bad:
        print(f"VIOLATION property={PROP} replay=(given)")
    return 1 if bad else 0
