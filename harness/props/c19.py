"""C19 - NCS templates yield consistent dependency wiring for every image set."""
from __future__ import annotations

import hashlib
import itertools
import json
import os
import tempfile
import uuid

import yaml

from .. import common, suitio, suitcases, cbortree as ct
from ..common import Result, Driver, stage_a, finish, rng_for, Findings
from .c04 import strip_blocks
from .c05 import manifest_span

PROP = "C19"
RULE = ("the complete finite configuration space of the two shipped templates: all 2^3-1 non-empty subsets of {radio, application, Nordic top} for the root "
        "template and the top template's image set, crossed with default / custom MPI vendor and class names (incl. YAML-significant names) and sequence-number "
        "/ version variables defined or not; child envelopes are generated and sampled. Each case: the template is rendered by ncs.build.render_template (Jinja2), "
        "the loaded YAML compared with the model's description, the envelope created by the real tool, and the result walked: component indices declared, "
        "dependencies are manifest components, every fetched '#name' has an integrated dependency whose manifest digest equals the verified digest, class ids of "
        "the configured names. distinct = distinct (configuration, names, children)")
NOTE = ["Jinja2 and PyYAML are not modelled: they enter through the rendered and loaded document, which is compared with the model's Obj",
        "digest of a child by path relies on C03 (children are generated outside the F4 region)"]

PLAIN_NAMES = [("nordicsemi.com", "nRF54H20_sample_root"), ("acme.example", "my_class-1"), ("Vendor Name", "class.with.dots")]
NONASCII_NAMES = [("müller-geräte.example", "Ölpumpe_rad"), ("bücher.example", "Wärmepumpe_app"), ("中文.example", "クラス")]
YAML_NAMES = [("123", "true"), ("null", "~"), ("a: b", "x #y"), ("0x10", "[a]"), (" lead", "trail "), ("Bob's sensor", "o'neill.example"), ("6e400001-b5a3-f393-e0a9-e50e24dcca9e", "6ba7b8109dad11d180b400c04fd430c8"),
              ("urn:uuid:7d9f1e2a-4b3c-4d5e-8f60-a1b2c3d4e5f6", "{7d9f1e2a-4b3c-4d5e-8f60-a1b2c3d4e5f6}"), ("''", "it''s"), ("", "1_000"), ("2024-01-01", "é中"), ('q"uote', "back\\slash")]


def cid(vendor, cls):
    return uuid.uuid5(uuid.uuid5(uuid.NAMESPACE_DNS, vendor), cls).bytes


def child_envelope(seed, index, vendor, cls):
    from .c07 import envelope_for
    import random
    rng = random.Random(f"{seed}:{index}:c19child")
    with tempfile.TemporaryDirectory() as d:
        return envelope_for(seed, 800000 + index, vendor, cls, rng, d)


def walk_manifest(parsed, problems, tag):
    """the verifier's manifest interpreter: indices, dependencies, fetches"""
    env = parsed["SUIT_Envelope_Tagged"]
    m = env["suit-manifest"]
    comps = m["suit-common"]["suit-components"]
    n = len(comps)
    deps = m["suit-common"].get("suit-dependencies", {})
    for k in deps:
        i = int(k)
        if i >= n:
            problems.append(f"{tag}: dependency index {i} is not a declared component")
        elif comps[i][0] not in ("CAND_MFST", "INSTLD_MFST"):
            problems.append(f"{tag}: dependency {i} is not a candidate- or installed-manifest component")

    def indices(v):
        if isinstance(v, bool):
            return []
        if isinstance(v, int):
            return [v]
        return list(v)

    fetched = []
    seqs = [("shared", m["suit-common"].get("suit-shared-sequence", []))] + [(k, m[k]) for k in
            ("suit-validate", "suit-load", "suit-invoke", "suit-install", "suit-candidate-verification", "suit-payload-fetch", "suit-dependency-resolution") if isinstance(m.get(k), list)]
    for name, seq in seqs:
        uri, digest = None, None
        for cmd in seq:
            (k, v), = cmd.items()
            if k == "suit-directive-set-component-index":
                for i in indices(v):
                    if i >= n:
                        problems.append(f"{tag}: {name} uses component index {i}, only {n} components are declared")
            elif k == "suit-directive-override-parameters":
                uri = v.get("suit-parameter-uri", uri)
                if "suit-parameter-image-digest" in v:
                    digest = v["suit-parameter-image-digest"]["suit-digest-bytes"]
            elif k == "suit-directive-fetch" and uri is not None:
                fetched.append((name, uri, digest))
    integrated = env.get("suit-integrated-dependencies", {}) or {}
    payloads = env.get("suit-integrated-payloads", {}) or {}
    for name, uri, digest in fetched:
        if uri.startswith("#"):
            if uri not in integrated:
                problems.append(f"{tag}: {name} fetches {uri} but no integrated dependency of that name exists" + (" (it is an integrated payload)" if uri in payloads else ""))
                continue
            if name == "suit-candidate-verification":
                child = bytes.fromhex(integrated[uri])
                if digest != hashlib.sha256(manifest_span(child)).hexdigest():
                    problems.append(f"{tag}: the digest verified for {uri} is not the manifest digest of the integrated dependency")
    return comps


# VERSION file text -> (sequence number, version string or None) the root envelope must carry
VERSION_FILES = {
    "file:sequence-number-only": ("APP_ROOT_SEQ_NUM = 7\n", 7, None),
    "file:empty": ("", 1, None),
    "file:zephyr-style": ("VERSION_MAJOR = 1\nVERSION_MINOR = 2\nPATCHLEVEL = 3\nVERSION_TWEAK = 4\nEXTRAVERSION = rc1\n", 0x01020304, "1.2.3-rc.1"),
    "file:bare-rc": ("VERSION_MAJOR = 1\nVERSION_MINOR = 2\nPATCHLEVEL = 3\nVERSION_TWEAK = 0\nEXTRAVERSION = rc\n", 0x01020300, "1.2.3-rc"),
    "file:bare-alpha-unordered": ("EXTRAVERSION = alpha\nPATCHLEVEL = 7\nVERSION_MINOR = 0\nVERSION_MAJOR = 4\n", 0x04000700, "4.0.7-alpha"),
    "file:dotted-beta-empty-tweak-first": ("EXTRAVERSION = beta.12\nVERSION_MAJOR = 0\nVERSION_MINOR = 9\nPATCHLEVEL = 1\nVERSION_TWEAK = 5\n", 0x00090105, "0.9.1-beta.12"),
    "file:unsupported-extra": ("VERSION_MAJOR = 2\nVERSION_MINOR = 1\nPATCHLEVEL = 0\nEXTRAVERSION = dev\n", 0x02010000, "2.1.0-alpha"),
    "file:no-tweak-no-extra": ("VERSION_MAJOR = 2\nVERSION_MINOR = 0\nPATCHLEVEL = 9\n", 0x02000900, "2.0.9"),
    # calendar-style numbers: decimal fields written with leading zeros are decimal numbers (C19-q)
    "file:zero-padded-fields": ("VERSION_MAJOR = 24\nVERSION_MINOR = 09\nPATCHLEVEL = 01\nVERSION_TWEAK = 07\n", (24 << 24) + (9 << 16) + (1 << 8) + 7, "24.09.01"),
    # an explicit version with more numeric fields than three (major.minor.patch.tweak, Zephyr style) is a version (C19-s)
    "file:four-field-version": ("APP_ROOT_SEQ_NUM = 5\nAPP_ROOT_VERSION = 2.1.0.7\n", 5, "2.1.0.7"),
    "file:five-field-prerelease": ("APP_ROOT_VERSION = 1.2.3.4-rc.5\nVERSION_MAJOR = 1\nVERSION_MINOR = 2\nPATCHLEVEL = 3\n", 0x01020300, "1.2.3.4-rc.5"),
    "file:explicit": ("APP_ROOT_SEQ_NUM = 300\nAPP_ROOT_VERSION = 3.1.4-beta\nVERSION_MAJOR = 9\nVERSION_MINOR = 9\nPATCHLEVEL = 9\n", 300, "3.1.4-beta"),
}

_ART_DIR = None


class same_build_dir:
    """every case of this process renders into the *same* artifacts folder, with the child envelopes regenerated under the same names
    (a build directory is reused from build to build; anything remembered under a file path would be stale)"""

    def __enter__(self):
        global _ART_DIR
        import atexit, shutil
        if _ART_DIR is None:
            # a build directory whose name holds characters that HTML, YAML and shells treat specially
            _ART_DIR = tempfile.mkdtemp(prefix="verif_c19 R&D <o'brien> \"q\"_")
            atexit.register(lambda: shutil.rmtree(_ART_DIR, ignore_errors=True))
        for f in os.listdir(_ART_DIR):
            fp = os.path.join(_ART_DIR, f)
            if os.path.isfile(fp):
                os.unlink(fp)
        return _ART_DIR

    def __exit__(self, *a):
        return False


_MASK = (True,) * 6
DEFAULT_NAMES = (("nordicsemi.com", "nRF54H20_sample_root"), ("nordicsemi.com", "nRF54H20_sample_app"), ("nordicsemi.com", "nRF54H20_sample_rad"))


def effective_names(names, mask):
    flat = [x for pair in names for x in pair]
    dflt = [x for pair in DEFAULT_NAMES for x in pair]
    eff = [a if keep else b for a, b, keep in zip(flat, dflt, mask)]
    return ((eff[0], eff[1]), (eff[2], eff[3]), (eff[4], eff[5]))


def case_root_partial(drv, seed, index, subset, names, varmode, res, mask):
    """only some of the six MPI names are configured; the expectation uses the configured ones and the defaults of the others"""
    global _MASK
    saved_names = names
    _MASK = mask
    try:
        return case_root(drv, seed, index, subset, names, varmode, res)
    finally:
        _MASK = (True,) * 6


def case_root(drv, seed, index, subset, names, varmode, res):
    from ncs import build as ncs_build
    configured = names
    names = effective_names(names, _MASK)
    (rv, rc), (av, ac), (dv, dc) = names
    custom = names != (PLAIN_NAMES[0],) * 3 or True
    problems, mismatch = [], None
    with same_build_dir() as d:
        art = d + "/"
        cfg = {"sysbuild": {"config": {}}, "artifacts_folder": art}
        if not _NO_MPI:
            allkeys = {"SB_CONFIG_SUIT_MPI_ROOT_VENDOR_NAME": rv, "SB_CONFIG_SUIT_MPI_ROOT_CLASS_NAME": rc,
                       "SB_CONFIG_SUIT_MPI_APP_LOCAL_1_VENDOR_NAME": av, "SB_CONFIG_SUIT_MPI_APP_LOCAL_1_CLASS_NAME": ac,
                       "SB_CONFIG_SUIT_MPI_RAD_LOCAL_1_VENDOR_NAME": dv, "SB_CONFIG_SUIT_MPI_RAD_LOCAL_1_CLASS_NAME": dc}
            # a partially customised configuration: only the keys selected by _MASK are present, every other name keeps its own default
            chosen = {k: v for (k, v), keep in zip(allkeys.items(), _MASK) if keep}
            cfg["sysbuild"]["config"].update(chosen)
            if all(ch not in v for v in chosen.values() for ch in '"\\\n') and all(v == v.strip() for v in chosen.values()):
                # as in a real build: the names reach the template from the sysbuild .config file through ncs/build.py (values that a .config line
                # cannot carry verbatim - quotes, backslashes, outer blanks - stay on the direct path)
                kpath = os.path.join(d, "sysbuild.config")
                with open(kpath, "w", encoding="utf-8") as fh:
                    fh.write("# generated\nSB_CONFIG_BOARD=\"nrf54h20dk\"\nSB_CONFIG_SUIT_ENVELOPE=y\nSB_CONFIG_SUIT_ENVELOPE_SEQUENCE_NUM=1\n")
                    for k, v in chosen.items():
                        fh.write(f'{k}="{v}"\n')
                try:
                    data = ncs_build.read_configurations([f"sysbuild,,,{kpath}"], "")
                except BaseException as e:  # noqa
                    return {"problems": [f"reading the sysbuild configuration failed: {type(e).__name__}"], "mismatch": None, "hash": f"{index}"}
                cfg["sysbuild"] = data["sysbuild"]
                res.count("names:through-dot-config-file")
        images = {}
        for key, (v, c) in (("radio", (dv, dc)), ("application", (av, ac)), ("top", ("nordicsemi.com", "nRF54H20_nordic_top"))):
            if key in subset:
                nm = {"radio": "radio_img", "application": "app_img", "top": "nordic_top"}[key]
                cfg[key] = {"name": nm}
                b = child_envelope(seed, index * 10 + len(images), v, c)
                if b is None:
                    return None
                open(os.path.join(d, nm + ".suit"), "wb").write(b)
                images[key] = (nm, b)
        seq_obj, ver_obj = 1, None
        if varmode == "default":
            cfg["DEFAULT_SEQ_NUM"] = "16909056"
            cfg["DEFAULT_VERSION"] = "1.2.3-rc.4"
            seq_obj, ver_obj = 16909056, "1.2.3-rc.4"
        elif varmode == "app":
            cfg["DEFAULT_SEQ_NUM"] = "5"
            cfg["APP_ROOT_SEQ_NUM"] = "77"
            cfg["APP_ROOT_VERSION"] = "2.0"
            seq_obj, ver_obj = 77, "2.0"
        elif varmode.startswith("file:"):
            # the variables come from a VERSION file through ncs/build.py, as in a real build
            text_v, seq_obj, ver_obj = VERSION_FILES[varmode]
            vf = os.path.join(d, "VERSION")
            open(vf, "w").write(text_v)
            try:
                cfg.update(dict(ncs_build.read_version_file(vf)))
            except BaseException as e:  # noqa
                return {"problems": [f"reading the VERSION file ({varmode}: {text_v!r}) failed: {type(e).__name__}: {e}"], "mismatch": None,
                        "hash": hashlib.sha1(json.dumps([sorted(subset), varmode, index]).encode()).hexdigest()}
        tpl = str(common.REPO / "ncs" / "root_with_nordic_top_envelope.yaml.jinja2")
        try:
            text = ncs_build.render_template(tpl, cfg)
            loaded = yaml.load(text, Loader=yaml.SafeLoader)
        except BaseException as e:  # noqa
            return {"problems": [f"rendering / loading the template failed: {type(e).__name__}"], "mismatch": None, "hash": f"{index}"}
        req = {"op": "template.root", "root_vendor": rv, "root_class": rc, "app_vendor": av, "app_class": ac, "rad_vendor": dv, "rad_class": dc,
               "seq": suitio.enc_obj(seq_obj), "artifacts": art}
        for key in subset:
            req[key] = images[key][0]
        if ver_obj is not None:
            req["version"] = suitio.enc_obj(ver_obj)
        model = suitio.dec_obj(drv.call(req)["ok"])
        if model != loaded:
            mismatch = {"op": "template.root", "rendered_loads_to": _short(loaded), "model": _short(model)}
        cwd = os.getcwd()
        os.chdir(d)
        try:
            created = suitio.impl_create(loaded)
        finally:
            os.chdir(cwd)
        if "ok" not in created:
            problems.append("creating the envelope from the rendered template failed: " + created["err"])
        else:
            parsed = suitio.model_parse(drv, bytes.fromhex(created["ok"])).get("ok")
            if parsed is None:
                parsed = suitio.impl_parse(bytes.fromhex(created["ok"])).get("ok")
            if parsed is None:
                problems.append("the envelope created from the rendered template cannot be parsed back")
                return {"problems": problems, "mismatch": mismatch, "hash": f"unparsable:{index}"}
            comps = walk_manifest(parsed, problems, "root")
            # installed-manifest class ids are those of the configured names
            exp = [cid(dv, dc)] * ("radio" in subset) + [cid(av, ac)] * ("application" in subset) + [cid("nordicsemi.com", "nRF54H20_nordic_top")] * ("top" in subset)
            got = [bytes.fromhex(c[1]["raw"]) for c in comps[1:]]
            if got != exp:
                problems.append("installed-manifest class ids are not those of the configured names")
            mcid = parsed["SUIT_Envelope_Tagged"]["suit-manifest"]["suit-manifest-component-id"]
            if bytes.fromhex(mcid[1]["raw"]) != cid(rv, rc):
                problems.append("the root manifest's class id is not that of the configured root names")
            if ver_obj is not None and "suit-current-version" not in parsed["SUIT_Envelope_Tagged"]["suit-manifest"]:
                problems.append("version variable defined but no suit-current-version")
    return {"problems": problems, "mismatch": mismatch, "hash": hashlib.sha1(json.dumps([sorted(subset), names, varmode, index]).encode()).hexdigest()}


def case_top(drv, seed, index, varmode):
    from ncs import build as ncs_build
    problems, mismatch = [], None
    with same_build_dir() as d:
        art = d + "/"
        cfg = {"artifacts_folder": art, "secdom": {"name": "secdom_img"}, "sysctrl": {"name": "sysctrl_img"}}
        for nm, (v, c) in (("secdom_img", ("nordicsemi.com", "nRF54H20_sec")), ("sysctrl_img", ("nordicsemi.com", "nRF54H20_sys"))):
            b = child_envelope(seed, index * 10 + (1 if nm == "secdom_img" else 2), v, c)
            if b is None:
                return None
            open(os.path.join(d, nm + ".suit"), "wb").write(b)
        seq_obj, ver_obj = 1, None
        if varmode == "default":
            cfg["DEFAULT_SEQ_NUM"] = "33"
            cfg["DEFAULT_VERSION"] = "0.9.1"
            seq_obj, ver_obj = 33, "0.9.1"
        elif varmode == "top":
            cfg["NORDIC_TOP_SEQ_NUM"] = "4"
            cfg["NORDIC_TOP_VERSION"] = "3.1.0-beta"
            seq_obj, ver_obj = 4, "3.1.0-beta"
        tpl = str(common.REPO / "ncs" / "nordic_top_envelope.yaml.jinja2")
        try:
            loaded = yaml.load(ncs_build.render_template(tpl, cfg), Loader=yaml.SafeLoader)
        except BaseException as e:  # noqa
            return {"problems": [f"rendering / loading the template failed: {type(e).__name__}"], "mismatch": None, "hash": f"top{index}"}
        req = {"op": "template.top", "secdom": "secdom_img", "sysctrl": "sysctrl_img", "seq": suitio.enc_obj(seq_obj), "artifacts": art}
        if ver_obj is not None:
            req["version"] = suitio.enc_obj(ver_obj)
        model = suitio.dec_obj(drv.call(req)["ok"])
        if model != loaded:
            mismatch = {"op": "template.top", "rendered_loads_to": _short(loaded), "model": _short(model)}
        cwd = os.getcwd()
        os.chdir(d)
        try:
            created = suitio.impl_create(loaded)
        finally:
            os.chdir(cwd)
        if "ok" not in created:
            problems.append("creating the envelope from the rendered top template failed: " + created["err"])
        else:
            parsed = suitio.model_parse(drv, bytes.fromhex(created["ok"])).get("ok")
            if parsed is None:
                parsed = suitio.impl_parse(bytes.fromhex(created["ok"])).get("ok")
            if parsed is None:
                problems.append("the envelope created from the rendered template cannot be parsed back")
                return {"problems": problems, "mismatch": mismatch, "hash": f"unparsable:{index}"}
            comps = walk_manifest(parsed, problems, "top")
            got = [bytes.fromhex(c[1]["raw"]) for c in comps[1:]]
            if got != [cid("nordicsemi.com", "nRF54H20_sec"), cid("nordicsemi.com", "nRF54H20_sys")]:
                problems.append("installed-manifest class ids of the top template are not nRF54H20_sec / nRF54H20_sys")
    return {"problems": problems, "mismatch": mismatch, "hash": hashlib.sha1(f"top{varmode}{index}".encode()).hexdigest()}


def script_cases(res):
    """the templates rendered the way the NCS build renders them - ncs/build.py template as a script, with --core / --version_file / --output-suit -
    into an ordinary build directory and into one that lies on another file system than the temporary directory: the file written is the rendering"""
    import shutil
    from ncs import build as ncs_build
    tpl = str(common.REPO / "ncs" / "nordic_top_envelope.yaml.jinja2")
    places = [tempfile.mkdtemp(prefix="verif_c19s_")]
    try:
        if os.path.isdir("/dev/shm") and os.access("/dev/shm", os.W_OK) and os.stat("/dev/shm").st_dev != os.stat(tempfile.gettempdir()).st_dev:
            places.append(tempfile.mkdtemp(prefix="verif_c19s_", dir="/dev/shm"))
        for k, place in enumerate(places):
            art = os.path.join(place, "DFU") + "/"
            os.makedirs(art)
            kc = os.path.join(place, "sysbuild.config")
            open(kc, "w").write('SB_CONFIG_SUIT_ENVELOPE=y\n')
            vf = os.path.join(place, "VERSION")
            open(vf, "w").write("VERSION_MAJOR = 1\nVERSION_MINOR = 2\nPATCHLEVEL = 3\nVERSION_TWEAK = 4\nEXTRAVERSION = rc1\n")
            out = os.path.join(art, "top.yaml")
            rc, log = common.run_ncs_build(["template", "--artifacts-folder", art, "--template-suit", tpl, "--output-suit", out, "--version_file", vf], place, core_config=kc,
                                           cores=("sysbuild", "secdom", "sysctrl"))
            res.case(["ncs-build-template", "other-file-system" if k else "build-directory"], nontrivial=True)
            res.count("script:template:" + ("other-file-system" if k else "build-directory"))
            if rc != 0 or not os.path.exists(out):
                res.spec_failures.append({"script": "ncs/build.py template", "output_on": "a file system other than the temporary directory's" if k else "the build directory",
                                          "what": f"rendering the top template through the build script failed (exit {rc})", "log": log[-400:]})
                continue
            cfg = ncs_build.read_configurations([f"{c_},,,{kc}" for c_ in ("sysbuild", "secdom", "sysctrl")], None)
            cfg.update(ncs_build.read_version_file(vf))
            cfg["output_envelope"] = out
            cfg["artifacts_folder"] = art
            want = ncs_build.render_template(tpl, cfg)
            if open(out).read() != want:
                res.spec_failures.append({"script": "ncs/build.py template", "what": "the file the build script wrote is not the rendering of the template for this configuration"})
            # as the NCS build does it: the artifacts folder given *relative* to the build directory, the rendered YAML lying inside that folder, the
            # files it names spelled relative to the build directory, and `create` started from the build directory (C19-p)
            fw = bytes(range(200))
            open(os.path.join(art, "fw.bin"), "wb").write(fw)
            import yaml as _yaml
            dsc = {"SUIT_Envelope_Tagged": {"suit-authentication-wrapper": {"SuitDigest": {"suit-digest-algorithm-id": "cose-alg-sha-256"}},
                                            "suit-manifest": {"suit-manifest-version": 1, "suit-manifest-sequence-number": 1,
                                                              "suit-install": [{"suit-directive-override-parameters": {"suit-parameter-image-digest": {
                                                                  "suit-digest-algorithm-id": "cose-alg-sha-256", "suit-digest-bytes": {"file": "DFU/fw.bin"}},
                                                                  "suit-parameter-image-size": {"file": "./DFU/fw.bin"}}}]},
                                            "suit-integrated-payloads": {"#fw": "DFU/fw.bin"}}}
            for form, (inp, outp) in {"relative": ("DFU/in.yaml", "DFU/out.suit"), "dot-relative": ("./DFU/in.yaml", "./DFU/out2.suit")}.items():
                _yaml.dump(dsc, open(os.path.join(place, inp), "w"), sort_keys=False)
                rc2, log2 = common.run_cli(["create", "--input-file", inp, "--output-file", outp], place)
                res.case(["create-in-artifacts-folder", form, k], nontrivial=True)
                res.count("script:create-in-relative-artifacts-folder")
                okf = os.path.join(place, outp)
                if rc2 != 0 or not os.path.exists(okf):
                    res.spec_failures.append({"script": "suit-generator create", "cwd": "build directory", "input_file": inp, "references": "DFU/fw.bin (relative to the build directory)",
                                              "what": f"creating an envelope from a description inside a relative artifacts folder failed (exit {rc2})", "log": log2[-400:]})
                    continue
                import cbor2 as _c
                env_ = _c.loads(open(okf, "rb").read()).value
                if env_.get("#fw") != fw:
                    res.spec_failures.append({"script": "suit-generator create", "input_file": inp, "what": "the integrated payload is not the content of the file named relative to the build directory"})
    finally:
        for place in places:
            shutil.rmtree(place, ignore_errors=True)


def run(tier: str, seed: int) -> int:
    common.ensure_repo_on_path()
    res = Result(PROP, tier, seed)
    st = stage_a(PROP, thorough=(tier == "thorough"))
    if not st.ok_driver:
        return finish(res, st, RULE, NOTE)
    import logging
    logging.disable(logging.CRITICAL)
    rng = rng_for(seed, PROP)
    drv = Driver()
    known = {e["id"] for e in Findings().known(PROP)}
    subsets = [s for r in (1, 2, 3) for s in itertools.combinations(["radio", "application", "top"], r)]
    reps = 1 if tier == "quick" else 12
    index = 0
    for rep in range(reps):
        for subset in subsets:
            for varmode in ("none", "default", "app") + (tuple(tuple(VERSION_FILES)[(subsets.index(subset) + rep + off) % len(VERSION_FILES)] for off in (0, 7)) if tier == "quick" else tuple(VERSION_FILES)):
                name_sets = [(None, "plain"), ((PLAIN_NAMES[1], PLAIN_NAMES[2], PLAIN_NAMES[1]), "plain")]
                yn = rng.sample(YAML_NAMES, 3)
                name_sets.append(((yn[0], yn[1], yn[2]), "yaml-significant"))
                if (index // 3) % 3 == 0 or tier != "quick":
                    na = rng.sample(NONASCII_NAMES, 3)
                    name_sets.append(((na[0], na[1], na[2]), "non-ascii"))
                for names, nkind in name_sets:
                    index += 1
                    nm = names if names is not None else (PLAIN_NAMES[0], ("nordicsemi.com", "nRF54H20_sample_app"), ("nordicsemi.com", "nRF54H20_sample_rad"))
                    if names is None:
                        o = case_root(drv, seed, index, subset, (None, None, None) if False else nm, varmode, res) if False else _case_root_default(drv, seed, index, subset, varmode, res)
                    else:
                        o = case_root(drv, seed, index, subset, nm, varmode, res)
                    if o is None:
                        res.count("skipped")
                        continue
                    res.case([sorted(subset), nkind, varmode, index])
                    res.count("root:" + "+".join(subset))
                    res.count("names:" + nkind)
                    res.count("vars:" + varmode)
                    if o["mismatch"]:
                        res.mismatches.append({**o["mismatch"], "subset": list(subset), "names": nm, "vars": varmode})
                    for p in o["problems"]:
                        res.spec_failures.append({"template": "root", "subset": list(subset), "names": nm, "vars": varmode, "index": index, "what": p})
        # partially customised MPI configurations (each name falls back to its own default)
        custom = (("acme.example", "acme_root"), ("apps.example", "acme_app"), ("radio.example", "acme_rad"))
        masks = [(1, 0, 0, 0, 0, 0), (1, 1, 0, 0, 0, 0), (0, 0, 0, 1, 0, 0), (0, 0, 1, 0, 0, 1), (0, 1, 0, 0, 1, 0), (1, 1, 1, 1, 0, 0)]
        for mi, mask in enumerate(masks if tier == "quick" else masks + [tuple(rng.random() < 0.5 for _ in range(6)) for _ in range(20)]):
            subset = subsets[(mi + rep) % len(subsets)] if tier == "quick" and mi % 2 else ("radio", "application", "top")
            index += 1
            o = case_root_partial(drv, seed, index, subset, custom, "none", res, tuple(bool(x) for x in mask))
            if o is None:
                res.count("skipped")
                continue
            res.case([sorted(subset), "partial", mask, index])
            res.count("names:partially-configured")
            if o["mismatch"]:
                res.mismatches.append({**o["mismatch"], "subset": list(subset), "configured_mask": list(mask)})
            for p in o["problems"]:
                res.spec_failures.append({"template": "root", "subset": list(subset), "configured": custom, "configured_mask": list(mask), "index": index, "what": p})
        for varmode in ("none", "default", "top"):
            index += 1
            o = case_top(drv, seed, index, varmode)
            if o is None:
                continue
            res.case(["top", varmode, index])
            res.count("top:" + varmode)
            if o["mismatch"]:
                res.mismatches.append({**o["mismatch"], "vars": varmode})
            for p in o["problems"]:
                res.spec_failures.append({"template": "top", "vars": varmode, "index": index, "what": p})
    res.exhaustive = True
    script_cases(res)
    res.notes["exhaustive_scope"] = "7 image subsets x 3 variable settings x {default, custom plain, YAML-significant} names (root) + 3 variable settings (top); child envelopes sampled"
    res.sample({"template": "root", "subset": ["radio", "top"], "names": "default", "vars": "default"})
    drv.close()
    return finish(res, st, RULE, NOTE)


def _case_root_default(drv, seed, index, subset, varmode, res):
    """MPI names absent from the configuration: the templates' defaults apply"""
    import copy
    names = (("nordicsemi.com", "nRF54H20_sample_root"), ("nordicsemi.com", "nRF54H20_sample_app"), ("nordicsemi.com", "nRF54H20_sample_rad"))
    global _NO_MPI
    _NO_MPI = True
    try:
        return case_root(drv, seed, index, subset, names, varmode, res)
    finally:
        _NO_MPI = False


_NO_MPI = False


def _short(x):
    s = json.dumps(x, default=str)
    return x if len(s) < 1500 else s[:1500] + "..."


def replay(payload: dict) -> int:
    print(payload)
    return 1
