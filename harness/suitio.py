"""Description <-> driver encoding, and in-process calls of the real create / parse."""
from __future__ import annotations

import copy
import os

from . import common


def enc_obj(o):
    if o is None:
        return {"n": 0}
    if isinstance(o, bool):
        return {"b": o}
    if isinstance(o, int):
        return {"i": o}
    if isinstance(o, str):
        return {"s": o}
    if isinstance(o, (list, tuple)):
        return {"l": [enc_obj(x) for x in o]}
    if isinstance(o, dict):
        return {"d": [[k, enc_obj(v)] for k, v in o.items()]}
    return {"o": 0}


def dec_obj(j):
    if "n" in j:
        return None
    if "b" in j:
        return j["b"]
    if "i" in j:
        return j["i"]
    if "s" in j:
        return j["s"]
    if "l" in j:
        return [dec_obj(x) for x in j["l"]]
    if "d" in j:
        return {k: dec_obj(v) for k, v in j["d"]}
    return ("other",)


def err_class(e: BaseException) -> str:
    """Canonical error classes shared with the model."""
    from suit_generator.exceptions import SUITError

    if isinstance(e, ValueError):
        return "ValueError"
    if isinstance(e, SUITError):
        return "SUITError"
    if isinstance(e, OSError):
        return "OSError"
    return "internal:" + type(e).__name__


def impl_create(desc, cwd=None):
    """SuitEnvelope.prepare_suit_data on a deep copy of the description (create mutates its argument)."""
    from suit_generator.input_output import InputOutputMixin

    old = os.getcwd()
    try:
        if cwd:
            os.chdir(cwd)
        return {"ok": InputOutputMixin.prepare_suit_data(copy.deepcopy(desc)).hex()}
    except BaseException as e:  # noqa
        return {"err": err_class(e)}
    finally:
        os.chdir(old)


def impl_parse(b: bytes):
    from suit_generator.suit.envelope import SuitEnvelopeTagged

    try:
        return {"ok": SuitEnvelopeTagged.from_cbor(b).to_obj()}
    except BaseException as e:  # noqa
        return {"err": err_class(e)}


def model_create(drv, desc, files=None):
    return drv.call({"op": "suit.create", "desc": enc_obj(desc), "fs": {k: v.hex() for k, v in (files or {}).items()}})


def model_parse(drv, b: bytes):
    r = drv.call({"op": "suit.parse", "bytes": b.hex()})
    if "ok" in r:
        return {"ok": dec_obj(r["ok"])}
    return r


def same_err(a: dict, b: dict) -> bool:
    """error comparison: classes must agree; the kind of an internal error is informative only"""
    if "err" in a and "err" in b:
        ea, eb = a["err"], b["err"]
        if ea.startswith("internal") and eb.startswith("internal"):
            return True
        return ea == eb
    return False
