#!/venv/bin/python
"""Translator: re-extract tables and behavioural flags from /repo's live Python objects into
lean/SuitVerif/Generated/*.lean.  Files are rewritten only when their content changes."""
import json
import os
import sys
from pathlib import Path

VERIF = Path(__file__).resolve().parent.parent
REPO = Path(os.environ.get("REPO", "/repo"))
GEN = VERIF / "lean" / "SuitVerif" / "Generated"
sys.path.insert(0, str(REPO))
sys.path.insert(1, str(REPO / "ncs"))


def write_if_changed(path: Path, text: str) -> bool:
    if path.exists() and path.read_text() == text:
        return False
    path.parent.mkdir(parents=True, exist_ok=True)
    path.write_text(text)
    return True


def main():
    notes = {"changed": []}
    from harness_extract import ALL  # noqa

    for name, fn in ALL:
        text, n = fn()
        notes.update(n)
        if write_if_changed(GEN / f"{name}.lean", text):
            notes["changed"].append(name)
    print(json.dumps(notes))


if __name__ == "__main__":
    sys.path.insert(0, str(Path(__file__).resolve().parent))
    main()
