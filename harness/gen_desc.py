"""Grammar-directed generator of envelope descriptions (the tool's YAML/JSON input language).

Every random choice comes from the `random.Random` handed in, so a case replays from (seed, index).
`Gen.envelope()` returns (description, files) where `files` maps relative paths to bytes; descriptions
follow the language (they are mostly valid), with explicit boundary injectors for CBOR widths."""
from __future__ import annotations

ALGS = ["cose-alg-sha-256", "cose-alg-shake128", "cose-alg-sha-384", "cose-alg-sha-512", "cose-alg-shake256"]
SIGN_ALGS = ["cose-alg-es-256", "cose-alg-es-384", "cose-alg-es-521", "cose-alg-eddsa", "cose-alg-vs-hash-eddsa"]
ENC_ALGS = ["cose-alg-aes-gcm-128", "cose-alg-aes-gcm-192", "cose-alg-aes-gcm-256"]
KW_ALGS = ["cose-alg-a256kw", "cose-alg-a192kw", "cose-alg-a128kw", "cose-alg-direct"]
BITS = ["suit-send-record-success", "suit-send-record-failure", "suit-send-sysinfo-success", "suit-send-sysinfo-failure"]
CONDITIONS = ["suit-condition-vendor-identifier", "suit-condition-class-identifier", "suit-condition-image-match",
              "suit-condition-component-slot", "suit-condition-check-content", "suit-condition-dependency-integrity",
              "suit-condition-is-dependency", "suit-condition-abort", "suit-condition-device-identifier", "suit-condition-version"]
POLICY_DIRECTIVES = ["suit-directive-write", "suit-directive-fetch", "suit-directive-copy", "suit-directive-invoke",
                     "suit-directive-swap", "suit-directive-process-dependency", "suit-directive-unlink"]
SEVERABLE = ["suit-payload-fetch", "suit-install", "suit-dependency-resolution", "suit-candidate-verification", "suit-install-legacy"]
WIDTH_INTS = [0, 1, 23, 24, 255, 256, 65535, 65536, 2 ** 32 - 1, 2 ** 32, 2 ** 63, 2 ** 64 - 1]
WIDTH_LENS = [0, 1, 22, 23, 24, 25, 255, 256]
TEXT_KEYS = ["suit-text-manifest-description", "suit-text-update-description", "suit-text-manifest-json-source", "suit-text-manifest-yaml-source"]
COMP_TEXT = ["suit-text-vendor-name", "suit-text-model-name", "suit-text-vendor-domain", "suit-text-model-info",
             "suit-text-component-description", "suit-text-component-version"]
CWT = [("Issuer", "s"), ("Subject", "s"), ("Audience", "s"), ("Expiration Time", "i"), ("Not Before", "i"),
       ("Issued At", "i"), ("CW ID", "h")]


class Gen:
    def __init__(self, rng, big=False, ambiguous=False, depth=2):
        self.r = rng
        self.big = big              # allow 64 KiB-class sizes
        self.ambiguous = ambiguous  # allow raw byte strings that parse re-interprets (finding F4 region)
        self.files = {}
        self.nfile = 0
        self.max_depth = depth
        self.features = set()

    # ---- scalars -------------------------------------------------------------------------------------
    def p(self, x):
        return self.r.random() < x

    def uint(self):
        self.features.add("uint")
        return self.r.choice(WIDTH_INTS + [self.r.randrange(0, 300), self.r.randrange(0, 2 ** 32)])

    def small(self):
        return self.r.randrange(0, 5)

    def sint(self):
        v = self.uint()
        return -1 - v if self.p(0.4) else v

    def text(self, maxlen=30):
        n = self.r.choice(WIDTH_LENS + [self.r.randrange(0, maxlen)]) if self.p(0.15) else self.r.randrange(0, maxlen)
        # text is code points as written: precomposed and decomposed accents, compatibility characters (OHM SIGN, KELVIN SIGN, a CJK compatibility
        # ideograph), astral characters, NEL - nothing is normalised on the way
        alphabet = "abcdefghijklmnopqrstuvwxyz0123456789-_.:/# " + ("é中\U0001f600\"\\" if self.p(0.2) else "") + ("e\u0301\u2126\u212a\uf900\u0085A\u030a" if self.p(0.12) else "")
        t = "".join(self.r.choice(alphabet) for _ in range(n))
        if self.p(0.06):
            # text carried verbatim: line breaks at the end (YAML block scalars), inside, and outer blanks
            self.features.add("text:line-breaks")
            t = self.r.choice([t + "\n", t + "\n\n", t + "\r\n", "\n" + t, t[: n // 2] + "\n" + t[n // 2:], " " + t + " ", t + "\t"])
        return t

    def nbytes(self, n):
        return bytes(self.r.randrange(256) for _ in range(n))

    def safe_bytes(self, lo=0, hi=40):
        """bytes that parse does not re-interpret when given at a raw/decoded union position: never empty-or-CBOR-looking
        unless `ambiguous` is enabled; we make the first byte 0xFF-like (an invalid CBOR initial byte: 0xFF break)"""
        n = self.r.choice(WIDTH_LENS) if self.p(0.15) else self.r.randrange(lo, hi)
        b = self.nbytes(n)
        if self.ambiguous or n == 0:
            return b
        return bytes([0xFF]) + b[1:]

    def hexs(self, n=None):
        if n is None:
            n = self.r.choice(WIDTH_LENS) if self.p(0.15) else self.r.randrange(0, 40)
        return self.nbytes(n).hex()

    def new_file(self, content: bytes, prefix="f", ext=".bin"):
        self.nfile += 1
        name = f"{prefix}{self.nfile}{ext}"
        if self.p(0.08):
            # file names are taken literally: a name holding shell pattern characters next to a file that the name, read as a pattern, would match (C05-p)
            self.features.add("file:pattern-like-name")
            form = self.r.choice(["[", "?", "*"])
            if form == "[":
                name = f"{prefix}[{self.nfile}]{ext}"
            elif form == "?":
                name = f"{prefix}?{self.nfile}{ext}"
                self.files[f"{prefix}x{self.nfile}{ext}"] = b"decoy" + content[::-1]
            else:
                name = f"{prefix}{self.nfile}*{ext}"
                self.files[f"{prefix}{self.nfile}x{ext}"] = b"decoy" + content[::-1]
            self.files[f"{prefix}{self.nfile}{ext}"] = b"decoy" + content[::-1]
        self.files[name] = content
        return name

    def file_size(self):
        if self.big and self.p(0.1):
            return self.r.choice([65535, 65536, 65537])
        return self.r.choice([0, 1, 23, 24, 255, 256, self.r.randrange(0, 600)])

    # ---- digests / uuids -------------------------------------------------------------------------------
    def alg(self):
        return self.r.choice(ALGS)

    def digest(self, depth=0, allow_envelope=True):
        alg = self.alg()
        form = self.r.choice(["hex", "hex", "file", "file_direct", "raw", "missing", "envelope", "envelope_file"])
        self.features.add("digest:" + form)
        d = {"suit-digest-algorithm-id": alg}
        if form == "hex":
            d["suit-digest-bytes"] = self.hexs(self.r.choice([0, 16, 32, 48, 64, 5]))
        elif form == "file":
            d["suit-digest-bytes"] = {"file": self.new_file(self.nbytes(self.file_size()))}
        elif form == "file_direct":
            d["suit-digest-bytes"] = {"file_direct": self.new_file(self.nbytes(self.r.choice([16, 32, 48, 64, 0, 7])), "d")}
        elif form == "raw":
            d["suit-digest-bytes"] = {"raw": self.hexs(32)}
        elif form == "envelope" and allow_envelope and depth < self.max_depth:
            d["suit-digest-bytes"] = {"envelope": self.envelope(depth + 1, child=True)}
        elif form == "envelope_file" and allow_envelope and depth < self.max_depth:
            d["suit-digest-bytes"] = {"envelope": ("@envelope-file", self.envelope(depth + 1, child=True))}
        elif form == "missing":
            pass
        else:
            d["suit-digest-bytes"] = self.hexs(32)
        return d

    def supplied(self, sizes):
        """a value supplied in the description for a digest that the tool recalculates: plain hex, or one of the extended forms"""
        form = self.r.choice(["hex", "hex", "hex", "raw", "file", "file_direct"])
        if self.p(0.012):
            self.features.add("supplied-digest:null")
            return None              # `suit-digest-bytes:` left without a value (a placeholder): refused, or else replaced like any other value
        if form == "hex":
            return self.hexs(self.r.choice(sizes))
        self.features.add("supplied-digest:" + form)
        if form == "raw":
            return {"raw": self.hexs(self.r.choice([32, 32, 0, 4]))}
        if form == "file":
            return {"file": self.new_file(self.nbytes(self.r.choice([0, 1, 40])))}
        return {"file_direct": self.new_file(self.nbytes(self.r.choice([32, 16, 64])), "d")}

    def uuid(self):
        form = self.r.choice(["name", "ns", "raw"])
        self.features.add("uuid:" + form)
        if form == "name":
            return {"RFC4122_UUID": self.text(20)}
        if form == "ns":
            return {"RFC4122_UUID": {"namespace": self.text(20), "name": self.text(20)}}
        return {"raw": self.hexs(16)}

    def image_size(self, depth):
        form = self.r.choice(["raw", "raw", "file", "file_direct", "envelope"])
        self.features.add("size:" + form)
        if form == "raw":
            return {"raw": self.uint()}
        if form == "file":
            return {"file": self.new_file(self.nbytes(self.file_size()))}
        if form == "file_direct":
            txt = str(self.uint())
            if self.p(0.3):
                # a size file holds a decimal number: zero-padded to a fixed width it is still that decimal number (C05-s)
                self.features.add("size:file_direct-zero-padded")
                txt = str(self.r.choice([64, 100, 4096, 262144, 1234567, 777, 10, 0])).rjust(self.r.choice([4, 8, 10]), "0")
            return {"file_direct": self.new_file(txt.encode() + (b"\n" if self.p(0.5) else b""), "n", ".txt")}
        if depth < self.max_depth:
            return {"envelope": self.envelope(depth + 1, child=True)}
        return {"raw": self.uint()}

    # ---- component ids, versions ------------------------------------------------------------------------
    def comp_part(self):
        k = self.r.choice(["char", "int", "str", "uuid", "rawid"])
        self.features.add("part:" + k)
        if k == "char":
            return self.r.choice("MIDCXabz")
        if k == "int":
            return self.sint() if self.p(0.3) else self.uint()
        if k == "str":
            n = self.r.choice([0, 2, 3, 11, 23, 24])
            return "".join(self.r.choice("ABC_MFSTxyz") for _ in range(n)) if n else ""
        if k == "uuid":
            return {"RFC4122_UUID": {"namespace": "nordicsemi.com", "name": self.text(12)}}
        return {"raw": self.safe_bytes(2, 20).hex()}

    def comp_id(self):
        return [self.comp_part() for _ in range(self.r.randrange(0, 5))]

    def version(self):
        nums = [self.r.choice([0, 1, 2, 23, 24, 255, 256, 65536]) for _ in range(self.r.randrange(1, 5))]
        if self.p(0.5):
            self.features.add("version:str")
            s = ".".join(map(str, nums))
            if self.p(0.5):
                s += "-" + self.r.choice(["alpha", "beta", "rc"]) + (f".{self.r.randrange(0, 300)}" if self.p(0.5) else "")
            return s
        self.features.add("version:list")
        if self.p(0.3):
            nums.append(self.r.choice([-1, -2, -3]))
        if self.p(0.25):
            # the integer-list form is a list of integers, whatever a text form could express: other negative numbers, a marker in front or in the
            # middle followed by numbers, several markers, the empty list
            self.features.add("version:list-free-form")
            nums = self.r.choice([[1, 2, -4, 7], [-1, 3], [], [2, 5, -2], [-3], [1, -1, -2], [0, 0, -100], [3, -2, 4, -1, 5], [-65536, 1]])
        return nums

    # ---- commands ---------------------------------------------------------------------------------------
    def policy(self):
        k = self.r.randrange(0, 5)
        return self.r.sample(BITS, k)

    def header_map(self, algs, kid=True, iv=False):
        h = {}
        if self.p(0.85):
            h["suit-cose-algorithm-id"] = self.r.choice(algs)
        if kid and self.p(0.7):
            if self.p(0.7):
                h["suit-cose-key-id"] = self.sint()
            else:
                h["suit-cose-key-id"] = self.safe_bytes(1, 12).hex()
        if iv and self.p(0.7):
            h["suit-cose-iv"] = self.hexs(12)
        return h

    def recipient(self, depth=0):
        self.features.add("recipient")
        r = {"protected": self.r.choice([{}, "", self.header_map(KW_ALGS, kid=False)]),
             "unprotected": self.header_map(KW_ALGS),
             "ciphertext": None if self.p(0.5) else self.ciphertext()}
        if depth < 2 and self.p(0.2):
            r["recipients1"] = [self.recipient(depth + 1) for _ in range(self.r.randrange(0, 3))]
        return r

    def ciphertext(self):
        if self.p(0.15):
            # a zero-length byte string is a byte string (a recipient with a direct key, RFC 9052), not "no ciphertext" (C03-p)
            self.features.add("ciphertext:empty")
            return ""
        return self.safe_bytes(1, 40).hex()

    def enc_info(self):
        form = self.r.choice(["full", "full", "raw", "file"])
        self.features.add("encinfo:" + form)
        full = {"CoseEncryptTagged": {"protected": self.header_map(ENC_ALGS, kid=False),
                                      "unprotected": self.header_map(ENC_ALGS, kid=False, iv=True),
                                      "ciphertext": None if self.p(0.7) else self.ciphertext(),
                                      "recipients": [self.recipient() for _ in range(self.r.randrange(0, 3))]}}
        if form == "full":
            return full
        if self.p(0.25):
            # an encryption info made elsewhere (embedded verbatim): a recipient with a zero-length byte string as ciphertext (direct key, RFC 9052) (C03-p)
            self.features.add("encinfo:opaque-empty-ciphertext")
            if not full["CoseEncryptTagged"]["recipients"]:
                full["CoseEncryptTagged"]["recipients"] = [self.recipient(2)]
            return ("@encinfo-" + form + "-emptyct", full)
        return ("@encinfo-" + form, full)

    def params(self, depth):
        n = self.r.randrange(0, 5)
        names = self.r.sample(["suit-parameter-vendor-identifier", "suit-parameter-class-identifier", "suit-parameter-image-digest",
                               "suit-parameter-component-slot", "suit-parameter-strict-order", "suit-parameter-soft-failure",
                               "suit-parameter-image-size", "suit-parameter-content", "suit-parameter-encryption-info", "suit-parameter-uri",
                               "suit-parameter-source-component", "suit-parameter-invoke-args", "suit-parameter-device-identifier",
                               "suit-parameter-version"], n)
        out = {}
        for nm in names:
            self.features.add(nm)
            if nm.endswith("-identifier"):
                out[nm] = self.uuid()
            elif nm == "suit-parameter-image-digest":
                out[nm] = self.digest(depth)
            elif nm in ("suit-parameter-component-slot", "suit-parameter-source-component"):
                out[nm] = self.uint()
            elif nm in ("suit-parameter-strict-order", "suit-parameter-soft-failure"):
                out[nm] = self.p(0.5)
            elif nm == "suit-parameter-image-size":
                out[nm] = self.image_size(depth)
            elif nm == "suit-parameter-content":
                out[nm] = self.uint() if self.p(0.4) else self.safe_bytes(1, 30).hex()
            elif nm == "suit-parameter-encryption-info":
                out[nm] = self.enc_info()
            elif nm == "suit-parameter-uri":
                out[nm] = self.text(40)
            elif nm == "suit-parameter-invoke-args":
                a = {}
                if self.p(0.6):
                    a["suit-synchronous-invoke"] = self.p(0.5)
                if self.p(0.6):
                    a["suit-timeout"] = self.uint()
                out[nm] = a
            elif nm == "suit-parameter-version":
                out[nm] = {self.r.choice(["suit-condition-version-comparison-greater", "suit-condition-version-comparison-greater-equal",
                                          "suit-condition-version-comparison-equal", "suit-condition-version-comparison-lesser-equal",
                                          "suit-condition-version-comparison-lesser"]): self.version()}
        return out

    def command(self, depth, nest):
        k = self.r.random()
        if k < 0.3:
            c = self.r.choice(CONDITIONS)
            self.features.add(c)
            return {c: self.policy()}
        if k < 0.5:
            d = self.r.choice(POLICY_DIRECTIVES)
            self.features.add(d)
            return {d: self.policy()}
        if k < 0.6:
            self.features.add("suit-directive-set-component-index")
            return {"suit-directive-set-component-index": self.r.choice([self.small(), self.uint(), True, False, [self.small() for _ in range(self.r.randrange(0, 4))]])}
        if k < 0.85:
            d = self.r.choice(["suit-directive-set-parameters", "suit-directive-override-parameters"])
            self.features.add(d)
            return {d: self.params(depth)}
        if nest < 3:
            if self.p(0.5):
                self.features.add("suit-directive-try-each")
                return {"suit-directive-try-each": [self.cmdseq(depth, nest + 1, 3) for _ in range(self.r.randrange(0, 4))]}
            self.features.add("suit-directive-run-sequence")
            return {"suit-directive-run-sequence": self.cmdseq(depth, nest + 1, 3)}
        return {"suit-condition-abort": []}

    def cmdseq(self, depth, nest=0, maxlen=6):
        seq = [self.command(depth, nest) for _ in range(self.r.randrange(0, maxlen))]
        if len(seq) >= 2 and self.p(0.2):
            # two commands of one kind written under one list item (one mapping with two entries): both are emitted, in order
            i = self.r.randrange(0, len(seq) - 1)
            (ka,), (kb,) = seq[i], seq[i + 1]
            if ka != kb and (ka in CONDITIONS) == (kb in CONDITIONS):
                self.features.add("two-commands-in-one-item")
                seq[i:i + 2] = [{**seq[i], **seq[i + 1]}]
        return seq

    # ---- text ------------------------------------------------------------------------------------------
    def text_map(self, components):
        self.features.add("textmap")
        out = {}
        # language tags are text: whatever their case, and two tags that differ in case only are two languages (C03-s)
        for lang in self.r.sample(["en", "pl", "de", "en-US", "en-us", "EN", "zh-hant", "ZH-hant", "de-ch", "en-GB", "en-gb"], self.r.randrange(1, 4)):
            lm = {}
            for k in self.r.sample(TEXT_KEYS, self.r.randrange(0, 3)):
                lm[k] = self.text(60)
            for c in components[: self.r.randrange(0, 3)]:
                import json
                if all(isinstance(p, (str, int)) and not isinstance(p, bool) for p in c) and c:
                    lm[json.dumps(c)] = {k: self.text(25) for k in self.r.sample(COMP_TEXT, self.r.randrange(0, 4))}
            out[lang] = lm
        return out

    # ---- authentication --------------------------------------------------------------------------------
    def auth_block(self):
        self.features.add("authblock")
        payload = None
        if self.p(0.3):
            self.features.add("cwt")
            payload = {}
            for k, t in self.r.sample(CWT, self.r.randrange(0, 4)):
                payload[k] = self.text(15) if t == "s" else (self.sint() if t == "i" else self.hexs(8))
        return {"CoseSign1Tagged": {"protected": self.header_map(SIGN_ALGS), "unprotected": self.header_map(SIGN_ALGS) if self.p(0.2) else {},
                                    "payload": payload, "signature": self.hexs(self.r.choice([64, 96, 132, 0, 5]))}}

    # ---- manifest / envelope ---------------------------------------------------------------------------
    def manifest(self, depth, severed):
        m = {"suit-manifest-version": 1, "suit-manifest-sequence-number": self.uint()}
        comps = [self.comp_id() for _ in range(self.r.randrange(0, 4))]
        common = {}
        if self.p(0.3):
            self.features.add("dependencies")
            # the entries of suit-dependencies stand in the order of the description: indexes of different digit counts, descending order (C02-s)
            idx = self.r.sample(range(0, 5) if self.p(0.6) else [0, 1, 2, 9, 10, 11, 23, 24, 100], self.r.randrange(0, 4))
            if self.p(0.6):
                idx.sort()
            else:
                self.features.add("dependencies:unsorted")
            common["suit-dependencies"] = {str(i): ({"suit-dependency-prefix": self.comp_id()} if self.p(0.6) else {}) for i in idx}
        if self.p(0.85):
            common["suit-components"] = comps
        if self.p(0.7):
            common["suit-shared-sequence"] = self.cmdseq(depth)
        if self.p(0.9):
            m["suit-common"] = common
        if self.p(0.2):
            m["suit-reference-uri"] = self.text(40)
        if self.p(0.5):
            m["suit-manifest-component-id"] = self.comp_id()
        if self.p(0.3):
            m["suit-current-version"] = self.version()
        for k in ("suit-validate", "suit-load", "suit-invoke", "suit_uninstall"):
            if self.p(0.35):
                m[k] = self.cmdseq(depth)
        for k in SEVERABLE:
            mode = severed.get(k)
            if mode in ("inline", "both"):
                m[k] = self.cmdseq(depth)
            elif mode in ("severed", "digest-only"):
                d = {"suit-digest-algorithm-id": self.alg()}
                if self.p(0.6):
                    d["suit-digest-bytes"] = self.supplied([0, 32, 4])
                m[k] = d
        tmode = severed.get("suit-text")
        if tmode == "inline":
            self.features.add("text:inline(F7a)")
            m["suit-text"] = self.text_map(comps)
        elif tmode in ("severed", "digest-only"):
            d = {"suit-digest-algorithm-id": self.alg()}
            if self.p(0.6):
                d["suit-digest-bytes"] = self.supplied([0, 32])
            m["suit-text"] = d
        # shuffle the order of manifest members sometimes (the encoder keeps description order)
        if self.p(0.3):
            items = list(m.items())
            self.r.shuffle(items)
            m = dict(items)
        return m, comps

    def envelope(self, depth=0, child=False, pad_manifest_to=None):
        e = {}
        severed = {}
        for k in SEVERABLE + ["suit-text"]:
            x = self.r.random()
            if x < 0.55:
                continue
            severed[k] = self.r.choice(["inline", "severed", "severed", "digest-only", "both"]) if k != "suit-text" else \
                self.r.choice(["severed", "severed", "digest-only", "inline" if self.p(0.15) else "severed"])
        for k, v in severed.items():
            self.features.add(f"{k}:{v}")
        m, comps = self.manifest(depth, severed)
        if pad_manifest_to is not None:
            m["suit-reference-uri"] = "u" * pad_manifest_to
        auth = {"SuitDigest": {"suit-digest-algorithm-id": self.alg()}}
        if self.p(0.5):
            auth["SuitDigest"]["suit-digest-bytes"] = self.supplied([0, 32, 4])
        for i in range(self.r.choice([0, 0, 0, 1, 2])):
            auth[f"SuitAuthentication{i}"] = self.auth_block()
        members = [("suit-authentication-wrapper", auth), ("suit-manifest", m)]
        if self.p(0.05):
            self.features.add("delegation(F7a)")
            members.append(("suit-delegation", [[self.auth_block() for _ in range(self.r.randrange(0, 3))] for _ in range(self.r.randrange(0, 3))]))
        for k in SEVERABLE:
            if severed.get(k) in ("severed", "both"):
                # "both": the sequence stands in the manifest itself *and* a member of that name is left in the envelope (not referenced by digest:
                # it concerns no digest, and must not disturb the digests of the members that are)
                members.append((k, self.cmdseq(depth)))
        if severed.get("suit-text") == "severed":
            members.append(("suit-text", self.text_map(comps)))
        if self.p(0.5):
            pl = {}
            for i in range(self.r.randrange(0, 4)):
                name = self.r.choice(["#file", "#app", "http://x/", "p"]) + str(i)
                form = self.r.choice(["hex", "file", "file"])
                self.features.add("payload:" + form)
                if form == "hex":
                    raw = self.safe_bytes(0, 50)
                    if self.p(0.35):
                        # payload bytes are arbitrary bytes: leading zero bytes (vector tables, padding), a leading 0x0? nibble, "0x"-like text
                        self.features.add("payload:hex-leading-zeros")
                        raw = self.r.choice([b"\x00", b"\x00\x00", b"\x00" * 4, b"\x0a", b"\x00\x78", b"\x0f\x00"]) + self.nbytes(self.r.randrange(0, 12))
                    elif self.p(0.12):
                        # payload bytes that begin like a SUIT envelope (CBOR tag 107) without being one: still a payload (C03-o)
                        self.features.add("payload:envelope-like")
                        # (never tag 107 of a *map*: the tool takes that for a dependency envelope, and so does the recursive predicate)
                        raw = b"\xd8\x6b" + self.r.choice([b"", b"\x00", b"\x40", b"\x80", b"\xf6", bytes([self.r.choice([0x01, 0x18, 0x41, 0x62, 0x81, 0xd8, 0xff])]) + self.nbytes(self.r.randrange(1, 20))])
                    pl[name] = raw.hex().upper() if self.p(0.5) else raw.hex()
                else:
                    content = self.safe_bytes(0, 80) if not self.big or not self.p(0.1) else bytes([0xFF]) + self.nbytes(self.r.choice([65535, 65536]))
                    pl[name] = self.new_file(content, "pl")
            members.append(("suit-integrated-payloads", pl))
        if depth < self.max_depth and self.p(0.35 if depth == 0 else 0.2):
            deps = {}
            for i in range(self.r.randrange(1, 3)):
                name = f"#dep{depth}_{i}"
                form = self.r.choice(["inline", "inline", "file"])
                self.features.add("dependency:" + form)
                sub = self.envelope(depth + 1, child=True)
                deps[name] = sub if form == "inline" else ("@envelope-file", sub)
            members.append(("suit-integrated-dependencies", deps))
        if self.p(0.3):
            head = members[:2]
            tail = members[2:]
            self.r.shuffle(tail)
            if self.p(0.3):
                head.reverse()
            members = head + tail
        elif self.p(0.2):
            # the order of the envelope map is the order of the keys in the description, which is free: sorted maps (JSON written with
            # sort_keys), the manifest last, severed members before the manifest that refers to them (C01-o)
            self.features.add("order:free")
            if self.p(0.5):
                members.sort(key=lambda kv: kv[0])
            else:
                self.r.shuffle(members)
        e = dict(members)
        return {"SUIT_Envelope_Tagged": e}


def _empty_recipient_ciphertext(b: bytes) -> bytes:
    """`b` = bstr .cbor COSE_Encrypt_Tagged as the tool wrote it; the same with the first recipient's ciphertext replaced by h'' (written by the
    harness with cbor2, as a third-party producer would)"""
    import cbor2
    try:
        outer = cbor2.loads(b)
        wrapped = isinstance(outer, bytes)
        t = cbor2.loads(outer) if wrapped else outer
        items = [x for x in t.value]
        recs = [list(r) for r in items[3]]
        recs[0][2] = b""
        items[3] = recs
        enc = cbor2.dumps(cbor2.CBORTag(t.tag, items))
        return cbor2.dumps(enc) if wrapped else enc
    except Exception:  # noqa
        return b


def resolve(desc, create_fn, files, counter=None):
    """Replace the generator's placeholders - ('@envelope-file', sub), ('@encinfo-raw', full), ('@encinfo-file', full) - by
    real references: a child envelope / encryption info is created with `create_fn` (the real tool) and stored as a file or
    as raw hex.  Returns the resolved description; `files` is extended."""
    if counter is None:
        counter = [0]
    if isinstance(desc, tuple):
        tag, sub = desc
        sub = resolve(sub, create_fn, files, counter)
        counter[0] += 1
        if tag == "@envelope-file":
            b = create_fn(sub, files)
            name = f"child{counter[0]}.suit"
            files[name] = b
            return name
        if tag.startswith("@encinfo-"):
            # encode the full COSE_Encrypt description with the real tool, bstr-wrapped as encrypt writes it
            b = create_fn({"@encinfo": sub}, files)
            if tag.endswith("-emptyct"):
                b = _empty_recipient_ciphertext(b)
                tag = tag[:-len("-emptyct")]
            if tag == "@encinfo-raw":
                return {"raw": b.hex()}
            name = f"encinfo{counter[0]}.bin"
            files[name] = b
            return {"file": name}
        raise ValueError(tag)
    if isinstance(desc, dict):
        return {k: resolve(v, create_fn, files, counter) for k, v in desc.items()}
    if isinstance(desc, list):
        return [resolve(v, create_fn, files, counter) for v in desc]
    return desc
