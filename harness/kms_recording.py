"""KMS script used by the harness: the repository's file-based KMS (ncs/basic_kms.py), wrapped so that every
sign() call is recorded (key name, algorithm, message, signature) in the JSON-lines file named by
$VERIF_KMS_RECORD.  Nothing is replaced: the signature is the one the real KMS returned."""
import importlib.util
import json
import os
import sys
from pathlib import Path

REPO = Path(os.environ.get("REPO", "/repo"))
_spec = importlib.util.spec_from_file_location("verif_basic_kms", REPO / "ncs" / "basic_kms.py")
_mod = importlib.util.module_from_spec(_spec)
sys.modules["verif_basic_kms"] = _mod
_spec.loader.exec_module(_mod)


class RecordingKMS(_mod.SuitKMS):
    def sign(self, data, key_name, algorithm, context):
        sig = super().sign(data, key_name, algorithm, context)
        rec = os.environ.get("VERIF_KMS_RECORD")
        if rec:
            with open(rec, "a") as fh:
                fh.write(json.dumps([key_name, algorithm, bytes(data).hex(), bytes(sig).hex()]) + "\n")
        return sig

    def encrypt(self, plaintext, key_name, context, aad):
        nonce, tag, ciphertext = super().encrypt(plaintext, key_name, context, aad)
        rec = os.environ.get("VERIF_KMS_RECORD")
        if rec:
            with open(rec, "a") as fh:
                fh.write(json.dumps(["encrypt", key_name, bytes(aad).hex(), bytes(nonce).hex(), bytes(tag).hex(), bytes(ciphertext).hex()]) + "\n")
        return nonce, tag, ciphertext


def suit_kms_factory():
    return RecordingKMS()
