"""Extraction functions used by extract.py; each returns (lean source text, notes dict)."""

ALL = []
