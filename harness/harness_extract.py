"""Extraction functions used by extract.py; each returns (lean source text, notes dict).

The translator reads *runtime values* of the live Python classes under $REPO (metadata tables, resolved
methods, constants) - not syntax - so reformatting or reordering source does not disturb it."""
from __future__ import annotations

import json


def lean_str(s: str) -> str:
    out = '"'
    for ch in s:
        if ch == '"':
            out += '\\"'
        elif ch == "\\":
            out += "\\\\"
        elif ch == "\n":
            out += "\\n"
        elif 32 <= ord(ch) < 127:
            out += ch
        else:
            out += "\\u{%x}" % ord(ch)
    return out + '"'


def lean_int(n: int) -> str:
    return f"({n})" if n < 0 else str(n)


def qn(f):
    if f is None:
        return None
    f = getattr(f, "__func__", f)
    return getattr(f, "__qualname__", None)


def resolved(cls):
    return tuple(qn(getattr(cls, m, None)) for m in ("from_obj", "to_cbor", "from_cbor", "to_obj")) + (qn(cls.__init__),)


def is_cbstr(cls):
    f = cls.__dict__.get("to_cbor")
    return f is not None and getattr(f, "__qualname__", "").startswith("cbstr.<locals>.Cbstr")


O = "SuitObject"
KINDS = {
    # (from_obj, to_cbor, from_cbor, to_obj, __init__) -> kind
    (f"{O}.from_obj", f"{O}.to_cbor", f"{O}.from_cbor", f"{O}.to_obj", "SuitUint.__init__"): "uint",
    (f"{O}.from_obj", f"{O}.to_cbor", f"{O}.from_cbor", f"{O}.to_obj", "SuitInt.__init__"): "int",
    (f"{O}.from_obj", f"{O}.to_cbor", f"{O}.from_cbor", f"{O}.to_obj", "SuitBool.__init__"): "bool",
    (f"{O}.from_obj", f"{O}.to_cbor", f"{O}.from_cbor", f"{O}.to_obj", "SuitNull.__init__"): "null",
    (f"{O}.from_obj", f"{O}.to_cbor", f"{O}.from_cbor", f"{O}.to_obj", "SuitTstr.__init__"): "tstr",
    ("SuitBstr.from_obj", "SuitBstr.to_cbor", "SuitBstr.from_cbor", "SuitBstr.to_obj", "SuitBstr.__init__"): "bstr",
    ("SuitBstr.from_obj", "SuitBstr.to_cbor", "SuitHex.from_cbor", "SuitBstr.to_obj", "SuitBstr.__init__"): "hex",
    ("SuitBstr.from_obj", "SuitBstr.to_cbor", "SuitBstr.from_cbor", "SuitRawBstr.to_obj", "SuitBstr.__init__"): "rawBstr",
    ("SuitBstr.from_obj", "SuitEmptyBstr.to_cbor", "SuitEmptyBstr.from_cbor", "SuitBstr.to_obj", "SuitBstr.__init__"): "emptyBstr",
    (f"{O}.from_obj", "SuitBchar.to_cbor", "SuitBchar.from_cbor", f"{O}.to_obj", "SuitBchar.__init__"): "bchar",
    (f"{O}.from_obj", "SuitEnum.to_cbor", "SuitEnum.from_cbor", f"{O}.to_obj", "SuitEnum.__init__"): "enum",
    ("SuitUnion.from_obj", "SuitUnion.to_cbor", "SuitUnion.from_cbor", "SuitUnion.to_obj", f"{O}.__init__"): "union",
    ("SuitTupleNamed.from_obj", "SuitTupleNamed.to_cbor", "SuitTupleNamed.from_cbor", "SuitTupleNamed.to_obj", f"{O}.__init__"): "tupleNamed",
    ("SuitKeyValue.from_obj", "SuitKeyValue.to_cbor", "SuitKeyValue.from_cbor", "SuitKeyValue.to_obj", f"{O}.__init__"): "keyValue",
    ("SuitKeyValue.from_obj", "SuitKeyValueTuple.to_cbor", "SuitKeyValueTuple.from_cbor", "SuitKeyValue.to_obj", f"{O}.__init__"): "keyValueTuple",
    ("SuitKeyValueUnnamed.from_obj", "SuitKeyValueUnnamed.to_cbor", "SuitKeyValueUnnamed.from_cbor", "SuitKeyValueUnnamed.to_obj", f"{O}.__init__"): "keyValueUnnamed",
    ("SuitTag.from_obj", "SuitTag.to_cbor", "SuitTag.from_cbor", "SuitTag.to_obj", f"{O}.__init__"): "tag",
    ("SuitList.from_obj", "SuitList.to_cbor", "SuitList.from_cbor", "SuitList.to_obj", f"{O}.__init__"): "list",
    ("SuitList.from_obj", "SuitList.to_cbor", "SuitList.from_cbor", "SuitComponentIdentifier.to_obj", f"{O}.__init__"): "list",
    ("SuitBitfield.from_obj", "SuitBitfield.to_cbor", "SuitBitfield.from_cbor", "SuitBitfield.to_obj", f"{O}.__init__"): "bitfield",
    ("SuitUUID.from_obj", "SuitBstr.to_cbor", "SuitUUID.from_cbor", "SuitUUID.to_obj", "SuitBstr.__init__"): "uuid",
    ("SuitImageSize.from_obj", f"{O}.to_cbor", f"{O}.from_cbor", "SuitImageSize.to_obj", "SuitUint.__init__"): "imageSize",
    ("SuitComponentVersion.from_obj", "SuitList.to_cbor", "SuitList.from_cbor", "SuitList.to_obj", f"{O}.__init__"): "version",
    ("SuitDigestExt.from_obj", None, "SuitDigestExt.from_cbor", None, "object.__init__"): "digestExt",
    ("SuitEncryptionInfoExt.from_obj", "SuitBstr.to_cbor", "SuitEncryptionInfoExt.from_cbor", "SuitEncryptionInfoExt.to_obj", "SuitBstr.__init__"): "encInfoExt",
    ("SuitIntegratedPayloadMap.from_obj", "SuitKeyValueUnnamed.to_cbor", "SuitKeyValueUnnamed.from_cbor", "SuitKeyValueUnnamed.to_obj", f"{O}.__init__"): "payloadMap",
    ("SuitHeaderMapOptional.from_obj", "SuitUnion.to_cbor", "SuitUnion.from_cbor", "SuitUnion.to_obj", f"{O}.__init__"): "headerMapOptional",
}


def build_schema():
    from suit_generator.suit.envelope import SuitEnvelopeTagged, SuitEnvelopeTaggedSimplified
    from suit_generator.suit.security import CoseSigStructure, CoseEncStructure, SuitHash, SuitDigestRaw
    from suit_generator.suit.types.keys import suit_integrated_payloads, suit_integrated_dependencies

    roots = [SuitEnvelopeTagged, SuitEnvelopeTaggedSimplified, CoseSigStructure, CoseEncStructure]
    index = {}
    order = []
    notes = {"unmodelled": []}

    def visit(cls):
        if id(cls) in index:
            return index[id(cls)]
        index[id(cls)] = len(order)
        order.append(cls)
        return index[id(cls)]

    descs = {}
    i = 0
    for r in roots:
        visit(r)
    while i < len(order):
        cls = order[i]
        i += 1
        md = getattr(cls, "_metadata", None)
        if is_cbstr(cls):
            inner = cls.__bases__[0]
            # the three inherited methods must be exactly the inner class's
            if resolved(cls)[0] != resolved(inner)[0] or resolved(cls)[2:4] != resolved(inner)[2:4]:
                descs[id(cls)] = ("unknown", inner.__name__, None)
                notes["unmodelled"].append(cls.__name__)
            else:
                descs[id(cls)] = ("cbstr", inner.__name__, visit(inner))
            continue
        sig = resolved(cls)
        kind = KINDS.get(sig)
        name = cls.__name__
        if kind is None:
            descs[id(cls)] = ("unknown", name, None)
            notes["unmodelled"].append(f"{name}: {sig}")
            continue
        if kind == "enum":
            descs[id(cls)] = (kind, name, [(c.name, c.id) for c in md.children])
        elif kind == "union":
            descs[id(cls)] = (kind, name, [visit(c) for c in md.children])
        elif kind == "headerMapOptional":
            ch = md.children
            descs[id(cls)] = (kind, name, (visit(ch[0]), visit(ch[1])))
        elif kind == "tupleNamed":
            descs[id(cls)] = (kind, name, [(k, visit(c)) for k, c in md.map.items()])
        elif kind in ("keyValue", "keyValueTuple"):
            es = [(k.name, k.id, visit(c), (k is suit_integrated_payloads or k is suit_integrated_dependencies)) for k, c in md.map.items()]
            emb = None
            if md.embedded:
                emb = md.embedded[0].name
            descs[id(cls)] = (kind, name, (es, emb))
        elif kind in ("keyValueUnnamed",):
            descs[id(cls)] = (kind, name, [(visit(k), visit(v)) for k, v in md.map.items()])
        elif kind == "payloadMap":
            (k, v), = md.map.items()
            descs[id(cls)] = (kind, name, (visit(k), visit(v)))
        elif kind == "tag":
            descs[id(cls)] = (kind, name, (md.tag.value, md.tag.name, visit(md.children[0])))
        elif kind == "list":
            if md is None or not md.children:
                descs[id(cls)] = ("unknown", name, None)
                notes["unmodelled"].append(f"{name}: list without child class")
            else:
                descs[id(cls)] = (kind, name, (visit(md.children[0]), cls._group))
        elif kind == "version":
            descs[id(cls)] = (kind, name, visit(md.children[0]))
        elif kind == "bitfield":
            descs[id(cls)] = (kind, name, (visit(cls._bit_class), cls._bit_length))
        elif kind == "digestExt":
            descs[id(cls)] = (kind, name, visit(SuitDigestRaw))
        else:
            descs[id(cls)] = (kind, name, None)
    hashes = [(n, a.digest_size) for n, a in SuitHash._hash_func.items()]
    return order, descs, index, hashes, notes, (index[id(SuitEnvelopeTagged)], index[id(SuitEnvelopeTaggedSimplified)])


def ty_lean(d):
    kind, name, x = d
    if kind in ("uint", "int", "bool", "null", "tstr", "bstr", "hex", "emptyBstr", "bchar", "uuid", "imageSize", "encInfoExt", "unknown", "rawBstr"):
        return f".{kind}"
    if kind == "enum":
        return ".enum [" + ", ".join(f"({lean_str(n)}, {lean_int(i)})" for n, i in x) + "]"
    if kind == "union":
        return ".union [" + ", ".join(str(c) for c in x) + "]"
    if kind == "headerMapOptional":
        return f".headerMapOptional {x[0]} {x[1]}"
    if kind == "tupleNamed":
        return ".tupleNamed [" + ", ".join(f"({lean_str(k)}, {c})" for k, c in x) + "]"
    if kind in ("keyValue", "keyValueTuple"):
        es, emb = x
        el = "[" + ", ".join(f"⟨{lean_str(n)}, {lean_int(i)}, {c}, {'true' if m else 'false'}⟩" for n, i, c, m in es) + "]"
        if kind == "keyValue":
            return f".keyValue {el} " + ("none" if emb is None else f"(some {lean_str(emb)})")
        return f".keyValueTuple {el}"
    if kind == "keyValueUnnamed":
        return ".keyValueUnnamed [" + ", ".join(f"({k}, {v})" for k, v in x) + "]"
    if kind == "payloadMap":
        return f".payloadMap {x[0]} {x[1]}"
    if kind == "tag":
        return f".tag {x[0]} {lean_str(x[1])} {x[2]}"
    if kind == "list":
        return f".list {x[0]} " + ("none" if x[1] is None else f"(some {x[1]})")
    if kind == "version":
        return f".version {x}"
    if kind == "bitfield":
        return f".bitfield {x[0]} {x[1]}"
    if kind == "digestExt":
        return f".digestExt {x}"
    if kind == "cbstr":
        return f".cbstr {x}"
    raise ValueError(kind)


def gen_schema():
    order, descs, index, hashes, notes, (env, envs) = build_schema()
    lines = ["import SuitVerif.Schema",
             "/-! GENERATED by harness/extract.py from the live Python classes of /repo - do not edit. -/",
             "namespace SuitVerif.Generated", "", "def classes : List (String × Ty) := ["]
    body = []
    for i, cls in enumerate(order):
        d = descs[id(cls)]
        body.append(f"  /- {i} -/ ({lean_str(d[1])}, {ty_lean(d)})")
    lines.append(",\n".join(body))
    lines.append("]")
    lines.append("")
    lines.append("def schema : Schema := {")
    lines.append("  classes := classes,")
    lines.append(f"  envelope := {env},")
    lines.append(f"  envelopeSimplified := {envs},")
    lines.append("  hashes := [" + ", ".join(f"({lean_str(n)}, {l})" for n, l in hashes) + "] }")
    lines.append("")
    lines.append("end SuitVerif.Generated")
    notes["classes"] = len(order)
    return "\n".join(lines) + "\n", notes


def probe(fn):
    try:
        fn()
        return "no-exception"
    except ValueError:
        return "ValueError"
    except BaseException as e:  # noqa
        return type(e).__name__


def gen_guards():
    import cbor2
    from suit_generator.suit.security import CoseSign1, SuitEncryptionInfoExt
    from suit_generator.suit.manifest import SuitParameterInvokeArgs, SuitRepPolicy

    probes = {
        "tupleIndex": ("CoseSign1.from_cbor(80)", lambda: CoseSign1.from_cbor(cbor2.dumps([]))),
        "embeddedNone": ("SuitParameterInvokeArgs.from_cbor(a1186301)", lambda: SuitParameterInvokeArgs.from_cbor(cbor2.dumps({99: 1}))),
        "bitfieldType": ("SuitRepPolicy.from_cbor(6178)", lambda: SuitRepPolicy.from_cbor(cbor2.dumps("x"))),
        "encInfoFromCbor": ("SuitEncryptionInfoExt.from_cbor(00)", lambda: SuitEncryptionInfoExt.from_cbor(b"\x00")),
    }
    out = {}
    flags = {}
    for k, (desc, fn) in probes.items():
        r = probe(fn)
        out[k] = {"probe": desc, "outcome": r}
        flags[k] = r == "ValueError"
    text = ("import SuitVerif.Decode\n/-! GENERATED by harness/extract.py: outcome of the fixed probe inputs on the running code. -/\n"
            "namespace SuitVerif.Generated\n\n"
            "def guards : Decode.Guards := { tupleIndex := %s, embeddedNone := %s, bitfieldType := %s, encInfoFromCbor := %s }\n\n"
            "end SuitVerif.Generated\n") % tuple("true" if flags[k] else "false" for k in ("tupleIndex", "embeddedNone", "bitfieldType", "encInfoFromCbor"))
    return text, {"guards": out}


def lean_bytes(b: bytes) -> str:
    return "[" + ", ".join(f"0x{x:02x}" for x in b) + "]"


def load_script(name, path):
    import importlib.util
    import sys
    spec = importlib.util.spec_from_file_location(name, path)
    mod = importlib.util.module_from_spec(spec)
    sys.modules[name] = mod
    spec.loader.exec_module(mod)
    return mod


def gen_consts():
    """constants read behaviourally: the AAD the encrypt script hands to the KMS, algorithm enums, the DNS namespace"""
    import os
    import uuid
    from pathlib import Path
    repo = Path(os.environ.get("REPO", "/repo"))
    enc = load_script("verif_encrypt_script", repo / "ncs" / "encrypt_script.py")
    sig = load_script("verif_sign_script", repo / "ncs" / "sign_script.py")
    captured = {}

    class StubKMS:
        def encrypt(self, plaintext, key_name, context, aad):
            captured["aad"] = bytes(aad)
            return b"\x00" * 12, b"\x00" * 16, b""

    e = enc.Encryptor()
    e.kms = StubKMS()
    e.cose_kw_alg = enc.SuitCoseEncryptAlgorithms.COSE_ALG_DIRECT.value
    e.generate_kms_artifacts(b"", "k", None)
    enc_algs = [(m.name, m.value) for m in enc.SuitCoseEncryptAlgorithms]
    sign_algs = [(m.name, m.value) for m in sig.SuitCoseSignAlgorithms]
    text = ("import SuitVerif.Bytes\n/-! GENERATED by harness/extract.py: constants of ncs/encrypt_script.py, ncs/sign_script.py and the uuid module, read at run time. -/\n"
            "namespace SuitVerif.Generated\nopen SuitVerif\n\n"
            f"/-- the Enc_structure bytes `generate_kms_artifacts` passes to the KMS as additional authenticated data -/\ndef aadLiteral : Bytes := {lean_bytes(captured['aad'])}\n\n"
            "def coseEncryptAlgs : List (String × Int) := [" + ", ".join(f"({lean_str(n)}, {lean_int(v)})" for n, v in enc_algs) + "]\n\n"
            "def coseSignAlgs : List (String × Int) := [" + ", ".join(f"({lean_str(n)}, {lean_int(v)})" for n, v in sign_algs) + "]\n\n"
            f"def namespaceDNS : Bytes := {lean_bytes(uuid.NAMESPACE_DNS.bytes)}\n\n"
            "end SuitVerif.Generated\n")
    return text, {"aad": captured["aad"].hex()}


def gen_layout():
    """slot layouts, default class/role assignments, role and domain enumerations of cmd_image.py"""
    from suit_generator import cmd_image as ci

    def layout(cls):
        return "[" + ", ".join(f"⟨{lean_str(e['role'].name)}, {e['offset']}, {e['size']}, {lean_str(e['domain'].name)}⟩" for e in cls._LAYOUT) + "]"

    def assigns(cls):
        return "[" + ", ".join(f"({lean_str(e['vendor_name'])}, {lean_str(e['class_name'])}, {lean_str(e['role'].name)})" for e in cls._CLASS_ROLE_ASSIGNMENTS) + "]"

    socs = [("nrf54h20", ci.EnvelopeStorageNrf54h20), ("nrf9280", ci.EnvelopeStorageNrf9280)]
    text = ("import SuitVerif.Storage\n/-! GENERATED by harness/extract.py from suit_generator/cmd_image.py (class attributes read at run time). -/\n"
            "namespace SuitVerif.Generated\nopen SuitVerif.Storage\n\n")
    for name, cls in socs:
        text += f"def layout_{name} : List Slot := {layout(cls)}\n\n"
        text += f"def assignments_{name} : List (String × String × String) := {assigns(cls)}\n\n"
    text += "def roles : List (String × Nat) := [" + ", ".join(f"({lean_str(r.name)}, {r.value})" for r in ci.ManifestRole) + "]\n\n"
    text += "def domains : List String := [" + ", ".join(lean_str(d.name) for d in ci.ManifestDomain) + "]\n\n"
    text += (f"def defaultStorageAddress : Nat := {ci.ImageCreator.default_storage_address}\n"
             f"def slotKeys : Nat × Nat × Nat × Nat := ({ci.EnvelopeStorage.ENVELOPE_SLOT_VERSION_KEY}, {ci.EnvelopeStorage.ENVELOPE_SLOT_VERSION}, "
             f"{ci.EnvelopeStorage.ENVELOPE_SLOT_CLASS_ID_OFFSET_KEY}, {ci.EnvelopeStorage.ENVELOPE_SLOT_ENVELOPE_BSTR_KEY})\n\n")
    text += "end SuitVerif.Generated\n"
    return text, {"layout_slots": {n: len(c._LAYOUT) for n, c in socs}}


ALL = [("Schema", gen_schema), ("Guards", gen_guards), ("Consts", gen_consts), ("Layout", gen_layout)]
