"""Keys, signing through the real CLI entry point with the recording KMS, and signature verification."""
from __future__ import annotations

import json
import os
import tempfile

from . import common, suitio

KEY_TYPES = ["p256", "p384", "p521", "ed25519", "ed448"]
ALGS = ["es-256", "es-384", "es-521", "eddsa", "hash-eddsa"]
COSE = {"es-256": -7, "es-384": -35, "es-521": -36, "eddsa": -8, "hash-eddsa": -65537}
MATCHING_KEY = {"es-256": "p256", "es-384": "p384", "es-521": "p521", "eddsa": "ed25519", "hash-eddsa": "ed25519"}

_keys_dir = None


def keys_dir():
    """generate one key pair per type (and a second set for per-node keys) once per process tree"""
    global _keys_dir
    if _keys_dir is not None:
        return _keys_dir
    from cryptography.hazmat.primitives.asymmetric import ec, ed25519, ed448
    from cryptography.hazmat.primitives import serialization

    import atexit, shutil
    d = tempfile.mkdtemp(prefix="verif_keys_")
    atexit.register(lambda: shutil.rmtree(d, ignore_errors=True))
    gens = {"p256": lambda: ec.generate_private_key(ec.SECP256R1()), "p384": lambda: ec.generate_private_key(ec.SECP384R1()),
            "p521": lambda: ec.generate_private_key(ec.SECP521R1()), "ed25519": ed25519.Ed25519PrivateKey.generate,
            "ed448": ed448.Ed448PrivateKey.generate}
    for kt, g in gens.items():
        for suffix in ("", "_b", "_c", ".v2"):     # "key_x.v2" is the file key_x.v2.pem: a dot in a key name is part of the name
            k = g()
            pem = k.private_bytes(serialization.Encoding.PEM, serialization.PrivateFormat.PKCS8, serialization.NoEncryption())
            with open(os.path.join(d, f"key_{kt}{suffix}.pem"), "wb") as fh:
                fh.write(pem)
    _keys_dir = d
    return d


def load_private(name):
    from cryptography.hazmat.primitives.serialization import load_pem_private_key
    with open(os.path.join(keys_dir(), name + ".pem"), "rb") as fh:
        return load_pem_private_key(fh.read(), None)


def verify(key_name: str, alg: str, msg: bytes, sig: bytes) -> bool:
    """verify `sig` over `msg` with the public half of the harness key, by the rules of the COSE algorithm"""
    from cryptography.hazmat.primitives.asymmetric import ec
    from cryptography.hazmat.primitives.asymmetric.utils import encode_dss_signature
    from cryptography.hazmat.primitives import hashes
    from cryptography.exceptions import InvalidSignature

    priv = load_private(key_name)
    pub = priv.public_key()
    try:
        if alg.startswith("es-"):
            w = (pub.key_size + 7) // 8
            if len(sig) != 2 * w:
                return False
            r, s = int.from_bytes(sig[:w], "big"), int.from_bytes(sig[w:], "big")
            h = {256: hashes.SHA256(), 384: hashes.SHA384(), 521: hashes.SHA512()}[pub.key_size]
            pub.verify(encode_dss_signature(r, s), msg, ec.ECDSA(h))
            return True
        if alg == "eddsa":
            pub.verify(sig, msg)
            return True
        if alg == "hash-eddsa":
            from Crypto.PublicKey import ECC
            from Crypto.Signature import eddsa
            from Crypto.Hash import SHA512, SHAKE256
            from cryptography.hazmat.primitives import serialization
            pem = pub.public_bytes(serialization.Encoding.PEM, serialization.PublicFormat.SubjectPublicKeyInfo)
            key = ECC.import_key(pem)
            # RFC 8032: Ed25519ph pre-hashes with SHA-512, Ed448ph with SHAKE256
            eddsa.new(key, "rfc8032").verify(SHAKE256.new(msg) if key.curve == "Ed448" else SHA512.new(msg), sig)
            return True
    except (InvalidSignature, ValueError):
        return False
    return False


def _record_file(d):
    return os.path.join(d, "kms_record.jsonl")


def run_sign(sub, input_bytes: bytes, d: str, **kw):
    """cmd_sign.main in-process; returns (result, records)"""
    from suit_generator import cmd_sign
    from suit_generator.suit_sign_script_base import SuitSignAlgorithms, SignatureAlreadyPresentActions

    inp = os.path.join(d, "in.suit")
    out = os.path.join(d, "signed.suit")
    rec = _record_file(d)
    if os.path.exists(rec):
        os.unlink(rec)
    in_place = bool(kw.get("in_place"))          # --output-envelope names the input file itself
    if in_place:
        out = inp
    else:
        common.make_stale(out)
    with open(inp, "wb") as fh:
        fh.write(input_bytes)
    os.environ["VERIF_KMS_RECORD"] = rec
    os.environ["REPO"] = str(common.REPO)
    args = {"sign_subcommand": sub, "input_envelope": inp, "output_envelope": out}
    if sub == "single-level":
        args.update(key_name=kw["key_name"], key_id=kw["key_id"], alg=SuitSignAlgorithms(kw["alg"]), context=kw.get("context", keys_dir()),
                    sign_script=str(common.REPO / "ncs" / "sign_script.py"), kms_script=str(common.VERIF / "harness" / "kms_recording.py"),
                    already_signed_action=SignatureAlreadyPresentActions(kw.get("action", "error")))
    else:
        cfgp = os.path.join(d, "cfg.json")
        with open(cfgp, "w") as fh:
            json.dump(kw["configuration"], fh)
        args.update(configuration=cfgp)
    try:
        cmd_sign.main(**args)
        if not in_place and not common.was_written(out):
            raise FileNotFoundError("no output envelope written")
        with open(out, "rb") as fh:
            res = {"ok": fh.read()}
    except BaseException as e:  # noqa
        name = type(e).__name__
        res = {"err": "ValueError" if isinstance(e, ValueError) else name, "wrote_output": (open(out, "rb").read() != input_bytes) if in_place else common.was_written(out)}
    records = []
    if os.path.exists(rec):
        with open(rec) as fh:
            records = [json.loads(l) for l in fh if l.strip()]
    return res, records


def keyMatches(keytype: str, alg: str) -> bool:
    """the verifier's own statement of the key/algorithm rule (C09)"""
    return (keytype, alg) in {("p256", "es-256"), ("p384", "es-384"), ("p521", "es-521"), ("ed25519", "eddsa"), ("ed25519", "hash-eddsa"),
                              ("ed448", "eddsa"), ("ed448", "hash-eddsa")}
