#!/bin/sh
# Build the Lean library (model, proofs) and the native driver from files on disk only.
set -e
cd "$(dirname "$0")"
python3 harness/extract.py 2>/dev/null || true
cd lean
lake build SuitVerif SuitVerif.AuditCmd driver
