import SuitVerif.Bytes
import SuitVerif.Cbor
import SuitVerif.CborProofs
import SuitVerif.Hash.Sha2
import SuitVerif.Hash.Keccak
import SuitVerif.Cache
