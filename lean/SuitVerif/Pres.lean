import SuitVerif.Shape
namespace SuitVerif.Typing
open SuitVerif SuitVerif.Encode SuitVerif.Decode SuitVerif.Py

theorem isDigest_setDigestBytes {algs} (d : Bytes) {n : Node} (h : IsDigest algs n) : IsDigest algs (setDigestBytes d n) := by
  induction h with
  | tuple ha => simpa [setDigestBytes, repeel] using IsDigest.tuple ha
  | alt _ ih => simpa [setDigestBytes, repeel] using IsDigest.alt ih

theorem isDigestAlt_setDigestBytes' (d : Bytes) (n : Node) : isDigestAlt (setDigestBytes d n) = isDigestAlt n := by
  cases n <;> simp [isDigestAlt, setDigestBytes, repeel]
  rename_i ks vals
  rcases vals with _ | ⟨a, _ | ⟨b, rest⟩⟩ <;> rfl

theorem kvReplace_keys (es : List (KvKey × Node)) (id : Int) (x : Node) :
    (kvReplace es id x).map (·.1) = es.map (·.1) := by
  unfold kvReplace
  rw [List.map_map]
  apply List.map_congr_left
  intro e _
  simp only [Function.comp]
  split <;> rfl

theorem keyIds_eq (l : List (KvKey × Node)) :
    (l.filter (fun p => !p.1.merge)).map (·.1.id) = ((l.map (·.1)).filter (fun k => !k.merge)).map (·.id) := by
  rw [List.filter_map, List.map_map]
  rfl

theorem kvGood_kvReplace {es : List (KvKey × Node)} (h : KvGood es) (id : Int) (x : Node) : KvGood (kvReplace es id x) := by
  refine ⟨?_, ?_⟩
  · rw [keyIds_eq, kvReplace_keys, ← keyIds_eq]; exact h.nodup
  · intro p hp hpm
    unfold kvReplace at hp
    obtain ⟨e, he, rfl⟩ := List.mem_map.mp hp
    by_cases hc : (e.1.id == id && !e.1.merge) = true
    · simp only [hc, if_true] at hpm
      simp only [Bool.and_eq_true, Bool.not_eq_true'] at hc
      simp [hc.2] at hpm
    · simp only [hc, Bool.false_eq_true, if_false] at hpm ⊢
      exact h.merged e he hpm

end SuitVerif.Typing

namespace SuitVerif.Typing
open SuitVerif SuitVerif.Encode SuitVerif.Decode SuitVerif.Py

theorem sevKeys_ne3 {k : Int} (hk : k ∈ sevKeys) : k ≠ 3 := by
  intro h; subst h; simp [sevKeys] at hk

theorem sevKeys_ne2 {k : Int} (hk : k ∈ sevKeys) : k ≠ 2 := by
  intro h; subst h; simp [sevKeys] at hk

theorem shape_updateSeverable1 {algs} (cx : Ctx) (t : Nat) (nm : String) (es : List (KvKey × Node)) (key : Int) (env' : Node)
    (hs : EnvShape algs es) (hkey : key ∈ sevKeys) (h : updateSeverable1 cx (.tagged t nm (.kv es)) key = .ok env') :
    ∃ es', env' = .tagged t nm (.kv es') ∧ EnvShape algs es' := by
  unfold updateSeverable1 at h
  simp only at h
  cases hm : kvGet es 3 with
  | none => simp [hm] at h
  | some m =>
    simp only [hm] at h
    obtain ⟨mes, rfl, hgoodm, hent⟩ := hs.man m hm
    simp only [peel] at h
    cases he : kvGet mes key with
    | none => simp only [he, Except.ok.injEq] at h; exact ⟨es, h.symm, hs⟩
    | some entry =>
      simp only [he] at h
      by_cases hda : isDigestAlt entry = true
      · simp only [hda, Bool.not_true, Bool.false_eq_true, if_false] at h
        cases hsv : kvGet es key with
        | none => simp only [hsv, Except.ok.injEq] at h; exact ⟨es, h.symm, hs⟩
        | some sev =>
          simp only [hsv] at h
          cases hal : digestAlg entry with
          | none => simp [hal] at h
          | some alg =>
            simp only [hal] at h
            cases hh : cx.hash alg sev.toBytes with
            | none => simp [hh] at h
            | some d =>
              simp only [hh, repeel, Except.ok.injEq] at h
              refine ⟨_, h.symm, ⟨kvGood_kvReplace hs.good _ _, ?_, ?_, ?_⟩⟩
              · intro a ha
                rw [kvGet_kvReplace_other es 3 2 _ (by decide)] at ha
                exact hs.auth a ha
              · intro m' hm'
                rw [kvGet_kvReplace_same es 3 _ (by simp [hm])] at hm'
                simp only [Option.some.injEq] at hm'
                subst hm'
                refine ⟨_, rfl, kvGood_kvReplace hgoodm _ _, ?_⟩
                intro k hk entry' hentry'
                by_cases hkk : k = key
                · subst hkk
                  rw [kvGet_kvReplace_same mes k _ (by simp [he])] at hentry'
                  simp only [Option.some.injEq] at hentry'
                  subst hentry'
                  rcases hent k hk entry he with ⟨_, hd⟩ | ⟨hf, _⟩
                  · exact Or.inl ⟨by rw [isDigestAlt_setDigestBytes']; exact hda, isDigest_setDigestBytes d hd⟩
                  · rw [hda] at hf; cases hf
                · rw [kvGet_kvReplace_other mes key k _ (fun e => hkk e.symm)] at hentry'
                  exact hent k hk entry' hentry'
              · intro k hk sv hsv'
                rw [kvGet_kvReplace_other es 3 k _ (fun e => sevKeys_ne3 hk e.symm)] at hsv'
                exact hs.sev k hk sv hsv'
      · simp only [Bool.not_eq_true] at hda
        simp only [hda, Bool.not_false, if_true, Except.ok.injEq] at h
        exact ⟨es, h.symm, hs⟩

theorem shape_foldSev {algs} (cx : Ctx) (t : Nat) (nm : String) : ∀ (keys : List Int) (es : List (KvKey × Node)) (env' : Node),
    EnvShape algs es → (∀ k ∈ keys, k ∈ sevKeys) →
    keys.foldlM (fun e k => updateSeverable1 cx e k) (Node.tagged t nm (.kv es)) = .ok env' →
    ∃ es', env' = .tagged t nm (.kv es') ∧ EnvShape algs es' := by
  intro keys
  induction keys with
  | nil => intro es env' hs _ h; simp [List.foldlM, pure, Except.pure] at h; exact ⟨es, h.symm, hs⟩
  | cons k rest ih =>
    intro es env' hs hk h
    simp only [List.foldlM, bind, Except.bind] at h
    cases h1 : updateSeverable1 cx (.tagged t nm (.kv es)) k with
    | error e => simp [h1] at h
    | ok e1 =>
      simp only [h1] at h
      obtain ⟨es1, rfl, hs1⟩ := shape_updateSeverable1 cx t nm es k e1 hs (hk k (by simp)) h1
      exact ih es1 env' hs1 (fun k' hk' => hk k' (by simp [hk'])) h

theorem shape_updateSeverable {algs} (cx : Ctx) (t : Nat) (nm : String) (es : List (KvKey × Node)) (env' : Node)
    (hs : EnvShape algs es) (h : updateSeverable cx (.tagged t nm (.kv es)) = .ok env') :
    ∃ es', env' = .tagged t nm (.kv es') ∧ EnvShape algs es' :=
  shape_foldSev cx t nm Encode.severableKeys es env' hs (by decide) h

theorem shape_updateDigest {algs} (cx : Ctx) (t : Nat) (nm : String) (es : List (KvKey × Node)) (env' : Node)
    (hs : EnvShape algs es) (h : updateDigest cx (.tagged t nm (.kv es)) = .ok env') :
    ∃ es', env' = .tagged t nm (.kv es') ∧ EnvShape algs es' := by
  unfold updateDigest at h
  simp only at h
  cases ha : kvGet es 2 with
  | none => simp [ha] at h
  | some a =>
    simp only [ha] at h
    obtain ⟨ks, dg, blocks, rfl, hdg⟩ := hs.auth a ha
    cases had : authDigest es with
    | none => simp [had] at h
    | some d =>
      simp only [had] at h
      cases hal : digestAlg d with
      | none => simp [hal] at h
      | some alg =>
        simp only [hal] at h
        obtain ⟨hb, hmd, h⟩ := bind_ok h
        simp only [pure, Except.pure, Except.ok.injEq, repeel] at h
        refine ⟨_, h.symm, ⟨kvGood_kvReplace hs.good _ _, ?_, ?_, ?_⟩⟩
        · intro a' ha'
          rw [kvGet_kvReplace_same es 2 _ (by simp [ha])] at ha'
          simp only [Option.some.injEq] at ha'
          subst ha'
          refine ⟨ks, setDigestBytes hb dg, blocks, ?_, isDigest_setDigestBytes hb hdg⟩
          simp [setDigestBytes, repeel]
        · intro m hm
          rw [kvGet_kvReplace_other es 2 3 _ (by decide)] at hm
          exact hs.man m hm
        · intro k hk sv hsv
          rw [kvGet_kvReplace_other es 2 k _ (fun e => sevKeys_ne2 hk e.symm)] at hsv
          exact hs.sev k hk sv hsv

end SuitVerif.Typing
