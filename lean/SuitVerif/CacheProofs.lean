import SuitVerif.Cache
import SuitVerif.CborProofs
/-! Lemmas for C10: padding arithmetic, head decoding of the fixed-width forms, one step of `checkWalk`. -/
namespace SuitVerif.Cache
open SuitVerif

theorem roundUp_ge (eb n : Nat) (h : 0 < eb) : n ≤ roundUp eb n := by
  unfold roundUp
  have := Nat.div_add_mod (n + eb - 1) eb
  have := Nat.mod_lt (n + eb - 1) h
  have h3 : eb * ((n + eb - 1) / eb) = (n + eb - 1) / eb * eb := Nat.mul_comm _ _
  omega

theorem roundUp_mod (eb n : Nat) : roundUp eb n % eb = 0 := by
  unfold roundUp; exact Nat.mul_mod_left _ _

theorem roundUp_lt (eb n : Nat) (h : 0 < eb) : roundUp eb n < n + eb := by
  unfold roundUp
  have := Nat.div_add_mod (n + eb - 1) eb
  have h3 : eb * ((n + eb - 1) / eb) = (n + eb - 1) / eb * eb := Nat.mul_comm _ _
  omega

/-- the two shapes of a padding entry -/
def pad1 (k : Nat) : Bytes := [0x60, UInt8.ofNat (0x40 + k)] ++ zeros k
def pad2 (k : Nat) : Bytes := [0x60, 0x59] ++ beBytes 2 k ++ zeros k

inductive PadShape : Bytes → Prop
  | none : PadShape []
  | short (k : Nat) (h : k ≤ 21) : PadShape (pad1 k)
  | long (k : Nat) (h : k < 65536) : PadShape (pad2 k)

theorem zeros_length (n : Nat) : (zeros n).length = n := by simp [zeros]

/-- `add_padding` appends nothing or one padding entry, and the result is a multiple of `eb` long. -/
theorem addPadding_spec (eb : Nat) (d out : Bytes) (h : addPadding eb d = .ok out) :
    0 < eb ∧ out.length % eb = 0 ∧ ∃ pad, out = d ++ pad ∧ PadShape pad := by
  unfold addPadding at h
  split at h
  · cases h
  · rename_i heb
    have hpos : 0 < eb := Nat.pos_of_ne_zero heb
    refine ⟨hpos, ?_⟩
    have h1 := roundUp_ge eb d.length hpos
    have h2 := roundUp_mod eb d.length
    have h3 := roundUp_lt eb d.length hpos
    generalize roundUp eb d.length = r at *
    simp only at h
    by_cases hp1 : r - d.length = 1
    · simp only [hp1, if_true] at h
      have hne : ¬ (1 + eb = 0) := by omega
      simp only [hne, if_false] at h
      split at h
      · rename_i h23
        simp only [Except.ok.injEq] at h
        subst h
        refine ⟨?_, [0x60, UInt8.ofNat (0x40 + (1 + eb - 2))] ++ zeros (1 + eb - 2), by simp [List.append_assoc],
          PadShape.short _ (by omega)⟩
        simp [zeros_length]
        have : d.length + (1 + eb - 2 + 2) = r + eb := by omega
        rw [this]; simp [h2]
      · split at h
        · rename_i h23 hFFFF
          simp only [Except.ok.injEq] at h
          subst h
          refine ⟨?_, [0x60, 0x59] ++ beBytes 2 (1 + eb - 4) ++ zeros (1 + eb - 4), by simp [List.append_assoc],
            PadShape.long _ (by omega)⟩
          simp [zeros_length, beBytes_length]
          have : d.length + (2 + (1 + eb - 4) + 1 + 1) = r + eb := by omega
          rw [this]; simp [h2]
        · cases h
    · simp only [hp1, if_false] at h
      split at h
      · rename_i h0
        simp only [Except.ok.injEq] at h
        subst h
        refine ⟨?_, [], by simp, PadShape.none⟩
        have : d.length = r := by omega
        rw [this]; exact h2
      · split at h
        · rename_i h0 h23
          simp only [Except.ok.injEq] at h
          subst h
          refine ⟨?_, [0x60, UInt8.ofNat (0x40 + (r - d.length - 2))] ++ zeros (r - d.length - 2),
            by simp [List.append_assoc], PadShape.short _ (by omega)⟩
          simp [zeros_length]
          have : d.length + (r - d.length - 2 + 2) = r := by omega
          rw [this]; exact h2
        · split at h
          · rename_i h0 h23 hFFFF
            simp only [Except.ok.injEq] at h
            subst h
            refine ⟨?_, [0x60, 0x59] ++ beBytes 2 (r - d.length - 4) ++ zeros (r - d.length - 4),
              by simp [List.append_assoc], PadShape.long _ (by omega)⟩
            simp [zeros_length, beBytes_length]
            have : d.length + (2 + (r - d.length - 4) + 1 + 1) = r := by omega
            rw [this]; exact h2
          · cases h

theorem decHead_small (major n : Nat) (rest : Bytes) (hm : major < 8) (hn : n < 24) :
    decHead false (UInt8.ofNat (major * 32 + n) :: rest) = some (major, n, rest) := by
  have := decHead_head false major n rest hm (by omega)
  simpa [head, hn] using this

theorem decHead_raw (major ai w n : Nat) (rest : Bytes) (hm : major < 8) (hai : 24 ≤ ai ∧ ai ≤ 27)
    (hw : aiWidth ai = w) (hn : n < 256 ^ w) :
    decHead false (UInt8.ofNat (major * 32 + ai) :: (beBytes w n ++ rest)) = some (major, n, rest) := by
  simp only [decHead]
  have h1 : (UInt8.ofNat (major * 32 + ai)).toNat = major * 32 + ai := u8_toNat_ofNat (by omega)
  have h3 : (major * 32 + ai) % 32 = ai := by omega
  have h2 : (major * 32 + ai) / 32 = major := by omega
  have hl : (beBytes w n).length = w := beBytes_length _ _
  have hwpos : w ≠ 0 := by
    have : ai = 24 ∨ ai = 25 ∨ ai = 26 ∨ ai = 27 := by omega
    rcases this with h | h | h | h <;> subst h <;> simp [aiWidth] at hw <;> omega
  have ho : ofBe (beBytes w n) = n := ofBe_beBytes w n hn
  have hai24 : ¬ ai < 24 := by omega
  have htake : List.take w (beBytes w n ++ rest) = beBytes w n := by
    rw [List.take_append_of_le_length (by omega)]; exact List.take_of_length_le (by omega)
  have hdrop : List.drop w (beBytes w n ++ rest) = rest := by
    rw [List.drop_append_of_le_length (by omega)]
    simp [List.drop_of_length_le (Nat.le_of_eq hl)]
  have hlen : ¬ (beBytes w n ++ rest).length < w := by simp [hl]
  rw [h1, h2, h3, hw]
  simp only [hai24, if_false, hwpos, hlen, htake, hdrop, ho, Bool.false_and, Bool.false_eq_true]

theorem zeros_all (n : Nat) : (zeros n).all (· == 0) = true := by
  simp [zeros]

/-- the unpadded entry of a real slot (without the opening `BF`) -/
def entry (u p : Bytes) : Bytes := enc (.tstr u) ++ [0x5A] ++ beBytes 4 p.length ++ p

theorem entry_length (u p : Bytes) : (entry u p).length = (enc (.tstr u)).length + 5 + p.length := by
  simp [entry, beBytes_length]; omega

theorem checkWalk_real (eb total fuel : Nat) (u p : Bytes) (ex : List (Bytes × Bytes)) (first : Bool)
    (rest : Bytes) (hu : u ≠ []) (hul : u.length < 2 ^ 64) (hp : p.length < 2 ^ 32) :
    checkWalk eb total (fuel + 1) ((u, p) :: ex) first (entry u p ++ rest)
      = ((first || (total - (entry u p ++ rest).length) % eb == 0) && checkWalk eb total fuel ex false rest) := by
  have hlen : 2 ≤ (entry u p ++ rest).length := by
    have := entry_length u p; simp at *; omega
  have hne : ¬ (entry u p ++ rest = [0xFF]) := by
    intro h; rw [h] at hlen; simp at hlen
  have hshape : entry u p ++ rest = head 3 u.length ++ (u ++ (UInt8.ofNat (2 * 32 + 26) :: (beBytes 4 p.length ++ (p ++ rest)))) := by
    simp [entry, enc, List.append_assoc]
  rw [checkWalk]
  simp only [hne, if_false]
  rw [hshape, decHead_head false 3 u.length _ (by decide) hul]
  simp only
  have hd1 : ¬ (u ++ UInt8.ofNat (2 * 32 + 26) :: (beBytes 4 p.length ++ (p ++ rest))).length < u.length := by simp
  simp only [hd1, if_false, List.drop_left', List.take_left']
  have hd := decHead_raw 2 26 4 p.length (p ++ rest) (by decide) (by decide) (by simp [aiWidth]) (by simpa using hp)
  rw [hd]
  simp only
  have hd2 : ¬ (p ++ rest).length < p.length := by simp
  simp only [hd2, if_false, hu, List.take_left, List.drop_left]
  simp

theorem checkWalk_pad (eb total fuel : Nat) (pad : Bytes) (hpad : PadShape pad) (hne : pad ≠ [])
    (ex : List (Bytes × Bytes)) (first : Bool) (rest : Bytes) :
    checkWalk eb total (fuel + 1) ex first (pad ++ rest) = checkWalk eb total fuel ex first rest := by
  cases hpad with
  | none => exact absurd rfl hne
  | short k hk =>
    have hne' : ¬ (pad1 k ++ rest = [0xFF]) := by simp [pad1]
    rw [checkWalk]
    simp only [hne', if_false]
    have h0 : pad1 k ++ rest = UInt8.ofNat (3 * 32 + 0) :: (UInt8.ofNat (2 * 32 + k) :: (zeros k ++ rest)) := by
      simp [pad1]
    rw [h0, decHead_small 3 0 _ (by decide) (by decide)]
    simp only [List.drop_zero, List.take_zero, Nat.not_lt_zero, if_false, if_true]
    rw [decHead_small 2 k _ (by decide) (by omega)]
    simp only
    have : ¬ (zeros k ++ rest).length < k := by simp [zeros_length]
    simp only [this, if_false]
    have ht : List.take k (zeros k ++ rest) = zeros k := by
      rw [List.take_append_of_le_length (by simp [zeros_length])]; simp [zeros]
    have hd : List.drop k (zeros k ++ rest) = rest := by
      rw [List.drop_append_of_le_length (by simp [zeros_length])]; simp [zeros]
    rw [ht, hd, zeros_all]; simp
  | long k hk =>
    have hne' : ¬ (pad2 k ++ rest = [0xFF]) := by simp [pad2]
    rw [checkWalk]
    simp only [hne', if_false]
    have h0 : pad2 k ++ rest = UInt8.ofNat (3 * 32 + 0) :: (UInt8.ofNat (2 * 32 + 25) :: (beBytes 2 k ++ (zeros k ++ rest))) := by
      simp [pad2, List.append_assoc]
    rw [h0, decHead_small 3 0 _ (by decide) (by decide)]
    simp only [List.drop_zero, List.take_zero, Nat.not_lt_zero, if_false, if_true]
    rw [decHead_raw 2 25 2 k _ (by decide) (by decide) (by simp [aiWidth]) (by simpa using hk)]
    simp only
    have : ¬ (zeros k ++ rest).length < k := by simp [zeros_length]
    simp only [this, if_false]
    have ht : List.take k (zeros k ++ rest) = zeros k := by
      rw [List.take_append_of_le_length (by simp [zeros_length])]; simp [zeros]
    have hd : List.drop k (zeros k ++ rest) = rest := by
      rw [List.drop_append_of_le_length (by simp [zeros_length])]; simp [zeros]
    rw [ht, hd, zeros_all]; simp

theorem slotBytes_eq (first : Bool) (u p : Bytes) :
    slotBytes first u p = (if first then [0xBF] else []) ++ entry u p := by
  simp [slotBytes, entry, List.append_assoc]

theorem addSlot_ok (eb : Nat) (s s1 : State) (u p : Bytes) (h : addSlot eb s u p = .ok s1) :
    s.uris.contains u = false ∧ p.length < 2 ^ 32 ∧
    ∃ padded, addPadding eb (slotBytes s.first u p) = .ok padded ∧
      s1 = { first := false, data := s.data ++ padded, uris := s.uris ++ [u] } := by
  unfold addSlot at h
  split at h
  · cases h
  · split at h
    · cases h
    · rename_i h1 h2
      cases hp : addPadding eb (slotBytes s.first u p) with
      | error e => simp [hp, bind, Except.bind] at h
      | ok padded =>
        simp only [hp, bind, Except.bind, pure, Except.pure, Except.ok.injEq] at h
        exact ⟨by simpa using h1, by omega, padded, rfl, h.symm⟩

/-- Shape of what `addSlots` appends, and how `checkWalk` runs over it. -/
theorem addSlots_walk (eb : Nat) (slots : List (Bytes × Bytes)) :
    ∀ (s s' : State), addSlots eb s slots = .ok s' →
    (∀ e ∈ slots, e.1 ≠ [] ∧ e.1.length < 2 ^ 64) →
    ∃ body k, s'.data = s.data ++ (if s.first && !slots.isEmpty then 0xBF :: body else body)
      ∧ k ≤ body.length
      ∧ ∀ pre total fuel tail, (if s.first then pre = 1 else pre % eb = 0) →
          total = pre + (body ++ tail).length →
          checkWalk eb total (fuel + k) slots s.first (body ++ tail)
            = checkWalk eb total fuel [] (s.first && slots.isEmpty) tail := by
  induction slots with
  | nil =>
    intro s s' h _
    simp only [addSlots, Except.ok.injEq] at h
    subst h
    exact ⟨[], 0, by simp, by simp, by intro pre total fuel tail _ _; simp⟩
  | cons e rest ih =>
    intro s s' h hs
    obtain ⟨u, p⟩ := e
    simp only [addSlots] at h
    cases h1 : addSlot eb s u p with
    | error err => simp [h1, bind, Except.bind] at h
    | ok s1 =>
      simp only [h1, bind, Except.bind] at h
      obtain ⟨_, hp, padded, hpad, hs1⟩ := addSlot_ok eb s s1 u p h1
      obtain ⟨hebpos, hmod, pad, hpadded, hshape⟩ := addPadding_spec eb _ _ hpad
      have hu := hs (u, p) (by simp)
      obtain ⟨body1, k1, hdata1, hk1, hwalk1⟩ := ih s1 s' h (fun e he => hs e (by simp [he]))
      have hfirst1 : s1.first = false := by rw [hs1]
      simp only [hfirst1, Bool.false_and, Bool.false_eq_true, if_false] at hdata1 hwalk1
      by_cases hpe : pad = []
      · -- no padding entry
        subst hpe
        refine ⟨entry u p ++ body1, 1 + k1, ?_, ?_, ?_⟩
        · rw [hdata1, hs1]
          simp only [List.isEmpty_cons, Bool.not_false, Bool.and_true]
          rw [hpadded, slotBytes_eq]
          cases s.first <;> simp [List.append_assoc]
        · have := entry_length u p; simp at *; omega
        · intro pre total fuel tail hinv htot
          have hlenE : (slotBytes s.first u p ++ []).length % eb = 0 := by rw [← hpadded]; exact hmod
          rw [slotBytes_eq] at hlenE
          have e1 : fuel + (1 + k1) = (fuel + k1) + 1 := by omega
          rw [e1, List.append_assoc, checkWalk_real eb total (fuel + k1) u p rest s.first (body1 ++ tail) hu.1 hu.2 hp]
          have halign : (s.first || (total - (entry u p ++ (body1 ++ tail)).length) % eb == 0) = true := by
            cases hf : s.first with
            | true => simp
            | false =>
              simp only [hf, Bool.false_eq_true, if_false] at hinv
              have : total - (entry u p ++ (body1 ++ tail)).length = pre := by
                rw [htot]; simp [List.append_assoc] <;> omega
              rw [this]; simp [hinv]
          rw [halign, Bool.true_and]
          have hpre1 : (pre + (entry u p).length) % eb = 0 := by
            cases hf : s.first with
            | true =>
              simp only [hf, if_true] at hinv hlenE
              subst hinv
              simp at hlenE
              rw [Nat.add_comm]; exact hlenE
            | false =>
              simp only [hf, Bool.false_eq_true, if_false] at hinv hlenE
              simp at hlenE
              rw [Nat.add_mod, hinv, hlenE]; simp
          have := hwalk1 (pre + (entry u p).length) total fuel tail hpre1 (by rw [htot]; simp [List.append_assoc] <;> omega)
          rw [this]; simp
      · -- one padding entry
        refine ⟨entry u p ++ pad ++ body1, 2 + k1, ?_, ?_, ?_⟩
        · rw [hdata1, hs1]
          simp only [List.isEmpty_cons, Bool.not_false, Bool.and_true]
          rw [hpadded, slotBytes_eq]
          cases s.first <;> simp [List.append_assoc]
        · have := entry_length u p
          have : 1 ≤ pad.length := by
            cases pad with
            | nil => exact absurd rfl hpe
            | cons _ _ => simp
          simp at *; omega
        · intro pre total fuel tail hinv htot
          have hlenE : (slotBytes s.first u p ++ pad).length % eb = 0 := by rw [← hpadded]; exact hmod
          rw [slotBytes_eq] at hlenE
          have e1 : fuel + (2 + k1) = (fuel + k1 + 1) + 1 := by omega
          have e2 : entry u p ++ pad ++ body1 ++ tail = entry u p ++ (pad ++ (body1 ++ tail)) := by
            simp [List.append_assoc]
          rw [e1, e2, checkWalk_real eb total (fuel + k1 + 1) u p rest s.first _ hu.1 hu.2 hp]
          have halign : (s.first || (total - (entry u p ++ (pad ++ (body1 ++ tail))).length) % eb == 0) = true := by
            cases hf : s.first with
            | true => simp
            | false =>
              simp only [hf, Bool.false_eq_true, if_false] at hinv
              have : total - (entry u p ++ (pad ++ (body1 ++ tail))).length = pre := by
                rw [htot]; simp [List.append_assoc] <;> omega
              rw [this]; simp [hinv]
          rw [halign, Bool.true_and, checkWalk_pad eb total (fuel + k1) pad hshape hpe]
          have hpre1 : (pre + (entry u p).length + pad.length) % eb = 0 := by
            cases hf : s.first with
            | true =>
              simp only [hf, if_true] at hinv hlenE
              subst hinv
              simp at hlenE
              have : 1 + (entry u p).length + pad.length = (entry u p).length + pad.length + 1 := by omega
              rw [this]; exact hlenE
            | false =>
              simp only [hf, Bool.false_eq_true, if_false] at hinv hlenE
              simp at hlenE
              rw [Nat.add_assoc, Nat.add_mod, hinv, hlenE]; simp
          have := hwalk1 (pre + (entry u p).length + pad.length) total fuel tail hpre1
            (by rw [htot]; simp [List.append_assoc] <;> omega)
          rw [this]; simp

/-! ### reading back: whatever `check` accepts, the loader returns exactly the expected pairs -/

def itemsPairs (items : List Item) : List (Bytes × Bytes) :=
  (items.filter (fun it => it.key ≠ [])).map (fun it => (it.key, it.value))

theorem walk_of_check (eb total : Nat) : ∀ (fuel : Nat) (ex : List (Bytes × Bytes)) (first : Bool) (bs : Bytes),
    checkWalk eb total fuel ex first bs = true →
    ∃ items, walk total fuel bs = some items ∧ itemsPairs items = ex := by
  intro fuel
  induction fuel with
  | zero => intro ex first bs h; simp [checkWalk] at h
  | succ fuel ih =>
    intro ex first bs h
    unfold checkWalk at h
    unfold walk
    by_cases hff : bs = [0xFF]
    · simp only [hff, if_true] at h ⊢
      refine ⟨[], rfl, ?_⟩
      cases ex with
      | nil => rfl
      | cons _ _ => simp at h
    · simp only [hff, if_false] at h ⊢
      split at h
      · rename_i kn r1 hk
        by_cases hl : r1.length < kn
        · simp [hl] at h
        · simp only [hl, if_false] at h ⊢
          split at h
          · rename_i vn r3 hv
            by_cases hl2 : r3.length < vn
            · simp [hl2] at h
            · simp only [hl2, if_false] at h ⊢
              by_cases hke : r1.take kn = []
              · simp only [hke, if_true, Bool.and_eq_true] at h
                obtain ⟨items, hw, hp⟩ := ih ex first _ h.2
                refine ⟨_, by rw [hw], ?_⟩
                simp [itemsPairs, hke] at hp ⊢
                exact hp
              · simp only [hke, if_false] at h
                cases ex with
                | nil => simp at h
                | cons e ex' =>
                  obtain ⟨u, p⟩ := e
                  simp only [Bool.and_eq_true, beq_iff_eq] at h
                  obtain ⟨⟨⟨⟨hu, hp⟩, _⟩, _⟩, hrec⟩ := h
                  obtain ⟨items, hw, hpairs⟩ := ih ex' false _ hrec
                  refine ⟨_, by rw [hw], ?_⟩
                  have hune : u ≠ [] := by rw [← hu]; exact hke
                  simp only [itemsPairs] at hpairs ⊢
                  subst hpairs
                  simp [hu, hp, hune]
          · simp at h
      · simp at h

theorem dictInsert_empty_filter (d : List (Bytes × Bytes)) (v : Bytes) :
    (dictInsert d [] v).filter (fun e => e.1 ≠ []) = d.filter (fun e => e.1 ≠ []) := by
  have hmap : (d.map (fun e => if e.1 == ([] : Bytes) then (([] : Bytes), v) else e)).filter (fun e => e.1 ≠ [])
      = d.filter (fun e => e.1 ≠ []) := by
    induction d with
    | nil => rfl
    | cons e rest ih =>
      by_cases he : e.1 = []
      · simp [he] at ih ⊢; exact ih
      · simp [he] at ih ⊢; exact ih
  unfold dictInsert
  split
  · exact hmap
  · simp [List.filter_append]

theorem dictInsert_new (d : List (Bytes × Bytes)) (k v : Bytes) (h : k ∉ d.map (·.1)) :
    dictInsert d k v = d ++ [(k, v)] := by
  unfold dictInsert
  have : d.any (fun e => e.1 == k) = false := by
    rw [List.any_eq_false]
    intro e he hk
    exact h (List.mem_map.mpr ⟨e, he, by simpa using hk⟩)
  simp [this]

theorem foldl_dictInsert_filter (items : List Item) : ∀ (d : List (Bytes × Bytes)),
    ((d.filter (fun e => e.1 ≠ [])).map (·.1) ++ (itemsPairs items).map (·.1)).Nodup →
    (items.foldl (fun d it => dictInsert d it.key it.value) d).filter (fun e => e.1 ≠ [])
      = d.filter (fun e => e.1 ≠ []) ++ itemsPairs items := by
  induction items with
  | nil => intro d _; simp [itemsPairs]
  | cons it rest ih =>
    intro d hnd
    simp only [List.foldl_cons]
    by_cases hk : it.key = []
    · have hp : itemsPairs (it :: rest) = itemsPairs rest := by simp [itemsPairs, hk]
      rw [hp] at hnd ⊢
      rw [ih _ (by rw [hk, dictInsert_empty_filter]; exact hnd), hk, dictInsert_empty_filter]
    · have hp : itemsPairs (it :: rest) = (it.key, it.value) :: itemsPairs rest := by simp [itemsPairs, hk]
      rw [hp] at hnd ⊢
      have hnew : it.key ∉ d.map (·.1) := by
        intro hmem
        obtain ⟨e, he, hek⟩ := List.mem_map.mp hmem
        have h1 : it.key ∈ (d.filter (fun e => e.1 ≠ [])).map (·.1) :=
          List.mem_map.mpr ⟨e, List.mem_filter.mpr ⟨he, by simp [hek, hk]⟩, hek⟩
        rw [List.nodup_append] at hnd
        exact hnd.2.2 _ h1 _ (by simp) rfl
      rw [dictInsert_new d _ _ hnew]
      have hf : (d ++ [(it.key, it.value)]).filter (fun e => e.1 ≠ []) = d.filter (fun e => e.1 ≠ []) ++ [(it.key, it.value)] := by
        simp [List.filter_append, hk]
      rw [ih _ (by rw [hf]; simpa [List.append_assoc] using hnd), hf]
      simp [List.append_assoc]

/-- a file that satisfies `check` for `slots` with pairwise different URIs is loaded (as `cbor2.loads` does, empty keys
dropped as `merge_single_cache_file` does) to exactly `slots`, in order -/
theorem loads_of_check (eb : Nat) (slots : List (Bytes × Bytes)) (out : Bytes) (h : check eb slots out = true)
    (hnd : (slots.map (·.1)).Nodup) :
    (loadsCache out).map (fun d => d.filter (fun e => e.1 ≠ [])) = some slots := by
  unfold check at h
  split at h
  · rename_i rest
    simp only [Bool.and_eq_true] at h
    obtain ⟨items, hw, hp⟩ := walk_of_check eb _ _ _ _ _ h.2
    simp only [loadsCache, readCache, hw, Option.map_some]
    rw [foldl_dictInsert_filter items [] (by simpa [hp] using hnd), hp]; simp
  · simp at h



theorem addSlots_append (eb : Nat) (a b : List (Bytes × Bytes)) : ∀ s,
    addSlots eb s (a ++ b) = (addSlots eb s a).bind (fun s' => addSlots eb s' b) := by
  induction a with
  | nil => intro s; rfl
  | cons e rest ih =>
    intro s
    obtain ⟨u, p⟩ := e
    simp only [List.cons_append, addSlots]
    cases h : addSlot eb s u p with
    | error err => rfl
    | ok s1 => simp only [bind, Except.bind]; exact ih s1

/-- the (URI, payload) pairs `merge_single_cache_file` takes from one input file -/
def filePairs (f : Bytes) : List (Bytes × Bytes) := ((loadsCache f).getD []).filter (fun e => e.1 ≠ [])

theorem mergeFiles_addSlots (eb : Nat) (files : List Bytes) : ∀ s s', mergeFiles eb s files = .ok s' →
    (∀ f ∈ files, (loadsCache f).isSome = true) ∧ addSlots eb s (files.flatMap filePairs) = .ok s' := by
  induction files with
  | nil => intro s s' h; simpa [mergeFiles, addSlots] using h
  | cons f rest ih =>
    intro s s' h
    simp only [mergeFiles] at h
    cases h1 : mergeFile eb s f with
    | error e => simp [h1, bind, Except.bind] at h
    | ok s1 =>
      simp only [h1, bind, Except.bind] at h
      obtain ⟨hall, hadd⟩ := ih s1 s' h
      unfold mergeFile at h1
      cases hl : loadsCache f with
      | none => simp [hl] at h1
      | some d =>
        simp only [hl] at h1
        refine ⟨?_, ?_⟩
        · intro g hg
          simp only [List.mem_cons] at hg
          rcases hg with rfl | hg
          · simp [hl]
          · exact hall g hg
        · simp only [List.flatMap_cons]
          rw [addSlots_append]
          have : filePairs f = d.filter (fun e => e.1 ≠ []) := by simp [filePairs, hl]
          rw [this, h1]
          exact hadd

/-- `cache_create merge` writes what `from_payloads` would write for the concatenation of the input files' slots -/
theorem merge_eq_fromPayloads (eb : Nat) (files : List Bytes) (out : Bytes) (h : merge eb files = .ok out) :
    (∀ f ∈ files, (loadsCache f).isSome = true) ∧ fromPayloads eb (files.flatMap filePairs) = .ok out := by
  unfold merge at h
  cases h1 : mergeFiles eb {} files with
  | error e => simp [h1, bind, Except.bind] at h
  | ok s' =>
    simp only [h1, bind, Except.bind, pure, Except.pure, Except.ok.injEq] at h
    obtain ⟨hall, hadd⟩ := mergeFiles_addSlots eb files {} s' h1
    exact ⟨hall, by simp [fromPayloads, hadd, bind, Except.bind, pure, Except.pure, h]⟩

theorem filePairs_of_check (eb : Nat) (slots : List (Bytes × Bytes)) (f : Bytes) (h : check eb slots f = true)
    (hnd : (slots.map (·.1)).Nodup) : filePairs f = slots := by
  have := loads_of_check eb slots f h hnd
  unfold filePairs
  cases hl : loadsCache f with
  | none => simp [hl] at this
  | some d => simpa [hl] using this

end SuitVerif.Cache
