import SuitVerif.Decode
/-! C17 core: with every guard in place, `from_cbor` of every node kind, for every schema and every input,
never lets a Python-level internal error escape. -/
namespace SuitVerif.Decode
open SuitVerif SuitVerif.Py

def cleanB {α} : R α → Bool
  | .error (.internal _) => false
  | _ => true
abbrev Clean {α} (r : R α) : Prop := cleanB r = true

theorem clean_ok {α} (a : α) : Clean (Except.ok a : R α) := rfl
theorem clean_value {α} : Clean (Except.error .valueError : R α) := rfl

theorem clean_bind {α β} (x : R α) (f : α → R β) (hx : Clean x) (hf : ∀ a, Clean (f a)) :
    Clean (x >>= f) := by
  cases x with
  | ok a => exact hf a
  | error e => cases e <;> simp_all [Clean, cleanB, bind, Except.bind]

theorem deser_clean (b : Bytes) : Clean (deser b) := by
  unfold deser
  split
  · rfl
  · split
    · rfl
    · split
      · rfl
      · split <;> rfl

theorem guardErr_all (k : String) : guardErr true k = .valueError := rfl

theorem leafFrom_clean (ty : Ty) (b : Bytes) (r : R Node) (h : leafFrom allGuards ty b = some r) : Clean r := by
  unfold leafFrom at h
  cases ty <;> simp only [Option.some.injEq, reduceCtorEq] at h <;> subst h
  all_goals first
    | rfl
    | (apply clean_bind _ _ (deser_clean b); intro v; (repeat' split) <;> rfl)
    | ((repeat' split) <;> rfl)

theorem clean_map {α β} (x : R α) (f : α → β) (hx : Clean x) : Clean (f <$> x) := by
  cases x with
  | ok a => rfl
  | error e => cases e <;> simp_all [Clean, cleanB, Functor.map, Except.map]

set_option maxHeartbeats 400000 in
mutual
theorem fromBytes_clean (s : Schema) (fuel : Nat) (c : Cls) (b : Bytes) :
    Clean (fromBytes allGuards s fuel c b) := by
  cases fuel with
  | zero => simp [fromBytes, Clean, cleanB]
  | succ fuel =>
    unfold fromBytes
    cases hty : s.ty c with
    | none => rfl
    | some ty =>
      simp only
      cases hl : leafFrom allGuards ty b with
      | some r => exact leafFrom_clean ty b r hl
      | none =>
        simp only
        cases ty with
        | cbstr inner =>
          exact clean_bind _ _ (fromBytes_clean s fuel inner b) (fun _ => rfl)
        | union alts => exact fromAlts_clean s fuel alts 0 b
        | headerMapOptional m e => exact fromAlts_clean s fuel [m, e] 0 b
        | tag t name child =>
          apply clean_bind _ _ (deser_clean b); intro v
          split
          · split
            · exact clean_bind _ _ (fromBytes_clean s fuel child _) (fun _ => rfl)
            · rfl
          · rfl
        | list child group =>
          apply clean_bind _ _ (deser_clean b); intro v
          split
          · exact clean_bind _ _ (fromList_clean s fuel child _) (fun _ => rfl)
          · rfl
        | version child =>
          apply clean_bind _ _ (deser_clean b); intro v
          split
          · exact clean_bind _ _ (fromList_clean s fuel child _) (fun _ => rfl)
          · rfl
        | bitfield bit len =>
          apply clean_bind _ _ (deser_clean b); intro v
          split
          · rfl
          · apply clean_bind _ _ (fromList_clean s fuel bit _); intro ns
            (repeat' split) <;> rfl
        | tupleNamed es =>
          apply clean_bind _ _ (deser_clean b); intro v
          split
          · exact clean_bind _ _ (fromTuple_clean s fuel es _) (fun _ => rfl)
          · rfl
        | keyValueTuple es =>
          apply clean_bind _ _ (deser_clean b); intro v
          split
          · split
            · rfl
            · exact clean_bind _ _ (fromBytes_clean s fuel _ _) (fun _ => rfl)
          · rfl
          · rfl
        | keyValue es embedded =>
          apply clean_bind _ _ (deser_clean b); intro v
          split
          · exact clean_bind _ _ (fromKvs_clean s fuel es embedded _ _) (fun _ => rfl)
          · rfl
        | keyValueUnnamed es =>
          apply clean_bind _ _ (deser_clean b); intro v
          split
          · exact clean_bind _ _ (fromKvu_clean s fuel es _ _) (fun _ => rfl)
          · rfl
        | payloadMap kc vc =>
          apply clean_bind _ _ (deser_clean b); intro v
          split
          · exact clean_bind _ _ (fromKvu_clean s fuel _ _ _) (fun _ => rfl)
          · rfl
        | _ => rfl

theorem fromAlts_clean (s : Schema) (fuel : Nat) (cs : List Cls) (i : Nat) (b : Bytes) :
    Clean (fromAlts allGuards s fuel cs i b) := by
  cases fuel with
  | zero => simp [fromAlts, Clean, cleanB]
  | succ fuel =>
    cases cs with
    | nil => simp [fromAlts, Clean, cleanB]
    | cons c cs =>
      unfold fromAlts
      have h := fromBytes_clean s fuel c b
      cases hfv : fromBytes allGuards s fuel c b with
      | ok n => rfl
      | error e =>
        rw [hfv] at h
        cases e with
        | valueError => exact fromAlts_clean s fuel cs (i + 1) b
        | internal k => exact h
        | _ => rfl

theorem fromList_clean (s : Schema) (fuel : Nat) (c : Cls) (xs : List Cbor) :
    Clean (fromList allGuards s fuel c xs) := by
  cases fuel with
  | zero => simp [fromList, Clean, cleanB]
  | succ fuel =>
    cases xs with
    | nil => simp [fromList, Clean, cleanB]
    | cons x xs =>
      unfold fromList
      exact clean_bind _ _ (fromBytes_clean s fuel c _) (fun _ =>
        clean_bind _ _ (fromList_clean s fuel c xs) (fun _ => rfl))

theorem fromTuple_clean (s : Schema) (fuel : Nat) (es : List (String × Cls)) (xs : List Cbor) :
    Clean (fromTuple allGuards s fuel es xs) := by
  cases fuel with
  | zero => simp [fromTuple, Clean, cleanB]
  | succ fuel =>
    cases es with
    | nil => simp [fromTuple, Clean, cleanB]
    | cons e es =>
      obtain ⟨k, c⟩ := e
      unfold fromTuple
      split
      · exact clean_bind _ _ (fromStar_clean s fuel c xs) (fun _ =>
          clean_bind _ _ (fromTuple_clean s fuel es _) (fun _ => rfl))
      · split
        · rfl
        · exact clean_bind _ _ (fromBytes_clean s fuel c _) (fun _ =>
            clean_bind _ _ (fromTuple_clean s fuel es _) (fun _ => rfl))

theorem fromStar_clean (s : Schema) (fuel : Nat) (c : Cls) (xs : List Cbor) :
    Clean (fromStar allGuards s fuel c xs) := by
  cases fuel with
  | zero => simp [fromStar, Clean, cleanB]
  | succ fuel =>
    cases xs with
    | nil => simp [fromStar, Clean, cleanB]
    | cons x xs =>
      unfold fromStar
      have h := fromBytes_clean s fuel c (ensure x)
      cases hfv : fromBytes allGuards s fuel c (ensure x) with
      | ok n => exact clean_bind _ _ (fromStar_clean s fuel c xs) (fun _ => rfl)
      | error e =>
        rw [hfv] at h
        cases e with
        | internal k => exact h
        | _ => rfl

theorem fromKvs_clean (s : Schema) (fuel : Nat) (es : List Entry) (emb : Option String)
    (kvs : List (Cbor × Cbor)) (acc : List (KvKey × Node)) :
    Clean (fromKvs allGuards s fuel es emb kvs acc) := by
  cases fuel with
  | zero => simp [fromKvs, Clean, cleanB]
  | succ fuel =>
    cases kvs with
    | nil => simp [fromKvs, Clean, cleanB]
    | cons kv rest =>
      obtain ⟨k, x⟩ := kv
      unfold fromKvs
      split
      · exact clean_bind _ _ (fromBytes_clean s fuel _ _) (fun _ => fromKvs_clean s fuel es emb rest _)
      · cases emb with
        | none => rfl
        | some pn =>
          simp only
          split
          · exact fromKvs_clean s fuel es (some pn) rest acc
          · rename_i e _
            have h := fromBytes_clean s fuel e.cls (enc (.map [(k, x)]))
            split
            · exact fromKvs_clean s fuel es (some pn) rest _
            · exact fromKvs_clean s fuel es (some pn) rest acc
            · exact fromKvs_clean s fuel es (some pn) rest acc
            · rename_i err hne heq
              rw [heq] at h
              cases err with
              | internal kk => exact h
              | _ => rfl

theorem fromKvu_clean (s : Schema) (fuel : Nat) (es : List (Cls × Cls))
    (kvs : List (Cbor × Cbor)) (acc : List (String × Node × Node)) :
    Clean (fromKvu allGuards s fuel es kvs acc) := by
  cases fuel with
  | zero => simp [fromKvu, Clean, cleanB]
  | succ fuel =>
    cases kvs with
    | nil => simp [fromKvu, Clean, cleanB]
    | cons kv rest =>
      obtain ⟨k, x⟩ := kv
      unfold fromKvu
      exact clean_bind _ _ (fromKvuAlts_clean s fuel es k x) (fun _ => fromKvu_clean s fuel es rest _)

theorem fromKvuAlts_clean (s : Schema) (fuel : Nat) (es : List (Cls × Cls)) (k x : Cbor) :
    Clean (fromKvuAlts allGuards s fuel es k x) := by
  cases fuel with
  | zero => simp [fromKvuAlts, Clean, cleanB]
  | succ fuel =>
    cases es with
    | nil => simp [fromKvuAlts, Clean, cleanB]
    | cons e es =>
      obtain ⟨kc, vc⟩ := e
      unfold fromKvuAlts
      have h1 := fromBytes_clean s fuel kc (enc k)
      cases hk : fromBytes allGuards s fuel kc (enc k) with
      | ok kn =>
        simp only
        have h2 := fromBytes_clean s fuel vc (ensure x)
        cases hv : fromBytes allGuards s fuel vc (ensure x) with
        | ok vn => rfl
        | error e =>
          rw [hv] at h2
          cases e with
          | valueError => exact fromKvuAlts_clean s fuel es k x
          | internal kk => exact h2
          | _ => rfl
      | error e =>
        rw [hk] at h1
        cases e with
        | valueError => exact fromKvuAlts_clean s fuel es k x
        | internal kk => exact h1
        | _ => rfl
end

end SuitVerif.Decode
