import SuitVerif.Schema
/-! The verifier's own registry of the SUIT / COSE / CWT vocabulary: (key space, symbolic name, registered integer).
Written from the SUIT manifest, trust-domains and update-management drafts, RFC 9052/9053 and RFC 8392 (DESIGN.md
Appendix C).  Entries that could not be confirmed against an external document offline are pinned to the value at
the pinned commit (`v` in the appendix): a later change is detected, original non-conformance is not.

A key space is identified by the name of the Python class whose metadata defines it. -/
namespace SuitVerif.Registry

def spaces : List (String × List (String × Int)) := [
  ("SuitEnvelope", [("suit-delegation", 1), ("suit-authentication-wrapper", 2), ("suit-manifest", 3),
    ("suit-dependency-resolution", 15), ("suit-payload-fetch", 16), ("suit-install-legacy", 17),
    ("suit-candidate-verification", 18), ("suit-install", 20), ("suit-text", 23)]),
  ("SuitEnvelopeSimplified", [("suit-delegation", 1), ("suit-authentication-wrapper", 2), ("suit-manifest", 3),
    ("suit-dependency-resolution", 15), ("suit-payload-fetch", 16), ("suit-install-legacy", 17),
    ("suit-candidate-verification", 18), ("suit-install", 20), ("suit-text", 23)]),
  ("SuitManifest", [("suit-manifest-version", 1), ("suit-manifest-sequence-number", 2), ("suit-common", 3),
    ("suit-reference-uri", 4), ("suit-manifest-component-id", 5), ("suit-current-version", 6), ("suit-validate", 7),
    ("suit-load", 8), ("suit-invoke", 9), ("suit-dependency-resolution", 15), ("suit-payload-fetch", 16),
    ("suit-install-legacy", 17), ("suit-candidate-verification", 18), ("suit-install", 20), ("suit-text", 23),
    ("suit_uninstall", 24)]),
  ("SuitCommon", [("suit-dependencies", 1), ("suit-components", 2), ("suit-shared-sequence", 4)]),
  ("SuitDependencyMetadata", [("suit-dependency-prefix", 1)]),
  ("SuitCondition", [("suit-condition-vendor-identifier", 1), ("suit-condition-class-identifier", 2),
    ("suit-condition-image-match", 3), ("suit-condition-component-slot", 5), ("suit-condition-check-content", 6),
    ("suit-condition-dependency-integrity", 7), ("suit-condition-is-dependency", 8), ("suit-condition-abort", 14),
    ("suit-condition-device-identifier", 24), ("suit-condition-version", 28)]),
  ("SuitDirective", [("suit-directive-process-dependency", 11), ("suit-directive-set-component-index", 12),
    ("suit-directive-try-each", 15), ("suit-directive-write", 18), ("suit-directive-set-parameters", 19),
    ("suit-directive-override-parameters", 20), ("suit-directive-fetch", 21), ("suit-directive-copy", 22),
    ("suit-directive-invoke", 23), ("suit-directive-swap", 31), ("suit-directive-run-sequence", 32),
    ("suit-directive-unlink", 33)]),
  ("SuitParameters", [("suit-parameter-vendor-identifier", 1), ("suit-parameter-class-identifier", 2),
    ("suit-parameter-image-digest", 3), ("suit-parameter-component-slot", 5), ("suit-parameter-strict-order", 12),
    ("suit-parameter-soft-failure", 13), ("suit-parameter-image-size", 14), ("suit-parameter-content", 18),
    ("suit-parameter-encryption-info", 19), ("suit-parameter-uri", 21), ("suit-parameter-source-component", 22),
    ("suit-parameter-invoke-args", 23), ("suit-parameter-device-identifier", 24), ("suit-parameter-version", 28)]),
  ("SuitParameterVersion", [("suit-condition-version-comparison-greater", 1),
    ("suit-condition-version-comparison-greater-equal", 2), ("suit-condition-version-comparison-equal", 3),
    ("suit-condition-version-comparison-lesser-equal", 4), ("suit-condition-version-comparison-lesser", 5)]),
  ("SuitParameterInvokeArgs", [("suit-synchronous-invoke", 1), ("suit-timeout", 2)]),
  ("SuitRepPolicyBits", [("suit-send-record-success", 1), ("suit-send-record-failure", 2),
    ("suit-send-sysinfo-success", 4), ("suit-send-sysinfo-failure", 8)]),
  ("SuitTextKeys", [("suit-text-manifest-description", 1), ("suit-text-update-description", 2),
    ("suit-text-manifest-json-source", 3), ("suit-text-manifest-yaml-source", 4)]),
  ("SuitTextComponentKeys", [("suit-text-vendor-name", 1), ("suit-text-model-name", 2), ("suit-text-vendor-domain", 3),
    ("suit-text-model-info", 4), ("suit-text-component-description", 5), ("suit-text-component-version", 6)]),
  ("SuitHeaderMap", [("suit-cose-algorithm-id", 1), ("suit-cose-key-id", 4), ("suit-cose-iv", 5)]),
  ("SuitcoseAlg", [("cose-alg-es-256", -7), ("cose-alg-es-384", -35), ("cose-alg-es-521", -36), ("cose-alg-eddsa", -8),
    ("cose-alg-vs-hash-eddsa", -65537), ("cose-alg-aes-gcm-128", 1), ("cose-alg-aes-gcm-192", 2),
    ("cose-alg-aes-gcm-256", 3), ("cose-alg-a128kw", -3), ("cose-alg-a192kw", -4), ("cose-alg-a256kw", -5),
    ("cose-alg-direct", -6)]),
  ("SuitCoseHashAlg", [("cose-alg-sha-256", -16), ("cose-alg-shake128", -18), ("cose-alg-sha-384", -43),
    ("cose-alg-sha-512", -44), ("cose-alg-shake256", -45)]),
  ("SuitCwtPayload", [("Issuer", 1), ("Subject", 2), ("Audience", 3), ("Expiration Time", 4), ("Not Before", 5),
    ("Issued At", 6), ("CW ID", 7)])
]

/-- CBOR tags: envelope, COSE_Sign1, COSE_Encrypt (class name, tag) -/
def tags : List (String × Nat) := [("SuitEnvelopeTagged", 107), ("CoseSign1Tagged", 18), ("CoseEncryptTagged", 96)]

/-- digest output lengths (bytes) per algorithm name: SHA-256/384/512 and the SHAKE lengths the draft profile uses -/
def hashLengths : List (String × Nat) :=
  [("cose-alg-sha-256", 32), ("cose-alg-shake128", 16), ("cose-alg-sha-384", 48), ("cose-alg-sha-512", 64), ("cose-alg-shake256", 32)]

/-- where the CDDL prescribes `bstr .cbor` (true) and where the value is embedded directly (false):
(class defining the member, member name, wrapped?) -/
def wrapTable : List (String × String × Bool) := [
  ("SuitEnvelope", "suit-manifest", true), ("SuitEnvelope", "suit-authentication-wrapper", true),
  ("SuitEnvelope", "suit-dependency-resolution", true), ("SuitEnvelope", "suit-payload-fetch", true),
  ("SuitEnvelope", "suit-candidate-verification", true), ("SuitEnvelope", "suit-install", true),
  ("SuitEnvelope", "suit-install-legacy", true), ("SuitEnvelope", "suit-text", true),
  ("SuitManifest", "suit-manifest-version", false), ("SuitManifest", "suit-manifest-sequence-number", false),
  ("SuitManifest", "suit-common", true), ("SuitManifest", "suit-reference-uri", false),
  ("SuitManifest", "suit-manifest-component-id", false), ("SuitManifest", "suit-current-version", true),
  ("SuitManifest", "suit-validate", true), ("SuitManifest", "suit-load", true), ("SuitManifest", "suit-invoke", true),
  ("SuitManifest", "suit_uninstall", true),
  ("SuitCommon", "suit-dependencies", false), ("SuitCommon", "suit-components", false), ("SuitCommon", "suit-shared-sequence", true),
  ("SuitParameters", "suit-parameter-vendor-identifier", false), ("SuitParameters", "suit-parameter-class-identifier", false),
  ("SuitParameters", "suit-parameter-image-digest", true), ("SuitParameters", "suit-parameter-component-slot", false),
  ("SuitParameters", "suit-parameter-strict-order", false), ("SuitParameters", "suit-parameter-soft-failure", false),
  ("SuitParameters", "suit-parameter-image-size", false), ("SuitParameters", "suit-parameter-uri", false),
  ("SuitParameters", "suit-parameter-source-component", false), ("SuitParameters", "suit-parameter-invoke-args", true),
  ("SuitParameters", "suit-parameter-device-identifier", false), ("SuitParameters", "suit-parameter-version", true),
  ("SuitDirective", "suit-directive-run-sequence", true), ("SuitDirective", "suit-directive-set-parameters", false),
  ("SuitDirective", "suit-directive-override-parameters", false), ("SuitDirective", "suit-directive-fetch", false),
  ("SuitDirective", "suit-directive-try-each", false),
  ("SuitHeaderMap", "suit-cose-algorithm-id", false), ("SuitHeaderMap", "suit-cose-iv", false)
]

/-- tuple fields that are `bstr .cbor` (class, field, wrapped?) -/
def wrapTupleTable : List (String × String × Bool) := [
  ("SuitAuthentication", "SuitDigest", true),
  ("CoseSign1", "protected", true), ("CoseSign1", "unprotected", false), ("CoseSign1", "signature", false),
  ("CoseEncrypt", "protected", true), ("CoseEncrypt", "unprotected", false), ("CoseEncrypt", "recipients", false),
  ("CoseRecipient", "protected", true), ("CoseRecipient", "unprotected", false),
  ("CoseSigStructure", "body_protected", true), ("CoseSigStructure", "payload", true), ("CoseEncStructure", "protected", true),
  ("SuitDigestRaw", "suit-digest-algorithm-id", false), ("SuitDigestRaw", "suit-digest-bytes", false)
]

/-- command sequences are flat (code, argument) pairs: the list class groups its elements by two -/
def groupedLists : List (String × Nat) := [("SuitCommandSequence", 2)]

end SuitVerif.Registry

namespace SuitVerif

/-- the (name, code) pairs a class defines: enum children or key-value entries -/
def Ty.vocab : Ty → Option (List (String × Int))
  | .enum es => some es
  | .keyValue es _ => some (es.filter (fun e => !e.merge) |>.map (fun e => (e.name, e.id)))
  | .keyValueTuple es => some (es.map (fun e => (e.name, e.id)))
  | _ => none

/-- the key space defined by the first class of that name that has a vocabulary -/
def Schema.space (s : Schema) (clsName : String) : List (String × Int) :=
  (s.classes.findSome? (fun c => if c.1 == clsName then c.2.vocab else none)).getD []

def Schema.tagOf (s : Schema) (clsName : String) : Option Nat :=
  s.classes.findSome? (fun c => if c.1 == clsName then (match c.2 with | .tag n _ _ => some n | _ => none) else none)

/-- lookup by name (`from_obj`) and by code (`from_cbor`) in a key space -/
def encodeKey (es : List (String × Int)) (name : String) : Option Int := (es.find? (fun e => e.1 == name)).map (·.2)
def decodeKey (es : List (String × Int)) (code : Int) : Option String := (es.find? (fun e => e.2 == code)).map (·.1)

def Schema.isCbstr (s : Schema) (c : Cls) : Bool :=
  match s.ty c with | some (.cbstr _) => true | _ => false

/-- is member `entry` of the first key-value class named `clsName` a `cbstr` class? -/
def Schema.memberWrapped (s : Schema) (clsName entry : String) : Option Bool :=
  s.classes.findSome? (fun c =>
    if c.1 == clsName then
      match c.2 with
      | .keyValue es _ => (es.find? (fun e => e.name == entry)).map (fun e => s.isCbstr e.cls)
      | .keyValueTuple es => (es.find? (fun e => e.name == entry)).map (fun e => s.isCbstr e.cls)
      | _ => none
    else none)

def Schema.fieldWrapped (s : Schema) (clsName field : String) : Option Bool :=
  s.classes.findSome? (fun c =>
    if c.1 == clsName then
      match c.2 with
      | .tupleNamed es => (es.find? (fun e => e.1 == field)).map (fun e => s.isCbstr e.2)
      | _ => none
    else none)

def Schema.groupOf (s : Schema) (clsName : String) : Option Nat :=
  s.classes.findSome? (fun c =>
    if c.1 == clsName then (match c.2 with | .list _ g => g | _ => none) else none)

def nodupB {α} [BEq α] : List α → Bool
  | [] => true
  | x :: xs => !xs.contains x && nodupB xs

end SuitVerif
