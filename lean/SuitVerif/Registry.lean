import SuitVerif.Schema
/-! The verifier's own registry of the SUIT / COSE / CWT vocabulary: (key space, symbolic name, registered integer).
Written from the SUIT manifest, trust-domains and update-management drafts, RFC 9052/9053 and RFC 8392 (DESIGN.md
Appendix C).  Entries that could not be confirmed against an external document offline are pinned to the value at
the pinned commit (`v` in the appendix): a later change is detected, original non-conformance is not.

A key space is identified by the name of the Python class whose metadata defines it. -/
namespace SuitVerif.Registry

def spaces : List (String × List (String × Int)) := [
  ("SuitEnvelope", [("suit-delegation", 1), ("suit-authentication-wrapper", 2), ("suit-manifest", 3),
    ("suit-dependency-resolution", 15), ("suit-payload-fetch", 16), ("suit-install-legacy", 17),
    ("suit-candidate-verification", 18), ("suit-install", 20), ("suit-text", 23)]),
  ("SuitEnvelopeSimplified", [("suit-delegation", 1), ("suit-authentication-wrapper", 2), ("suit-manifest", 3),
    ("suit-dependency-resolution", 15), ("suit-payload-fetch", 16), ("suit-install-legacy", 17),
    ("suit-candidate-verification", 18), ("suit-install", 20), ("suit-text", 23)]),
  ("SuitManifest", [("suit-manifest-version", 1), ("suit-manifest-sequence-number", 2), ("suit-common", 3),
    ("suit-reference-uri", 4), ("suit-manifest-component-id", 5), ("suit-current-version", 6), ("suit-validate", 7),
    ("suit-load", 8), ("suit-invoke", 9), ("suit-dependency-resolution", 15), ("suit-payload-fetch", 16),
    ("suit-install-legacy", 17), ("suit-candidate-verification", 18), ("suit-install", 20), ("suit-text", 23),
    ("suit_uninstall", 24)]),
  ("SuitCommon", [("suit-dependencies", 1), ("suit-components", 2), ("suit-shared-sequence", 4)]),
  ("SuitDependencyMetadata", [("suit-dependency-prefix", 1)]),
  ("SuitCondition", [("suit-condition-vendor-identifier", 1), ("suit-condition-class-identifier", 2),
    ("suit-condition-image-match", 3), ("suit-condition-component-slot", 5), ("suit-condition-check-content", 6),
    ("suit-condition-dependency-integrity", 7), ("suit-condition-is-dependency", 8), ("suit-condition-abort", 14),
    ("suit-condition-device-identifier", 24), ("suit-condition-version", 28)]),
  ("SuitDirective", [("suit-directive-process-dependency", 11), ("suit-directive-set-component-index", 12),
    ("suit-directive-try-each", 15), ("suit-directive-write", 18), ("suit-directive-set-parameters", 19),
    ("suit-directive-override-parameters", 20), ("suit-directive-fetch", 21), ("suit-directive-copy", 22),
    ("suit-directive-invoke", 23), ("suit-directive-swap", 31), ("suit-directive-run-sequence", 32),
    ("suit-directive-unlink", 33)]),
  ("SuitParameters", [("suit-parameter-vendor-identifier", 1), ("suit-parameter-class-identifier", 2),
    ("suit-parameter-image-digest", 3), ("suit-parameter-component-slot", 5), ("suit-parameter-strict-order", 12),
    ("suit-parameter-soft-failure", 13), ("suit-parameter-image-size", 14), ("suit-parameter-content", 18),
    ("suit-parameter-encryption-info", 19), ("suit-parameter-uri", 21), ("suit-parameter-source-component", 22),
    ("suit-parameter-invoke-args", 23), ("suit-parameter-device-identifier", 24), ("suit-parameter-version", 28)]),
  ("SuitParameterVersion", [("suit-condition-version-comparison-greater", 1),
    ("suit-condition-version-comparison-greater-equal", 2), ("suit-condition-version-comparison-equal", 3),
    ("suit-condition-version-comparison-lesser-equal", 4), ("suit-condition-version-comparison-lesser", 5)]),
  ("SuitParameterInvokeArgs", [("suit-synchronous-invoke", 1), ("suit-timeout", 2)]),
  ("SuitRepPolicyBits", [("suit-send-record-success", 1), ("suit-send-record-failure", 2),
    ("suit-send-sysinfo-success", 4), ("suit-send-sysinfo-failure", 8)]),
  ("SuitTextKeys", [("suit-text-manifest-description", 1), ("suit-text-update-description", 2),
    ("suit-text-manifest-json-source", 3), ("suit-text-manifest-yaml-source", 4)]),
  ("SuitTextComponentKeys", [("suit-text-vendor-name", 1), ("suit-text-model-name", 2), ("suit-text-vendor-domain", 3),
    ("suit-text-model-info", 4), ("suit-text-component-description", 5), ("suit-text-component-version", 6)]),
  ("SuitHeaderMap", [("suit-cose-algorithm-id", 1), ("suit-cose-key-id", 4), ("suit-cose-iv", 5)]),
  ("SuitcoseAlg", [("cose-alg-es-256", -7), ("cose-alg-es-384", -35), ("cose-alg-es-521", -36), ("cose-alg-eddsa", -8),
    ("cose-alg-vs-hash-eddsa", -65537), ("cose-alg-aes-gcm-128", 1), ("cose-alg-aes-gcm-192", 2),
    ("cose-alg-aes-gcm-256", 3), ("cose-alg-a128kw", -3), ("cose-alg-a192kw", -4), ("cose-alg-a256kw", -5),
    ("cose-alg-direct", -6)]),
  ("SuitCoseHashAlg", [("cose-alg-sha-256", -16), ("cose-alg-shake128", -18), ("cose-alg-sha-384", -43),
    ("cose-alg-sha-512", -44), ("cose-alg-shake256", -45)]),
  ("SuitCwtPayload", [("Issuer", 1), ("Subject", 2), ("Audience", 3), ("Expiration Time", 4), ("Not Before", 5),
    ("Issued At", 6), ("CW ID", 7)])
]

/-- CBOR tags: envelope, COSE_Sign1, COSE_Encrypt (class name, tag) -/
def tags : List (String × Nat) := [("SuitEnvelopeTagged", 107), ("CoseSign1Tagged", 18), ("CoseEncryptTagged", 96)]

/-- digest output lengths (bytes) per algorithm name: SHA-256/384/512 and the SHAKE lengths the draft profile uses -/
def hashLengths : List (String × Nat) :=
  [("cose-alg-sha-256", 32), ("cose-alg-shake128", 16), ("cose-alg-sha-384", 48), ("cose-alg-sha-512", 64), ("cose-alg-shake256", 32)]

end SuitVerif.Registry

namespace SuitVerif

/-- the (name, code) pairs a class defines: enum children or key-value entries -/
def Ty.vocab : Ty → Option (List (String × Int))
  | .enum es => some es
  | .keyValue es _ => some (es.filter (fun e => !e.merge) |>.map (fun e => (e.name, e.id)))
  | .keyValueTuple es => some (es.map (fun e => (e.name, e.id)))
  | _ => none

/-- the key space defined by the first class of that name that has a vocabulary -/
def Schema.space (s : Schema) (clsName : String) : List (String × Int) :=
  (s.classes.findSome? (fun c => if c.1 == clsName then c.2.vocab else none)).getD []

def Schema.tagOf (s : Schema) (clsName : String) : Option Nat :=
  s.classes.findSome? (fun c => if c.1 == clsName then (match c.2 with | .tag n _ _ => some n | _ => none) else none)

/-- lookup by name (`from_obj`) and by code (`from_cbor`) in a key space -/
def encodeKey (es : List (String × Int)) (name : String) : Option Int := (es.find? (fun e => e.1 == name)).map (·.2)
def decodeKey (es : List (String × Int)) (code : Int) : Option String := (es.find? (fun e => e.2 == code)).map (·.1)

def nodupB {α} [BEq α] : List α → Bool
  | [] => true
  | x :: xs => !xs.contains x && nodupB xs

end SuitVerif
