import SuitVerif.Bytes
/-! SHAKE128 / SHAKE256 (Keccak-f[1600]).  Executable only, see `Sha2.lean`. -/
namespace SuitVerif.Hash

def rotl64 (x : UInt64) (n : Nat) : UInt64 :=
  if n % 64 = 0 then x else (x <<< (UInt64.ofNat (n % 64))) ||| (x >>> (UInt64.ofNat (64 - n % 64)))

def keccakRC : Array UInt64 := #[
  0x0000000000000001, 0x0000000000008082, 0x800000000000808A, 0x8000000080008000, 0x000000000000808B,
  0x0000000080000001, 0x8000000080008081, 0x8000000000008009, 0x000000000000008A, 0x0000000000000088,
  0x0000000080008009, 0x000000008000000A, 0x000000008000808B, 0x800000000000008B, 0x8000000000008089,
  0x8000000000008003, 0x8000000000008002, 0x8000000000000080, 0x000000000000800A, 0x800000008000000A,
  0x8000000080008081, 0x8000000000008080, 0x0000000080000001, 0x8000000080008008]

def keccakRot : Array Nat := #[0, 1, 62, 28, 27, 36, 44, 6, 55, 20, 3, 10, 43, 25, 39, 41, 45, 15, 21, 8, 18, 2, 61, 56, 14]

/-- state index = x + 5*y -/
def keccakF (s0 : Array UInt64) : Array UInt64 := Id.run do
  let mut s := s0
  for round in [0:24] do
    -- theta
    let mut c : Array UInt64 := Array.replicate 5 0
    for x in [0:5] do
      c := c.set! x (s[x]! ^^^ s[x+5]! ^^^ s[x+10]! ^^^ s[x+15]! ^^^ s[x+20]!)
    for x in [0:5] do
      let d := c[(x+4) % 5]! ^^^ rotl64 c[(x+1) % 5]! 1
      for y in [0:5] do
        s := s.set! (x + 5*y) (s[x + 5*y]! ^^^ d)
    -- rho and pi
    let mut b : Array UInt64 := Array.replicate 25 0
    for x in [0:5] do
      for y in [0:5] do
        b := b.set! (y + 5 * ((2*x + 3*y) % 5)) (rotl64 s[x + 5*y]! keccakRot[x + 5*y]!)
    -- chi
    for x in [0:5] do
      for y in [0:5] do
        s := s.set! (x + 5*y) (b[x + 5*y]! ^^^ ((~~~ b[(x+1) % 5 + 5*y]!) &&& b[(x+2) % 5 + 5*y]!))
    -- iota
    s := s.set! 0 (s[0]! ^^^ keccakRC[round]!)
  return s

def shake (rate : Nat) (outLen : Nat) (msg : Bytes) : Bytes := Id.run do
  -- pad10*1 with the SHAKE domain suffix 1111
  let mut m := ByteArray.mk msg.toArray
  let padLen := rate - (m.size % rate)
  if padLen = 1 then
    m := m.push 0x9F
  else
    m := m.push 0x1F
    for _ in [0:padLen - 2] do m := m.push 0
    m := m.push 0x80
  let mut s : Array UInt64 := Array.replicate 25 0
  for blk in [0:m.size / rate] do
    for i in [0:rate / 8] do
      let mut lane : UInt64 := 0
      for j in [0:8] do
        lane := lane ||| ((m.get! (blk * rate + i * 8 + j)).toUInt64 <<< (UInt64.ofNat (8 * j)))
      s := s.set! i (s[i]! ^^^ lane)
    s := keccakF s
  -- squeeze (outLen ≤ rate for the lengths used here, but handle the general case)
  let mut out : ByteArray := ByteArray.empty
  while out.size < outLen do
    for i in [0:rate / 8] do
      for j in [0:8] do
        if out.size < outLen then
          out := out.push (s[i]! >>> (UInt64.ofNat (8 * j))).toUInt8
    if out.size < outLen then s := keccakF s
  return out.toList

def shake128 (outLen : Nat) : Bytes → Bytes := shake 168 outLen
def shake256 (outLen : Nat) : Bytes → Bytes := shake 136 outLen

end SuitVerif.Hash
