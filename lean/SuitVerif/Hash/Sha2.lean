import SuitVerif.Bytes
/-! SHA-1, SHA-256, SHA-384, SHA-512 over byte lists.  Executable only: every theorem that mentions a
digest is stated for an arbitrary hash function, so nothing here is a proof obligation; the functions
exist so that the driver can reproduce the tool's bytes, and they are compared with hashlib on every run. -/
namespace SuitVerif.Hash

def rotr32 (x : UInt32) (n : UInt32) : UInt32 := (x >>> n) ||| (x <<< (32 - n))
def rotl32 (x : UInt32) (n : UInt32) : UInt32 := (x <<< n) ||| (x >>> (32 - n))
def rotr64 (x : UInt64) (n : UInt64) : UInt64 := (x >>> n) ||| (x <<< (64 - n))

def be32 (a : ByteArray) (i : Nat) : UInt32 :=
  (a.get! i).toUInt32 <<< 24 ||| (a.get! (i+1)).toUInt32 <<< 16 ||| (a.get! (i+2)).toUInt32 <<< 8 ||| (a.get! (i+3)).toUInt32

def be64 (a : ByteArray) (i : Nat) : UInt64 :=
  (be32 a i).toUInt64 <<< 32 ||| (be32 a (i+4)).toUInt64

def put32 (out : ByteArray) (x : UInt32) : ByteArray :=
  out.push (x >>> 24).toUInt8 |>.push (x >>> 16).toUInt8 |>.push (x >>> 8).toUInt8 |>.push x.toUInt8

def put64 (out : ByteArray) (x : UInt64) : ByteArray :=
  put32 (put32 out (x >>> 32).toUInt32) x.toUInt32

/-- Merkle–Damgård padding with a big-endian bit length of `lenBytes` bytes, block size `block`. -/
def mdPad (msg : ByteArray) (block lenBytes : Nat) : ByteArray := Id.run do
  let bitLen := msg.size * 8
  let mut a := msg.push 0x80
  while a.size % block != block - lenBytes do
    a := a.push 0
  for b in beBytes lenBytes bitLen do
    a := a.push b
  return a

def k256 : Array UInt32 := #[
  0x428a2f98, 0x71374491, 0xb5c0fbcf, 0xe9b5dba5, 0x3956c25b, 0x59f111f1, 0x923f82a4, 0xab1c5ed5,
  0xd807aa98, 0x12835b01, 0x243185be, 0x550c7dc3, 0x72be5d74, 0x80deb1fe, 0x9bdc06a7, 0xc19bf174,
  0xe49b69c1, 0xefbe4786, 0x0fc19dc6, 0x240ca1cc, 0x2de92c6f, 0x4a7484aa, 0x5cb0a9dc, 0x76f988da,
  0x983e5152, 0xa831c66d, 0xb00327c8, 0xbf597fc7, 0xc6e00bf3, 0xd5a79147, 0x06ca6351, 0x14292967,
  0x27b70a85, 0x2e1b2138, 0x4d2c6dfc, 0x53380d13, 0x650a7354, 0x766a0abb, 0x81c2c92e, 0x92722c85,
  0xa2bfe8a1, 0xa81a664b, 0xc24b8b70, 0xc76c51a3, 0xd192e819, 0xd6990624, 0xf40e3585, 0x106aa070,
  0x19a4c116, 0x1e376c08, 0x2748774c, 0x34b0bcb5, 0x391c0cb3, 0x4ed8aa4a, 0x5b9cca4f, 0x682e6ff3,
  0x748f82ee, 0x78a5636f, 0x84c87814, 0x8cc70208, 0x90befffa, 0xa4506ceb, 0xbef9a3f7, 0xc67178f2]

def sha256 (msg : Bytes) : Bytes := Id.run do
  let data := mdPad (ByteArray.mk msg.toArray) 64 8
  let mut h : Array UInt32 := #[0x6a09e667, 0xbb67ae85, 0x3c6ef372, 0xa54ff53a, 0x510e527f, 0x9b05688c, 0x1f83d9ab, 0x5be0cd19]
  for blk in [0:data.size / 64] do
    let mut w : Array UInt32 := Array.replicate 64 0
    for t in [0:16] do
      w := w.set! t (be32 data (blk * 64 + t * 4))
    for t in [16:64] do
      let s0 := rotr32 w[t-15]! 7 ^^^ rotr32 w[t-15]! 18 ^^^ (w[t-15]! >>> 3)
      let s1 := rotr32 w[t-2]! 17 ^^^ rotr32 w[t-2]! 19 ^^^ (w[t-2]! >>> 10)
      w := w.set! t (w[t-16]! + s0 + w[t-7]! + s1)
    let mut a := h[0]!; let mut b := h[1]!; let mut c := h[2]!; let mut d := h[3]!
    let mut e := h[4]!; let mut f := h[5]!; let mut g := h[6]!; let mut hh := h[7]!
    for t in [0:64] do
      let s1 := rotr32 e 6 ^^^ rotr32 e 11 ^^^ rotr32 e 25
      let ch := (e &&& f) ^^^ ((~~~ e) &&& g)
      let t1 := hh + s1 + ch + k256[t]! + w[t]!
      let s0 := rotr32 a 2 ^^^ rotr32 a 13 ^^^ rotr32 a 22
      let mj := (a &&& b) ^^^ (a &&& c) ^^^ (b &&& c)
      let t2 := s0 + mj
      hh := g; g := f; f := e; e := d + t1; d := c; c := b; b := a; a := t1 + t2
    h := #[h[0]! + a, h[1]! + b, h[2]! + c, h[3]! + d, h[4]! + e, h[5]! + f, h[6]! + g, h[7]! + hh]
  let mut out := ByteArray.empty
  for x in h do out := put32 out x
  return out.toList

def sha1 (msg : Bytes) : Bytes := Id.run do
  let data := mdPad (ByteArray.mk msg.toArray) 64 8
  let mut h : Array UInt32 := #[0x67452301, 0xEFCDAB89, 0x98BADCFE, 0x10325476, 0xC3D2E1F0]
  for blk in [0:data.size / 64] do
    let mut w : Array UInt32 := Array.replicate 80 0
    for t in [0:16] do
      w := w.set! t (be32 data (blk * 64 + t * 4))
    for t in [16:80] do
      w := w.set! t (rotl32 (w[t-3]! ^^^ w[t-8]! ^^^ w[t-14]! ^^^ w[t-16]!) 1)
    let mut a := h[0]!; let mut b := h[1]!; let mut c := h[2]!; let mut d := h[3]!; let mut e := h[4]!
    for t in [0:80] do
      let (f, k) : UInt32 × UInt32 :=
        if t < 20 then ((b &&& c) ||| ((~~~ b) &&& d), 0x5A827999)
        else if t < 40 then (b ^^^ c ^^^ d, 0x6ED9EBA1)
        else if t < 60 then ((b &&& c) ||| (b &&& d) ||| (c &&& d), 0x8F1BBCDC)
        else (b ^^^ c ^^^ d, 0xCA62C1D6)
      let tmp := rotl32 a 5 + f + e + k + w[t]!
      e := d; d := c; c := rotl32 b 30; b := a; a := tmp
    h := #[h[0]! + a, h[1]! + b, h[2]! + c, h[3]! + d, h[4]! + e]
  let mut out := ByteArray.empty
  for x in h do out := put32 out x
  return out.toList

def k512 : Array UInt64 := #[
  0x428a2f98d728ae22, 0x7137449123ef65cd, 0xb5c0fbcfec4d3b2f, 0xe9b5dba58189dbbc, 0x3956c25bf348b538,
  0x59f111f1b605d019, 0x923f82a4af194f9b, 0xab1c5ed5da6d8118, 0xd807aa98a3030242, 0x12835b0145706fbe,
  0x243185be4ee4b28c, 0x550c7dc3d5ffb4e2, 0x72be5d74f27b896f, 0x80deb1fe3b1696b1, 0x9bdc06a725c71235,
  0xc19bf174cf692694, 0xe49b69c19ef14ad2, 0xefbe4786384f25e3, 0x0fc19dc68b8cd5b5, 0x240ca1cc77ac9c65,
  0x2de92c6f592b0275, 0x4a7484aa6ea6e483, 0x5cb0a9dcbd41fbd4, 0x76f988da831153b5, 0x983e5152ee66dfab,
  0xa831c66d2db43210, 0xb00327c898fb213f, 0xbf597fc7beef0ee4, 0xc6e00bf33da88fc2, 0xd5a79147930aa725,
  0x06ca6351e003826f, 0x142929670a0e6e70, 0x27b70a8546d22ffc, 0x2e1b21385c26c926, 0x4d2c6dfc5ac42aed,
  0x53380d139d95b3df, 0x650a73548baf63de, 0x766a0abb3c77b2a8, 0x81c2c92e47edaee6, 0x92722c851482353b,
  0xa2bfe8a14cf10364, 0xa81a664bbc423001, 0xc24b8b70d0f89791, 0xc76c51a30654be30, 0xd192e819d6ef5218,
  0xd69906245565a910, 0xf40e35855771202a, 0x106aa07032bbd1b8, 0x19a4c116b8d2d0c8, 0x1e376c085141ab53,
  0x2748774cdf8eeb99, 0x34b0bcb5e19b48a8, 0x391c0cb3c5c95a63, 0x4ed8aa4ae3418acb, 0x5b9cca4f7763e373,
  0x682e6ff3d6b2b8a3, 0x748f82ee5defb2fc, 0x78a5636f43172f60, 0x84c87814a1f0ab72, 0x8cc702081a6439ec,
  0x90befffa23631e28, 0xa4506cebde82bde9, 0xbef9a3f7b2c67915, 0xc67178f2e372532b, 0xca273eceea26619c,
  0xd186b8c721c0c207, 0xeada7dd6cde0eb1e, 0xf57d4f7fee6ed178, 0x06f067aa72176fba, 0x0a637dc5a2c898a6,
  0x113f9804bef90dae, 0x1b710b35131c471b, 0x28db77f523047d84, 0x32caab7b40c72493, 0x3c9ebe0a15c9bebc,
  0x431d67c49c100d4c, 0x4cc5d4becb3e42b6, 0x597f299cfc657e2a, 0x5fcb6fab3ad6faec, 0x6c44198c4a475817]

def sha512core (iv : Array UInt64) (outWords : Nat) (msg : Bytes) : Bytes := Id.run do
  let data := mdPad (ByteArray.mk msg.toArray) 128 16
  let mut h := iv
  for blk in [0:data.size / 128] do
    let mut w : Array UInt64 := Array.replicate 80 0
    for t in [0:16] do
      w := w.set! t (be64 data (blk * 128 + t * 8))
    for t in [16:80] do
      let s0 := rotr64 w[t-15]! 1 ^^^ rotr64 w[t-15]! 8 ^^^ (w[t-15]! >>> 7)
      let s1 := rotr64 w[t-2]! 19 ^^^ rotr64 w[t-2]! 61 ^^^ (w[t-2]! >>> 6)
      w := w.set! t (w[t-16]! + s0 + w[t-7]! + s1)
    let mut a := h[0]!; let mut b := h[1]!; let mut c := h[2]!; let mut d := h[3]!
    let mut e := h[4]!; let mut f := h[5]!; let mut g := h[6]!; let mut hh := h[7]!
    for t in [0:80] do
      let s1 := rotr64 e 14 ^^^ rotr64 e 18 ^^^ rotr64 e 41
      let ch := (e &&& f) ^^^ ((~~~ e) &&& g)
      let t1 := hh + s1 + ch + k512[t]! + w[t]!
      let s0 := rotr64 a 28 ^^^ rotr64 a 34 ^^^ rotr64 a 39
      let mj := (a &&& b) ^^^ (a &&& c) ^^^ (b &&& c)
      let t2 := s0 + mj
      hh := g; g := f; f := e; e := d + t1; d := c; c := b; b := a; a := t1 + t2
    h := #[h[0]! + a, h[1]! + b, h[2]! + c, h[3]! + d, h[4]! + e, h[5]! + f, h[6]! + g, h[7]! + hh]
  let mut out := ByteArray.empty
  for i in [0:outWords] do out := put64 out h[i]!
  return out.toList

def sha512 : Bytes → Bytes := sha512core #[0x6a09e667f3bcc908, 0xbb67ae8584caa73b, 0x3c6ef372fe94f82b,
  0xa54ff53a5f1d36f1, 0x510e527fade682d1, 0x9b05688c2b3e6c1f, 0x1f83d9abfb41bd6b, 0x5be0cd19137e2179] 8

def sha384 : Bytes → Bytes := sha512core #[0xcbbb9d5dc1059ed8, 0x629a292a367cd507, 0x9159015a3070dd17,
  0x152fecd8f70e5939, 0x67332667ffc00b31, 0x8eb44a8768581511, 0xdb0c2e0d64f98fa7, 0x47b5481dbefa4fa4] 6

end SuitVerif.Hash
