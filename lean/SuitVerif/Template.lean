import SuitVerif.Schema
/-! L3: model of the two NCS Jinja templates (`ncs/root_with_nordic_top_envelope.yaml.jinja2`,
`ncs/nordic_top_envelope.yaml.jinja2`) as functions from the build configuration to the description (`Obj`) that the
rendered YAML loads to.  Component-index bookkeeping is list arithmetic. -/
namespace SuitVerif.Template
open SuitVerif

structure RootCfg where
  radio : Option String            -- image names (the `name` entry of the image dictionaries)
  application : Option String
  top : Option String
  rootVendor : String
  rootClass : String
  appVendor : String
  appClass : String
  radVendor : String
  radClass : String
  seqNum : Obj                     -- what the YAML loader makes of the sequence-number variable (1 when undefined)
  version : Option Obj             -- suit-current-version when a version variable is defined
  artifacts : String

def allBits : Obj := .list [.str "suit-send-record-success", .str "suit-send-record-failure",
  .str "suit-send-sysinfo-success", .str "suit-send-sysinfo-failure"]

def uuidNsName (ns name : String) : Obj :=
  .dict [("RFC4122_UUID", .dict [("namespace", .str ns), ("name", .str name)])]

def installed (ns name : String) : Obj := .list [.str "INSTLD_MFST", uuidNsName ns name]

/-- present images in template order: radio, application, top -/
def RootCfg.images (c : RootCfg) : List String := c.radio.toList ++ c.application.toList ++ c.top.toList

/-- the declared components -/
def RootCfg.components (c : RootCfg) : List Obj :=
  [.list [.str "CAND_MFST", .int 0]]
  ++ (c.radio.toList.map (fun _ => installed c.radVendor c.radClass))
  ++ (c.application.toList.map (fun _ => installed c.appVendor c.appClass))
  ++ (c.top.toList.map (fun _ => installed "nordicsemi.com" "nRF54H20_nordic_top"))

/-- `component_list`: indices 1..k of the installed-manifest components -/
def RootCfg.componentList (c : RootCfg) : List Nat := (List.range c.images.length).map (· + 1)

/-- `component_list_without_top` -/
def RootCfg.withoutTop (c : RootCfg) : List Nat :=
  (List.range (c.radio.toList ++ c.application.toList).length).map (· + 1)

def idxList (l : List Nat) : Obj := .list (l.map (fun (i : Nat) => Obj.int i))

def processSeq (idx : Obj) : Obj :=
  .list [.dict [("suit-directive-set-component-index", idx)],
         .dict [("suit-condition-dependency-integrity", allBits)],
         .dict [("suit-directive-process-dependency", allBits)]]

def installBlock (name : String) : List Obj :=
  [.dict [("suit-directive-override-parameters", .dict [("suit-parameter-uri", .str ("#" ++ name))])],
   .dict [("suit-directive-fetch", .list [.str "suit-send-record-failure"])],
   .dict [("suit-condition-dependency-integrity", allBits)],
   .dict [("suit-directive-process-dependency", allBits)]]

def verifyBlock (artifacts name : String) : List Obj :=
  [.dict [("suit-directive-override-parameters", .dict [
      ("suit-parameter-uri", .str ("#" ++ name)),
      ("suit-parameter-image-digest", .dict [("suit-digest-algorithm-id", .str "cose-alg-sha-256"),
        ("suit-digest-bytes", .dict [("envelope", .str (artifacts ++ name ++ ".suit"))])])])],
   .dict [("suit-directive-fetch", .list [.str "suit-send-record-failure"])],
   .dict [("suit-condition-image-match", allBits)],
   .dict [("suit-condition-dependency-integrity", allBits)],
   .dict [("suit-directive-process-dependency", allBits)]]

/-- the description the rendered root template loads to (at least one image present) -/
def root (c : RootCfg) : Obj :=
  .dict [("SUIT_Envelope_Tagged", .dict [
    ("suit-authentication-wrapper", .dict [("SuitDigest", .dict [("suit-digest-algorithm-id", .str "cose-alg-sha-256")])]),
    ("suit-manifest", .dict ([
      ("suit-manifest-version", Obj.int 1),
      ("suit-manifest-sequence-number", c.seqNum),
      ("suit-common", .dict [
        ("suit-components", .list c.components),
        ("suit-shared-sequence", .list [
          .dict [("suit-directive-set-component-index", idxList c.componentList)],
          .dict [("suit-directive-override-parameters", .dict [
            ("suit-parameter-vendor-identifier", .dict [("RFC4122_UUID", .str c.rootVendor)]),
            ("suit-parameter-class-identifier", uuidNsName c.rootVendor c.rootClass)])],
          .dict [("suit-condition-vendor-identifier", allBits)],
          .dict [("suit-condition-class-identifier", allBits)]]),
        ("suit-dependencies", .dict (("0", Obj.dict []) :: c.componentList.map (fun i => (toString i, Obj.dict []))))]),
      ("suit-validate", processSeq (idxList c.withoutTop)),
      ("suit-invoke", processSeq (idxList c.withoutTop))]
      ++ (c.version.toList.map (fun v => ("suit-current-version", v)))
      ++ [
      ("suit-install", .list (.dict [("suit-directive-set-component-index", Obj.int 0)] :: c.images.flatMap installBlock)),
      ("suit-candidate-verification",
        .list (.dict [("suit-directive-set-component-index", Obj.int 0)] :: c.images.flatMap (verifyBlock c.artifacts))),
      ("suit-manifest-component-id", installed c.rootVendor c.rootClass)])),
    ("suit-integrated-dependencies", .dict (c.images.map (fun n => ("#" ++ n, Obj.str (c.artifacts ++ n ++ ".suit")))))])]

structure TopCfg where
  secdom : String
  sysctrl : String
  seqNum : Obj
  version : Option Obj
  artifacts : String

/-- the description the rendered Nordic top template loads to -/
def top (c : TopCfg) : Obj :=
  .dict [("SUIT_Envelope_Tagged", .dict [
    ("suit-authentication-wrapper", .dict [("SuitDigest", .dict [("suit-digest-algorithm-id", .str "cose-alg-sha-256")])]),
    ("suit-manifest", .dict ([
      ("suit-manifest-version", Obj.int 1),
      ("suit-manifest-sequence-number", c.seqNum),
      ("suit-common", .dict [
        ("suit-components", .list [.list [.str "CAND_MFST", .int 0], installed "nordicsemi.com" "nRF54H20_sec",
                                   installed "nordicsemi.com" "nRF54H20_sys"]),
        ("suit-shared-sequence", .list [
          .dict [("suit-directive-set-component-index", idxList [1, 2])],
          .dict [("suit-directive-override-parameters", .dict [
            ("suit-parameter-class-identifier", uuidNsName "nordicsemi.com" "nRF54H20_nordic_top"),
            ("suit-parameter-vendor-identifier", .dict [("RFC4122_UUID", .str "nordicsemi.com")])])],
          .dict [("suit-condition-vendor-identifier", allBits)],
          .dict [("suit-condition-class-identifier", allBits)]]),
        ("suit-dependencies", .dict [("0", .dict []), ("1", .dict []), ("2", .dict [])])]),
      ("suit-validate", .list [
        .dict [("suit-directive-set-component-index", Obj.int 2)],
        .dict [("suit-directive-override-parameters", .dict [
          ("suit-parameter-image-digest", .dict [("suit-digest-algorithm-id", .str "cose-alg-sha-256"),
            ("suit-digest-bytes", .dict [("envelope", .str (c.artifacts ++ c.sysctrl ++ ".suit"))])])])],
        .dict [("suit-condition-image-match", allBits)],
        .dict [("suit-condition-dependency-integrity", allBits)],
        .dict [("suit-directive-process-dependency", allBits)]]),
      ("suit-load", processSeq (Obj.int 2)),
      ("suit-invoke", processSeq (Obj.int 2))]
      ++ (c.version.toList.map (fun v => ("suit-current-version", v)))
      ++ [
      ("suit-install", .list (.dict [("suit-directive-set-component-index", Obj.int 0)] :: [c.secdom, c.sysctrl].flatMap installBlock)),
      ("suit-candidate-verification",
        .list (.dict [("suit-directive-set-component-index", Obj.int 0)] :: [c.secdom, c.sysctrl].flatMap (verifyBlock c.artifacts))),
      ("suit-manifest-component-id", installed "nordicsemi.com" "nRF54H20_nordic_top")])),
    ("suit-integrated-dependencies", .dict ([c.secdom, c.sysctrl].map (fun n => ("#" ++ n, Obj.str (c.artifacts ++ n ++ ".suit")))))])]

end SuitVerif.Template
