import SuitVerif.Typing
import SuitVerif.EncodeProofs
import SuitVerif.Generated.Schema
/-! From the typing of `from_obj`'s result to the concrete node shapes on the envelope's digest paths, for every schema
that satisfies `EnvFacts` (a decidable description of those paths, checked by the kernel on the extracted schema). -/
namespace SuitVerif.Typing
open SuitVerif SuitVerif.Encode SuitVerif.Decode SuitVerif.Py

/-! ### node shapes -/

inductive IsAlg (algs : List (String × Int)) : Node → Prop
  | enumv {e} : e ∈ algs → IsAlg algs (.enumv e.1 e.2)
  | null : IsAlg algs (.leaf Cbor.null .plain)

/-- a SUIT_Digest node: the pair `[alg, bytes]` under union layers only (no byte-string layer) -/
inductive IsDigest (algs : List (String × Int)) : Node → Prop
  | tuple {ks a b} : IsAlg algs a → IsDigest algs (.tuple ks [a, .leaf (.bstr b) .hex])
  | alt {i c n} : IsDigest algs n → IsDigest algs (.alt i c n)

/-! ### schema facts (Bool, so that the kernel can check them on the extracted schema) -/

def isDigestCls (s : Schema) (algs : List (String × Int)) : Nat → Cls → Bool
  | 0, _ => false
  | fuel + 1, c =>
    match s.ty c with
    | some (.union alts) => alts.all (fun a => isDigestCls s algs fuel a)
    | some (.digestExt raw) => isDigestCls s algs fuel raw
    | some (.tupleNamed [(a, ca), (b, cb)]) =>
        !a.endsWith "*" && !b.endsWith "*" && decide (s.ty ca = some (.enum algs))
          && (decide (s.ty cb = some .hex) || decide (s.ty cb = some .bstr))
    | _ => false

theorem tuple2_inv {s : Schema} {a b : String} {ca cb : Cls} {ns : List Node} (h : TupleTy s [(a, ca), (b, cb)] ns)
    (ha : a.endsWith "*" = false) (hb : b.endsWith "*" = false) :
    ∃ x y, ns = [x, y] ∧ HasTy s ca x ∧ HasTy s cb y := by
  cases h with
  | field hx hrest =>
    cases hrest with
    | field hy hnil => cases hnil; exact ⟨_, _, rfl, hx, hy⟩
    | star hs _ => simp [hb] at hs
  | star hs _ => simp [ha] at hs

theorem digest_shape (s : Schema) (algs : List (String × Int)) : ∀ (fuel : Nat) (c : Cls) (n : Node),
    isDigestCls s algs fuel c = true → HasTy s c n → IsDigest algs n := by
  intro fuel
  induction fuel with
  | zero => intro c n h; simp [isDigestCls] at h
  | succ fuel ih =>
    intro c n h ht
    unfold isDigestCls at h
    split at h
    · rename_i alts hty
      obtain ⟨i, ci, m, hi, rfl, hm⟩ := inv_union ht hty
      have hci : ci ∈ alts := List.mem_of_getElem? hi
      exact .alt (ih ci m (List.all_eq_true.mp h ci hci) hm)
    · rename_i raw hty
      exact ih raw n h (inv_digestExt ht hty)
    · rename_i a ca b cb hty
      simp only [Bool.and_eq_true, Bool.not_eq_true', decide_eq_true_eq, Bool.or_eq_true] at h
      obtain ⟨⟨⟨ha, hb⟩, hca⟩, hcb⟩ := h
      obtain ⟨ns, rfl, htup⟩ := inv_tuple ht hty
      obtain ⟨x, y, rfl, hx, hy⟩ := tuple2_inv htup ha hb
      obtain ⟨bb, rfl⟩ := inv_hex hy hcb
      rcases inv_enum hx hca with ⟨e, he, rfl⟩ | rfl
      · exact .tuple (.enumv he)
      · exact .tuple .null
    · simp at h


/-! ### dictionary lookups in what `to_cbor` of a key-value node builds -/

theorem ofInt_beq' (a b : Int) : ((Cbor.ofInt a) == (Cbor.ofInt b)) = (a == b) := by
  unfold Cbor.ofInt
  by_cases ha : a < 0 <;> by_cases hb : b < 0 <;> simp [ha, hb, BEq.beq, Cbor.beq] <;> omega

theorem beq_ofInt_eq (x : Cbor) (k : Int) (h : (x == Cbor.ofInt k) = true) : x = Cbor.ofInt k := by
  unfold Cbor.ofInt at *
  by_cases hk : k < 0
  · simp only [hk, if_true] at h ⊢
    cases x <;> simp_all [BEq.beq, Cbor.beq]
  · simp only [hk, if_false] at h ⊢
    cases x <;> simp_all [BEq.beq, Cbor.beq]

theorem beq_tstr_eq (x : Cbor) (t : Bytes) (h : (x == Cbor.tstr t) = true) : x = Cbor.tstr t := by
  cases x <;> simp_all [BEq.beq, Cbor.beq]
  rename_i b
  have : (b == t) = true := h
  simpa using this

theorem tstr_ne_ofInt (t : Bytes) (k : Int) : ((Cbor.tstr t) == Cbor.ofInt k) = false := by
  unfold Cbor.ofInt; split <;> rfl

theorem lookup_dictSet_other (d : List (Cbor × Cbor)) (kk K v : Cbor) (hkk : ∀ x, (x == kk) = true → x = kk)
    (hne : (kk == K) = false) : Cbor.lookup K (dictSet d kk v) = Cbor.lookup K d := by
  unfold dictSet
  split
  · rename_i hany; clear hany
    induction d with
    | nil => rfl
    | cons e rest ih =>
      simp only [List.map_cons, Cbor.lookup]
      by_cases he : (e.1 == kk) = true
      · have hek : e.1 = kk := hkk _ he
        have h1 : ((e.1, v).1 == K) = false := by simp [hek, hne]
        have h2 : (e.1 == K) = false := by simp [hek, hne]
        simp only [he, if_true, h1, h2, Bool.false_eq_true, if_false]
        exact ih
      · simp only [he, Bool.false_eq_true, if_false]
        split
        · rfl
        · exact ih
  · rename_i hany; clear hany
    induction d with
    | nil => simp [Cbor.lookup, hne]
    | cons e rest ih =>
      simp only [List.cons_append, Cbor.lookup]
      split
      · rfl
      · exact ih

theorem lookup_dictSet_same (d : List (Cbor × Cbor)) (K v : Cbor) (hrefl : (K == K) = true) :
    Cbor.lookup K (dictSet d K v) = some v := by
  unfold dictSet
  split
  · rename_i hany
    induction d with
    | nil => simp at hany
    | cons e rest ih =>
      simp only [List.map_cons, Cbor.lookup]
      by_cases he : (e.1 == K) = true
      · simp [he]
      · simp only [he, Bool.false_eq_true, if_false]
        apply ih
        simpa [he] using hany
  · rename_i hany
    have hnone : ∀ e ∈ d, (e.1 == K) = false := by
      intro e he
      have := hany
      simp only [List.any_eq_true, not_exists, not_and, Bool.not_eq_true] at this
      exact this e he
    clear hany
    induction d with
    | nil => simp [Cbor.lookup, hrefl]
    | cons e rest ih =>
      simp only [List.cons_append, Cbor.lookup, hnone e (by simp), Bool.false_eq_true, if_false]
      exact ih (fun x hx => hnone x (by simp [hx]))

theorem lookup_dictUpdate_tstr (K : Cbor) (hK : ∀ t, ((Cbor.tstr t) == K) = false) (new : List (Cbor × Cbor))
    (hnew : ∀ p ∈ new, ∃ t, p.1 = .tstr t) : ∀ d, Cbor.lookup K (dictUpdate d new) = Cbor.lookup K d := by
  unfold dictUpdate
  induction new with
  | nil => intro d; rfl
  | cons p rest ih =>
    intro d
    simp only [List.foldl_cons]
    obtain ⟨t, ht⟩ := hnew p (by simp)
    rw [ih (fun q hq => hnew q (by simp [hq])), ht, lookup_dictSet_other _ _ _ _ (fun x hx => beq_tstr_eq x t hx) (hK t)]

/-- what `kvPairs` needs for integer lookups to be the members: non-merged ids pairwise different; merged members
(flattened payload maps) have text keys only -/
structure KvGood (r : List (KvKey × Node)) : Prop where
  nodup : ((r.filter (fun p => !p.1.merge)).map (·.1.id)).Nodup
  merged : ∀ p ∈ r, p.1.merge = true → ∃ m, p.2.toVal = .map m ∧ ∀ q ∈ m, ∃ t, q.1 = .tstr t

theorem KvGood.tail {p r} (h : KvGood (p :: r)) : KvGood r := by
  refine ⟨?_, fun q hq => h.merged q (by simp [hq])⟩
  have := h.nodup
  by_cases hm : p.1.merge = true
  · simpa [List.filter, hm] using this
  · simp only [Bool.not_eq_true] at hm
    simp only [List.filter, hm, Bool.not_false, List.map_cons, List.nodup_cons] at this
    exact this.2

theorem kvGet_none_of_not_mem (r : List (KvKey × Node)) (k : Int)
    (h : k ∉ (r.filter (fun p => !p.1.merge)).map (·.1.id)) : kvGet r k = none := by
  unfold kvGet
  rw [Option.map_eq_none_iff, List.find?_eq_none]
  intro p hp hc
  simp only [Bool.and_eq_true, beq_iff_eq, Bool.not_eq_true'] at hc
  exact h (List.mem_map.mpr ⟨p, List.mem_filter.mpr ⟨hp, by simp [hc.2]⟩, hc.1⟩)

theorem lookup_kvPairs (k : Int) : ∀ (r : List (KvKey × Node)) (acc : List (Cbor × Cbor)), KvGood r →
    Cbor.lookup (Cbor.ofInt k) (kvPairs r acc) =
      (match kvGet r k with
       | some n => some n.toVal
       | none => Cbor.lookup (Cbor.ofInt k) acc) := by
  intro r
  induction r with
  | nil => intro acc _; simp [kvPairs, kvGet]
  | cons p rest ih =>
    intro acc hg
    obtain ⟨key, n⟩ := p
    simp only [kvPairs]
    by_cases hm : key.merge = true
    · simp only [hm, if_true]
      obtain ⟨m, hmv, hmk⟩ := hg.merged (key, n) (by simp) hm
      rw [ih _ hg.tail, hmv]
      have hget : kvGet ((key, n) :: rest) k = kvGet rest k := by
        simp [kvGet, List.find?, hm]
      rw [hget]
      cases kvGet rest k with
      | some x => rfl
      | none => exact lookup_dictUpdate_tstr _ (fun t => tstr_ne_ofInt t k) m hmk acc
    · simp only [Bool.not_eq_true] at hm
      simp only [hm, Bool.false_eq_true, if_false]
      rw [ih _ hg.tail]
      by_cases hk : key.id = k
      · have hget : kvGet ((key, n) :: rest) k = some n := by simp [kvGet, List.find?, hm, hk]
        have hnd := hg.nodup
        simp only [List.filter, hm, Bool.not_false, List.map_cons, List.nodup_cons] at hnd
        have hrest : kvGet rest k = none := kvGet_none_of_not_mem rest k (by rw [← hk]; exact hnd.1)
        rw [hget, hrest, hk]
        exact lookup_dictSet_same _ _ _ (by rw [ofInt_beq']; simp)
      · have hget : kvGet ((key, n) :: rest) k = kvGet rest k := by
          have : (key.id == k) = false := by simpa using hk
          simp [kvGet, List.find?, this]
        rw [hget]
        cases kvGet rest k with
        | some x => rfl
        | none =>
          exact lookup_dictSet_other _ _ _ _ (fun x hx => beq_ofInt_eq x key.id hx)
            (by rw [ofInt_beq']; simpa using hk)



def idsOk (es : List Entry) : Bool := decide (((es.filter (fun e => !e.merge)).map (·.id)).Nodup)

def mergeOk (s : Schema) (es : List Entry) : Bool :=
  es.all (fun e => !e.merge ||
    (match s.ty e.cls with
     | some (.payloadMap kc _) => decide (s.ty kc = some .tstr)
     | _ => false))

theorem kvTy_mem {s es r} (ht : KvTy s es r) : ∀ p ∈ r, ∃ e, e ∈ es ∧ p.1 = entryKey e ∧ HasTy s e.cls p.2 := by
  induction r with
  | nil => intro p hp; simp at hp
  | cons q rest ih =>
    cases ht with
    | cons he hn hr =>
      intro p hp
      simp only [List.mem_cons] at hp
      rcases hp with rfl | hp
      · exact ⟨_, he, rfl, hn⟩
      · exact ih hr p hp

theorem dictSet_keys_tstr (d : List (Cbor × Cbor)) (t : Bytes) (v : Cbor) (hd : ∀ q ∈ d, ∃ t, q.1 = .tstr t) :
    ∀ q ∈ dictSet d (.tstr t) v, ∃ t, q.1 = .tstr t := by
  unfold dictSet
  split
  · intro q hq
    obtain ⟨e, he, rfl⟩ := List.mem_map.mp hq
    split
    · exact hd e he
    · exact hd e he
  · intro q hq
    simp only [List.mem_append, List.mem_singleton] at hq
    rcases hq with hq | rfl
    · exact hd q hq
    · exact ⟨t, rfl⟩

theorem kvuPairs_keys_tstr {s kc} (hkc : s.ty kc = some .tstr) : ∀ (r : List (String × Node × Node)) (acc : List (Cbor × Cbor)),
    KvuTy s kc r → (∀ q ∈ acc, ∃ t, q.1 = .tstr t) → ∀ q ∈ kvuPairs r acc, ∃ t, q.1 = .tstr t := by
  intro r
  induction r with
  | nil => intro acc _ hacc; simpa [kvuPairs] using hacc
  | cons p rest ih =>
    intro acc ht hacc
    obtain ⟨k, kn, vn⟩ := p
    cases ht with
    | cons hk hr =>
      simp only [kvuPairs]
      have hkn : kn.toVal = .tstr (utf8 k) := by rw [hk hkc]; rfl
      rw [hkn]
      exact ih _ hr (dictSet_keys_tstr acc _ _ hacc)

theorem kvGood_of_typed {s es r} (ht : KvTy s es r) (hk : KeysDistinct r) (hids : idsOk es = true) (hm : mergeOk s es = true) :
    KvGood r := by
  refine ⟨?_, ?_⟩
  · have hes : ((es.filter (fun e => !e.merge)).map (·.id)).Nodup := by simpa [idsOk] using hids
    induction r with
    | nil => simp
    | cons q rest ih =>
      cases ht with
      | cons he hn hr =>
        rename_i e n
        have hk' : KeysDistinct rest := by
          unfold KeysDistinct at hk ⊢
          simp only [List.map_cons, List.nodup_cons] at hk
          exact hk.2
        have hrest := ih hr hk'
        by_cases hmerge : e.merge = true
        · simpa [List.filter, entryKey, hmerge] using hrest
        · simp only [Bool.not_eq_true] at hmerge
          simp only [List.filter, entryKey, hmerge, Bool.not_false, List.map_cons, List.nodup_cons]
          refine ⟨?_, hrest⟩
          intro hmem
          obtain ⟨q, hq, hqid⟩ := List.mem_map.mp hmem
          obtain ⟨hqr, hqm⟩ := List.mem_filter.mp hq
          obtain ⟨e', he', hqe, _⟩ := kvTy_mem hr q hqr
          have hm' : e'.merge = false := by
            have : q.1.merge = false := by simpa using hqm
            rw [hqe] at this; simpa [entryKey] using this
          have hid' : e'.id = e.id := by rw [hqe] at hqid; simpa [entryKey] using hqid
          have heq : e' = e := inj_of_nodup_map (·.id) _ hes e' (List.mem_filter.mpr ⟨he', by simp [hm']⟩) e
            (List.mem_filter.mpr ⟨he, by simp [hmerge]⟩) hid'
          unfold KeysDistinct at hk
          simp only [List.map_cons, List.nodup_cons] at hk
          apply hk.1
          rw [← heq, ← hqe]
          exact List.mem_map.mpr ⟨q, hqr, rfl⟩
  · intro p hp hpm
    obtain ⟨e, he, hpe, hty⟩ := kvTy_mem ht p hp
    have hem : e.merge = true := by rw [hpe] at hpm; simpa [entryKey] using hpm
    have := List.all_eq_true.mp hm e he
    simp only [hem, Bool.not_true, Bool.false_or] at this
    split at this
    · rename_i kc vc hcls
      have hkc : s.ty kc = some .tstr := by simpa using this
      obtain ⟨r', hr', hku⟩ := inv_payloadMap hty hcls
      refine ⟨kvuPairs r' [], by rw [hr']; rfl, ?_⟩
      exact kvuPairs_keys_tstr hkc r' [] hku (by simp)
    · simp at this


/-! ### the digest paths of a schema -/

def entryCls (es : List Entry) (id : Int) : Option Cls := (es.find? (fun e => e.id == id && !e.merge)).map (·.cls)

def sevKeys : List Int := [15, 16, 17, 18, 20, 23]

def isCbstr (s : Schema) (c : Cls) : Bool := match s.ty c with | some (.cbstr _) => true | _ => false

def nonDigestCls (s : Schema) (c : Cls) : Bool :=
  match s.ty c with
  | some (.cbstr _) => true
  | some (.keyValueUnnamed _) => true
  | _ => false

def isSevCls (s : Schema) (algs : List (String × Int)) (c : Cls) : Bool :=
  match s.ty c with
  | some (.union alts) => alts.all (fun a => if s.name a == "SuitDigest" then isDigestCls s algs 8 a else nonDigestCls s a)
  | _ => false

/-- the enumeration of digest algorithms of the schema (class `SuitCoseHashAlg`) -/
def hashEnum (s : Schema) : List (String × Int) :=
  match s.classes.find? (fun c => c.1 == "SuitCoseHashAlg") with
  | some (_, .enum es) => es
  | _ => []

def EnvFacts (s : Schema) : Prop :=
  ∃ nm cKv es emb cAuth cAuthT f cDigW rest cDig cMan cManKv mes memb,
    s.ty s.envelope = some (.tag 107 nm cKv) ∧ s.ty cKv = some (.keyValue es emb) ∧
    idsOk es = true ∧ mergeOk s es = true ∧
    entryCls es 2 = some cAuth ∧ s.ty cAuth = some (.cbstr cAuthT) ∧ s.ty cAuthT = some (.tupleNamed ((f, cDigW) :: rest)) ∧
    f.endsWith "*" = false ∧ s.ty cDigW = some (.cbstr cDig) ∧ isDigestCls s (hashEnum s) 8 cDig = true ∧
    entryCls es 3 = some cMan ∧ s.ty cMan = some (.cbstr cManKv) ∧ s.ty cManKv = some (.keyValue mes memb) ∧
    idsOk mes = true ∧ mergeOk s mes = true ∧
    sevKeys.all (fun k => match entryCls es k with | some c => isCbstr s c | none => true) = true ∧
    sevKeys.all (fun k => match entryCls mes k with | some c => isSevCls s (hashEnum s) c | none => true) = true

theorem generated_envFacts : EnvFacts Generated.schema := by
  refine ⟨_, _, _, _, _, _, _, _, _, _, _, _, _, _, rfl, rfl, ?_, ?_, rfl, rfl, rfl, ?_, rfl, ?_, rfl, rfl, rfl, ?_, ?_, ?_, ?_⟩
  all_goals decide +kernel

end SuitVerif.Typing
