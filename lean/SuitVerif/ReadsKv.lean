import SuitVerif.ReadsBack
import SuitVerif.EnvShape
/-! Read-back step for key/value maps with integer keys only (manifest, common section, parameters, header maps …):
entries `ps` with pairwise different codes, none of them a flattened payload map. -/
namespace SuitVerif.ReadsBack
open SuitVerif SuitVerif.Py SuitVerif.Decode SuitVerif.RoundTrip SuitVerif.Typing

def kvsOf (ps : List (Entry × Node)) : List (Cbor × Cbor) := ps.map (fun p => (Cbor.ofInt p.1.id, p.2.toVal))
def nodesOf (ps : List (Entry × Node)) : List (KvKey × Node) := ps.map (fun p => (entryKey p.1, p.2))

theorem dictSet_fresh (d : List (Cbor × Cbor)) (k v : Cbor) (h : d.any (fun e => e.1 == k) = false) :
    dictSet d k v = d ++ [(k, v)] := by
  simp [dictSet, h]

theorem any_kvsOf_false (ps : List (Entry × Node)) (a : Int) (h : a ∉ ps.map (·.1.id)) :
    (kvsOf ps).any (fun e => e.1 == Cbor.ofInt a) = false := by
  induction ps with
  | nil => simp [kvsOf]
  | cons p ps ih =>
    simp only [List.map_cons, List.mem_cons, not_or] at h
    have hne : (Cbor.ofInt p.1.id == Cbor.ofInt a) = false := by
      rw [ofInt_beq']; simp; exact fun hc => h.1 hc.symm
    simp only [kvsOf, List.map_cons, List.any_cons, hne, Bool.false_or]
    exact ih h.2

/-- encoder side: the map built by `to_cbor` lists the entries in order -/
theorem kvPairs_nodesOf (ps : List (Entry × Node)) (pre : List (Entry × Node))
    (hm : ∀ p ∈ ps, p.1.merge = false) (hd : (pre.map (·.1.id) ++ ps.map (·.1.id)).Nodup) :
    kvPairs (nodesOf ps) (kvsOf pre) = kvsOf (pre ++ ps) := by
  induction ps generalizing pre with
  | nil => simp [nodesOf, kvPairs]
  | cons p ps ih =>
    have hmp : p.1.merge = false := hm p (by simp)
    have hfresh : p.1.id ∉ pre.map (·.1.id) := by
      intro hc
      have := List.nodup_append.mp hd
      exact this.2.2 _ hc _ (by simp) rfl
    have hstep : kvPairs (nodesOf (p :: ps)) (kvsOf pre) = kvPairs (nodesOf ps) (kvsOf (pre ++ [p])) := by
      have hk : (entryKey p.1).merge = false := by simpa [entryKey] using hmp
      have hid : (entryKey p.1).id = p.1.id := by simp [entryKey]
      simp only [nodesOf, List.map_cons, kvPairs, hk, Bool.false_eq_true, if_false, hid]
      rw [dictSet_fresh _ _ _ (any_kvsOf_false pre _ hfresh)]
      simp [kvsOf]
    rw [hstep]
    have := ih (pre ++ [p]) (fun q hq => hm q (by simp [hq])) (by simpa [List.append_assoc] using hd)
    simpa [List.append_assoc] using this

theorem kvkey_beq_id (a b : KvKey) (h : (a == b) = true) : a.id = b.id := by
  cases a; cases b
  simp only [BEq.beq] at h
  first
    | (simp [instBEqKvKey.beq] at h; exact h.2.1)
    | (simp_all)

theorem any_nodesOf_false (ps : List (Entry × Node)) (e : Entry) (h : e.id ∉ ps.map (·.1.id)) :
    (nodesOf ps).any (fun q => q.1 == entryKey e) = false := by
  induction ps with
  | nil => simp [nodesOf]
  | cons p ps ih =>
    simp only [List.map_cons, List.mem_cons, not_or] at h
    have hne : (entryKey p.1 == entryKey e) = false := by
      cases hb : (entryKey p.1 == entryKey e) with
      | false => rfl
      | true =>
        exfalso
        have : p.1.id = e.id := by simpa [entryKey] using kvkey_beq_id _ _ hb
        exact h.1 this.symm
    simp only [nodesOf, List.map_cons, List.any_cons, hne, Bool.false_or]
    exact ih h.2

/-- decoder side: assigning the entries one by one into the result dictionary lists them in order -/
theorem foldl_kvSet_nodesOf (ps pre : List (Entry × Node)) (hd : (pre.map (·.1.id) ++ ps.map (·.1.id)).Nodup) :
    ps.foldl (fun a p => kvSet a (entryKey p.1) p.2) (nodesOf pre) = nodesOf (pre ++ ps) := by
  induction ps generalizing pre with
  | nil => simp
  | cons p ps ih =>
    have hfresh : p.1.id ∉ pre.map (·.1.id) := by
      intro hc
      have := List.nodup_append.mp hd
      exact this.2.2 _ hc _ (by simp) rfl
    simp only [List.foldl_cons]
    have : kvSet (nodesOf pre) (entryKey p.1) p.2 = nodesOf (pre ++ [p]) := by
      unfold kvSet
      rw [any_nodesOf_false pre p.1 hfresh]
      simp [nodesOf]
    rw [this]
    have := ih (pre ++ [p]) (by simpa [List.append_assoc] using hd)
    simpa [List.append_assoc] using this

/-! ### what `cbor2.loads` hands over for such a map is the map itself -/

theorem norm_ofInt (z : Int) : norm (Cbor.ofInt z) = some (Cbor.ofInt z) := by
  unfold Cbor.ofInt; split <;> simp [norm]

theorem keyCanon_ofInt (z : Int) : keyCanon (Cbor.ofInt z) = Cbor.ofInt z := by
  unfold Cbor.ofInt; split <;> simp [keyCanon]

theorem normPairs_kvsOf (ps : List (Entry × Node)) (hn : ∀ p ∈ ps, norm p.2.toVal = some p.2.toVal) :
    normPairs (kvsOf ps) = some (kvsOf ps) := by
  induction ps with
  | nil => simp [kvsOf, normPairs]
  | cons p ps ih =>
    have h1 := hn p (by simp)
    have h2 := ih (fun q hq => hn q (by simp [hq]))
    simp only [kvsOf, List.map_cons] at h2 ⊢
    simp only [normPairs, norm_ofInt, h1, h2]

theorem any_canon_kvsOf_false (ps : List (Entry × Node)) (a : Int) (h : a ∉ ps.map (·.1.id)) :
    (kvsOf ps).any (fun e => keyCanon e.1 == keyCanon (Cbor.ofInt a)) = false := by
  induction ps with
  | nil => simp [kvsOf]
  | cons p ps ih =>
    simp only [List.map_cons, List.mem_cons, not_or] at h
    have hne : (keyCanon (Cbor.ofInt p.1.id) == keyCanon (Cbor.ofInt a)) = false := by
      rw [keyCanon_ofInt, keyCanon_ofInt, ofInt_beq']; simp; exact fun hc => h.1 hc.symm
    simp only [kvsOf, List.map_cons, List.any_cons, hne, Bool.false_or]
    exact ih h.2

theorem foldl_pyDictSet_kvsOf (ps pre : List (Entry × Node)) (hd : (pre.map (·.1.id) ++ ps.map (·.1.id)).Nodup) :
    (kvsOf ps).foldl (fun d e => pyDictSet d e.1 e.2) (kvsOf pre) = kvsOf (pre ++ ps) := by
  induction ps generalizing pre with
  | nil => simp [kvsOf]
  | cons p ps ih =>
    have hfresh : p.1.id ∉ pre.map (·.1.id) := by
      intro hc
      have := List.nodup_append.mp hd
      exact this.2.2 _ hc _ (by simp) rfl
    have hstep : pyDictSet (kvsOf pre) (Cbor.ofInt p.1.id) p.2.toVal = kvsOf (pre ++ [p]) := by
      unfold pyDictSet
      rw [any_canon_kvsOf_false pre _ hfresh]
      simp [kvsOf]
    have := ih (pre ++ [p]) (by simpa [List.append_assoc] using hd)
    simp only [kvsOf, List.map_cons, List.foldl_cons] at this ⊢
    simp only [kvsOf] at hstep
    rw [hstep]
    simpa [List.append_assoc] using this

theorem norm_map_kvsOf (ps : List (Entry × Node)) (hn : ∀ p ∈ ps, norm p.2.toVal = some p.2.toVal)
    (hd : (ps.map (·.1.id)).Nodup) : norm (.map (kvsOf ps)) = some (.map (kvsOf ps)) := by
  have hfold : (kvsOf ps).foldl (fun d e => pyDictSet d e.1 e.2) [] = kvsOf ps := by
    simpa [kvsOf] using foldl_pyDictSet_kvsOf ps [] (by simpa using hd)
  simp only [norm, normPairs_kvsOf ps hn, Option.map_some, hfold]

/-! ### the decoder's loop over the pairs -/

theorem lookupId_ofInt (es : List Entry) (z : Int) : lookupId es (Cbor.ofInt z) = es.find? (fun e => e.id == z) := by
  have : intLike (Cbor.ofInt z) = some z := by
    unfold Cbor.ofInt
    split
    · simp only [intLike, Option.some.injEq]; omega
    · simp only [intLike, Option.some.injEq]; omega
  simp [lookupId, this]

theorem fromKvs_reads {g : Guards} {s : Schema} (es : List Entry) (emb : Option String) (ps : List (Entry × Node))
    (acc : List (KvKey × Node))
    (h : ∀ p ∈ ps, es.find? (fun e => e.id == p.1.id) = some p.1 ∧ Reads g s p.1.cls (ensure p.2.toVal) p.2) :
    ∃ f0, ∀ fuel, f0 ≤ fuel →
      fromKvs g s fuel es emb (kvsOf ps) acc = .ok (ps.foldl (fun a p => kvSet a (entryKey p.1) p.2) acc) := by
  induction ps generalizing acc with
  | nil => exact ⟨1, fun fuel hf => by
      obtain ⟨k, rfl⟩ : ∃ k, fuel = k + 1 := ⟨fuel - 1, by omega⟩
      simp [kvsOf, fromKvs]⟩
  | cons p ps ih =>
    obtain ⟨hl, f1, h1⟩ := h p (by simp)
    obtain ⟨f2, h2⟩ := ih (kvSet acc (entryKey p.1) p.2) (fun q hq => h q (by simp [hq]))
    refine ⟨max f1 f2 + 1, fun fuel hf => ?_⟩
    obtain ⟨k, rfl⟩ : ∃ k, fuel = k + 1 := ⟨fuel - 1, by omega⟩
    have h2' := h2 k (by omega)
    have hcons : kvsOf (p :: ps) = (Cbor.ofInt p.1.id, p.2.toVal) :: kvsOf ps := by simp [kvsOf]
    rw [hcons]
    unfold fromKvs
    simp only [lookupId_ofInt, hl, h1 k (by omega), bind, Except.bind, List.foldl_cons, h2']

/-- **a key/value map with integer keys**: every entry is found by its code and read by its class; the result lists the
entries in the order of the encoding -/
theorem reads_kv {g : Guards} {s : Schema} {c : Cls} (es : List Entry) (emb : Option String) (ps : List (Entry × Node))
    (hty : s.ty c = some (.keyValue es emb))
    (hw : (Cbor.map (kvsOf ps)).wf = true)
    (hd : (ps.map (·.1.id)).Nodup)
    (hn : ∀ p ∈ ps, norm p.2.toVal = some p.2.toVal)
    (h : ∀ p ∈ ps, es.find? (fun e => e.id == p.1.id) = some p.1 ∧ Reads g s p.1.cls (ensure p.2.toVal) p.2) :
    Reads g s c (enc (.map (kvsOf ps))) (.kv (nodesOf ps)) := by
  obtain ⟨f0, hf⟩ := fromKvs_reads (g := g) (s := s) es emb ps [] h
  refine ⟨f0 + 1, fun fuel hfuel => ?_⟩
  obtain ⟨k, rfl⟩ : ∃ k, fuel = k + 1 := ⟨fuel - 1, by omega⟩
  have hfold := foldl_kvSet_nodesOf ps [] (by simpa using hd)
  simp only [nodesOf, List.map_nil, List.nil_append] at hfold
  simp only [fromBytes, hty, leafFrom, deser_enc _ hw (norm_map_kvsOf ps hn hd), hf k (by omega), bind, Except.bind, pure,
    Except.pure, hfold, nodesOf]

/-- … and that node's own encoding is the encoding read (no flattened entries) -/
theorem kv_toBytes (ps : List (Entry × Node)) (hm : ∀ p ∈ ps, p.1.merge = false) (hd : (ps.map (·.1.id)).Nodup) :
    (Node.kv (nodesOf ps)).toBytes = enc (.map (kvsOf ps)) := by
  have := kvPairs_nodesOf ps [] hm (by simpa using hd)
  simp only [kvsOf, List.map_nil, List.nil_append] at this
  simp only [Node.toBytes, this, kvsOf]

end SuitVerif.ReadsBack
