import SuitVerif.IHex
/-! L3: model of `image update` (`cmd_image.py`: update-candidate info record and DFU partition image). -/
namespace SuitVerif.Update
open SuitVerif SuitVerif.IHex

inductive Err where
  | structError     -- struct.pack: value does not fit an unsigned 32-bit field
  | overflow        -- intelhex: address beyond 32 bits while writing
  deriving Repr, DecidableEq

def magic : Nat := 0x55AA55AA

/-- `_prepare_update_candidate_info_for_update` -/
def candidateInfo (dfuAddr size caches : Nat) : Except Err Bytes :=
  if 2 ^ 32 ≤ dfuAddr ∨ 2 ^ 32 ≤ size then .error .structError
  else .ok (leBytes 4 magic ++ leBytes 4 1 ++ leBytes 4 dfuAddr ++ leBytes 4 size ++ List.replicate (8 * caches) 0)

/-- the storage file: only the record, at the update-candidate-info address -/
def storageImage (uciAddr dfuAddr size caches : Nat) : Except Err Image := do
  let r ← candidateInfo dfuAddr size caches
  if 2 ^ 32 < uciAddr + r.length then .error .overflow else pure (place uciAddr r)

/-- the DFU partition file: exactly the envelope file's bytes at the partition address -/
def dfuImage (dfuAddr : Nat) (envelope : Bytes) : Except Err Image :=
  if 2 ^ 32 < dfuAddr + envelope.length then .error .overflow else .ok (place dfuAddr envelope)

/-! ### Spec.C16: the property as executable predicates on the images the files denote -/

/-- the storage file contains only the update-candidate record at `uciAddr`, with the stated field values -/
def checkStorage (img : Image) (uciAddr dfuAddr size caches : Nat) : Bool :=
  match canon img with
  | some [(a, r)] =>
    a == uciAddr && r.length == 16 + 8 * caches
    && ofLe (r.take 4) == 0x55AA55AA && ofLe ((r.drop 4).take 4) == 1
    && ofLe ((r.drop 8).take 4) == dfuAddr && ofLe ((r.drop 12).take 4) == size
    && (r.drop 16).all (· == 0)
  | _ => false

/-- the DFU partition file contains exactly the envelope file's bytes starting at `dfuAddr` -/
def checkDfu (img : Image) (dfuAddr : Nat) (envelope : Bytes) : Bool :=
  match canon img with
  | some [] => envelope.isEmpty
  | some [(a, b)] => a == dfuAddr && b == envelope
  | _ => false

end SuitVerif.Update
