/-! L0: byte strings, fixed-width big/little-endian integers, hexadecimal text. No imports. -/
namespace SuitVerif

abbrev Bytes := List UInt8

/-- big-endian, exactly `k` bytes (value taken modulo `256^k`). -/
def beBytes : Nat → Nat → Bytes
  | 0, _ => []
  | k+1, n => UInt8.ofNat (n / 256 ^ k) :: beBytes k (n % 256 ^ k)

/-- little-endian, exactly `k` bytes (value taken modulo `256^k`). -/
def leBytes : Nat → Nat → Bytes
  | 0, _ => []
  | k+1, n => UInt8.ofNat (n % 256) :: leBytes k (n / 256)

def ofBe : Bytes → Nat
  | [] => 0
  | b :: bs => b.toNat * 256 ^ bs.length + ofBe bs

def ofLe : Bytes → Nat
  | [] => 0
  | b :: bs => b.toNat + 256 * ofLe bs

def hexDigit (n : Nat) : Char :=
  if n < 10 then Char.ofNat (48 + n) else Char.ofNat (87 + n)

def hexDigitU (n : Nat) : Char :=
  if n < 10 then Char.ofNat (48 + n) else Char.ofNat (55 + n)

def toHexChars : Bytes → List Char
  | [] => []
  | b :: bs => hexDigit (b.toNat / 16) :: hexDigit (b.toNat % 16) :: toHexChars bs

def toHex (b : Bytes) : String := String.ofList (toHexChars b)

def toHexCharsU : Bytes → List Char
  | [] => []
  | b :: bs => hexDigitU (b.toNat / 16) :: hexDigitU (b.toNat % 16) :: toHexCharsU bs

def toHexU (b : Bytes) : String := String.ofList (toHexCharsU b)

def hexVal (c : Char) : Option Nat :=
  let n := c.toNat
  if 48 ≤ n ∧ n ≤ 57 then some (n - 48)
  else if 97 ≤ n ∧ n ≤ 102 then some (n - 87)
  else if 65 ≤ n ∧ n ≤ 70 then some (n - 55)
  else none

def ofHexChars : List Char → Option Bytes
  | [] => some []
  | [_] => none
  | a :: b :: rest =>
    match hexVal a, hexVal b, ofHexChars rest with
    | some x, some y, some r => some (UInt8.ofNat (x * 16 + y) :: r)
    | _, _, _ => none

/-- `binascii.a2b_hex` / `bytes.fromhex` on text without white space: even length, hex digits only. -/
def ofHex (s : String) : Option Bytes := ofHexChars s.toList

def utf8 (s : String) : Bytes := s.toUTF8.toList

theorem beBytes_length (k n : Nat) : (beBytes k n).length = k := by
  induction k generalizing n with
  | zero => simp [beBytes]
  | succ k ih => simp [beBytes, ih]

theorem leBytes_length (k n : Nat) : (leBytes k n).length = k := by
  induction k generalizing n with
  | zero => simp [leBytes]
  | succ k ih => simp [leBytes, ih]

theorem ofBe_beBytes (k n : Nat) (h : n < 256 ^ k) : ofBe (beBytes k n) = n := by
  induction k generalizing n with
  | zero => simp [beBytes, ofBe] at *; omega
  | succ k ih =>
    simp only [beBytes, ofBe, beBytes_length]
    have hpos : 0 < 256 ^ k := Nat.pow_pos (by decide)
    have hlt : n / 256 ^ k < 256 := by
      rw [Nat.div_lt_iff_lt_mul hpos]
      rw [Nat.pow_succ] at h; omega
    rw [ih _ (Nat.mod_lt _ hpos)]
    have : (UInt8.ofNat (n / 256 ^ k)).toNat = n / 256 ^ k := by
      simp [UInt8.toNat_ofNat']; omega
    rw [this]
    exact Nat.div_add_mod' n (256 ^ k)

theorem ofLe_leBytes (k n : Nat) (h : n < 256 ^ k) : ofLe (leBytes k n) = n := by
  induction k generalizing n with
  | zero => simp [leBytes, ofLe] at *; omega
  | succ k ih =>
    simp only [leBytes, ofLe]
    have hlt : n / 256 < 256 ^ k := by
      rw [Nat.pow_succ] at h
      exact Nat.div_lt_of_lt_mul (by omega)
    rw [ih _ hlt]
    have : (UInt8.ofNat (n % 256)).toNat = n % 256 := by
      simp [UInt8.toNat_ofNat']
    rw [this]; omega

theorem ofBe_lt (b : Bytes) : ofBe b < 256 ^ b.length := by
  induction b with
  | nil => simp [ofBe]
  | cons x xs ih =>
    simp only [ofBe, List.length_cons, Nat.pow_succ]
    have h1 : x.toNat ≤ 255 := by have := x.toNat_lt; omega
    have h2 : x.toNat * 256 ^ xs.length ≤ 255 * 256 ^ xs.length := Nat.mul_le_mul_right _ h1
    omega

end SuitVerif
