import SuitVerif.Pres
import SuitVerif.CborProofs
namespace SuitVerif.Typing
open SuitVerif SuitVerif.Encode SuitVerif.Decode SuitVerif.Py

/-- `create_digests` for the tree itself (same proof, the witness is the result of the three steps) -/
theorem digestsOk_steps (cx : Ctx) (fuel : Nat) (o : Obj) (n0 n1 n2 : Node)
    (h0 : fromObj cx fuel cx.schema.envelope o = .ok n0) (h1 : updateSeverable cx n0 = .ok n1) (h2 : updateDigest cx n1 = .ok n2) :
    DigestsOk cx n2 := by
  obtain ⟨t, name, es1, es2, m, d', alg, hd, hn1, hn2, h33, hm2, hauth, halg, hhash, hbytes⟩ :=
    updateDigest_spec cx n1 n2 h2
  have hn0 : ∃ es0, n0 = .tagged t name (.kv es0) := by
    have h1' := h1
    unfold updateSeverable at h1'
    simp only [Encode.severableKeys, List.foldlM, bind, Except.bind] at h1'
    cases hs : updateSeverable1 cx n0 23 with
    | error e => simp [hs] at h1'
    | ok x =>
      unfold updateSeverable1 at hs
      split at hs
      · rename_i t0 name0 es0
        have := updateSeverable_spec cx t0 name0 es0 n1 (by
          unfold updateSeverable
          simp only [Encode.severableKeys, List.foldlM, bind, Except.bind]
          exact h1')
        obtain ⟨es', _, _, he, _⟩ := this
        rw [hn1] at he
        cases he
        exact ⟨es0, rfl⟩
      · cases hs
  obtain ⟨es0, hn0⟩ := hn0
  subst hn0
  obtain ⟨es1', m1, mes1, he1, hother1, hm1, hmes1, hall1⟩ := updateSeverable_spec cx t name es0 n1 h1
  rw [hn1] at he1
  cases he1
  have hm2' : kvGet es2 3 = some m1 := by rw [h33, hm1]
  have hmm : m = m1 := by rw [hm2] at hm2'; exact Option.some.inj hm2'
  subst hmm
  refine ⟨t, name, es2, m, mes1, d', alg, hd, hn2, hm2, hmes1, hauth, halg, hhash, hbytes, ?_⟩
  intro k hk entry sev he hda hs
  have hk2 : k ≠ 2 := by
    simp only [Encode.severableKeys, List.mem_cons, List.mem_nil_iff, or_false] at hk
    rcases hk with h | h | h | h | h | h <;> subst h <;> decide
  have hsame : kvGet es2 k = kvGet es1 k := updateDigest_keeps cx n1 n2 h2 t name es1 es2 hn1 hn2 k hk2
  rw [hsame] at hs
  exact hall1 k hk entry sev he hda hs

/-- the final tree has the envelope shape -/
theorem shape_steps (cx : Ctx) (hf : EnvFacts cx.schema) (fuel : Nat) (o : Obj) (n0 n1 n2 : Node)
    (h0 : fromObj cx fuel cx.schema.envelope o = .ok n0) (h1 : updateSeverable cx n0 = .ok n1) (h2 : updateDigest cx n1 = .ok n2) :
    ∃ nm es, n2 = .tagged 107 nm (.kv es) ∧ EnvShape (hashEnum cx.schema) es := by
  obtain ⟨nm, es0, rfl, hs0⟩ := envShape_of_typed cx hf n0 (fromObj_typed cx fuel _ o n0 h0)
  obtain ⟨es1, rfl, hs1⟩ := shape_updateSeverable cx 107 nm es0 n1 hs0 h1
  obtain ⟨es2, rfl, hs2⟩ := shape_updateDigest cx 107 nm es1 n2 hs1 h2
  exact ⟨nm, es2, rfl, hs2⟩

end SuitVerif.Typing
