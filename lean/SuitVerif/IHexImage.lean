import SuitVerif.IHexWrite
/-! The writer model for a whole memory image - several separate blocks, as the per-domain storage files and a merged MPI area with gaps
have them - and the theorem that the strict reader gives the image back: `readRecs (writeImageRecs c) = some c` for every canonical image
(non-empty blocks in ascending order, separated by at least one undefined address, below 2^32). -/
namespace SuitVerif.IHex
open SuitVerif

/-- canonical image: non-empty blocks, ascending, each separated from the next by at least one undefined address -/
def Separated : List (Nat × Bytes) → Prop
  | [] => True
  | [s] => s.2 ≠ []
  | s :: t :: rest => s.2 ≠ [] ∧ s.1 + s.2.length < t.1 ∧ Separated (t :: rest)

/-- the data records of all blocks, the address-extension state carried from block to block -/
def writeSegs (need : Bool) : Option Nat → List (Nat × Bytes) → List Bytes
  | _, [] => []
  | hi, (a, d) :: rest => writeGo need d.length hi a d ++ writeSegs need (hiEnd need d.length hi a d) rest

def allChunks : List (Nat × Bytes) → List (Nat × Bytes)
  | [] => []
  | (a, d) :: rest => chunks d.length a d ++ allChunks rest

def maxEnd (c : List (Nat × Bytes)) : Nat := c.foldl (fun m s => max m (s.1 + s.2.length)) 0

/-- the records of the file for image `c` (extension records only when some address exceeds 0xFFFF) -/
def writeImageRecs (c : List (Nat × Bytes)) : List Bytes :=
  writeSegs (decide (maxEnd c - 1 > 65535)) none c ++ [eofRecord]

def writeImageText (c : List (Nat × Bytes)) : String := String.ofList (textOf (writeImageRecs c))

theorem fold_writeSegs (need : Bool) : ∀ (c : List (Nat × Bytes)) (hi : Option Nat) (st : RState),
    st.done = false → (∀ s ∈ c, s.1 + s.2.length ≤ 2 ^ 32) → (need = false → ∀ s ∈ c, s.1 + s.2.length ≤ 65536) → AddrInv need hi st →
    ∃ st', foldRecs (writeSegs need hi c) (some st) = some st' ∧ st'.done = false ∧ st'.segs = (allChunks c).reverse ++ st.segs := by
  intro c
  induction c with
  | nil => intro hi st hd _ _ _; exact ⟨st, by simp [writeSegs, foldRecs], hd, by simp [allChunks]⟩
  | cons s rest ih =>
    intro hi st hd hb hn hinv
    obtain ⟨a, d⟩ := s
    obtain ⟨st1, hf1, hd1, hs1, hi1⟩ := fold_writeGo need d.length hi a d st hd (Nat.le_refl _) (hb (a, d) (by simp)) hinv
      (fun h => hn h (a, d) (by simp))
    obtain ⟨st2, hf2, hd2, hs2⟩ := ih (hiEnd need d.length hi a d) st1 hd1 (fun s hs => hb s (by simp [hs])) (fun h s hs => hn h s (by simp [hs])) hi1
    refine ⟨st2, ?_, hd2, ?_⟩
    · simp only [writeSegs]
      rw [foldRecs_append, hf1, hf2]
    · rw [hs2, hs1]; simp [allChunks]

/-! ### sorting and merging the chunks of several blocks -/

theorem chunks_succ (f a : Nat) (d : Bytes) (h : d ≠ []) :
    chunks (f + 1) a d = (a, d.take (chunkLen a d.length)) :: chunks f (a + chunkLen a d.length) (d.drop (chunkLen a d.length)) := by
  rw [chunks]; simp [h]

theorem chunks_nil (f a : Nat) : chunks f a [] = [] := by cases f <;> simp [chunks]

theorem chunks_flatten (f : Nat) : ∀ (a : Nat) (d : Bytes), d.length ≤ f → ((chunks f a d).map (·.2)).flatten = d := by
  induction f with
  | zero => intro a d h; have : d = [] := List.eq_nil_of_length_eq_zero (by omega); subst this; simp [chunks]
  | succ f ih =>
    intro a d h
    by_cases hd : d = []
    · subst hd; simp [chunks_nil]
    · have hpos : 0 < d.length := List.length_pos_iff.mpr hd
      obtain ⟨hn1, _, hnl, _⟩ := chunkLen_facts a d.length hpos
      rw [chunks_succ f a d hd]
      simp only [List.map_cons, List.flatten_cons]
      rw [ih _ _ (by rw [List.length_drop]; omega), List.take_append_drop]

theorem head_le_of_sorted_cons (x : Nat × Bytes) (l : List (Nat × Bytes)) (hs : sortSegs l = l)
    (hh : ∀ y ys, l = y :: ys → x.1 ≤ y.1) : sortSegs (x :: l) = x :: l := by
  have : sortSegs (x :: l) = insertSeg x (sortSegs l) := rfl
  rw [this, hs]
  cases l with
  | nil => rfl
  | cons y ys => simp [insertSeg, hh y ys rfl]

theorem sortSegs_chunks_append (f : Nat) : ∀ (a : Nat) (d : Bytes) (rest : List (Nat × Bytes)), d.length ≤ f →
    sortSegs rest = rest → (∀ y ys, rest = y :: ys → a + d.length ≤ y.1) →
    sortSegs (chunks f a d ++ rest) = chunks f a d ++ rest := by
  induction f with
  | zero => intro a d rest _ hs _; simpa [chunks] using hs
  | succ f ih =>
    intro a d rest hl hs hh
    by_cases hd : d = []
    · subst hd; simpa [chunks_nil] using hs
    · have hpos : 0 < d.length := List.length_pos_iff.mpr hd
      obtain ⟨hn1, _, hnl, _⟩ := chunkLen_facts a d.length hpos
      have hdrop : (d.drop (chunkLen a d.length)).length = d.length - chunkLen a d.length := List.length_drop
      rw [chunks_succ f a d hd, List.cons_append]
      apply head_le_of_sorted_cons
      · exact ih _ _ rest (by rw [hdrop]; omega) hs (fun y ys h => by rw [hdrop]; have := hh y ys h; omega)
      · intro y ys hy
        cases hc : chunks f (a + chunkLen a d.length) (d.drop (chunkLen a d.length)) with
        | nil =>
          rw [hc, List.nil_append] at hy
          have := hh y ys hy
          show a ≤ y.1
          omega
        | cons z zs =>
          rw [hc, List.cons_append] at hy
          have hz := chunks_head _ _ _ z zs hc
          simp only [List.cons.injEq] at hy
          show a ≤ y.1
          rw [← hy.1, hz]; omega

theorem allChunks_head (t : Nat × Bytes) (rest : List (Nat × Bytes)) (ht : t.2 ≠ []) :
    ∃ ys, allChunks (t :: rest) = (t.1, t.2.take (chunkLen t.1 t.2.length)) :: ys := by
  obtain ⟨a, d⟩ := t
  have ht' : d ≠ [] := ht
  obtain ⟨f, hf⟩ : ∃ f, d.length = f + 1 := ⟨d.length - 1, by have := List.length_pos_iff.mpr ht'; omega⟩
  simp only [allChunks, hf]
  rw [chunks_succ f a d ht']
  exact ⟨_, by rw [List.cons_append, hf]⟩

theorem sortSegs_allChunks : ∀ (c : List (Nat × Bytes)), Separated c → sortSegs (allChunks c) = allChunks c := by
  intro c
  induction c with
  | nil => intro _; rfl
  | cons s rest ih =>
    intro hsep
    obtain ⟨a, d⟩ := s
    cases rest with
    | nil =>
      simp only [allChunks, List.append_nil]
      exact sortSegs_chunks d.length a d
    | cons t rest' =>
      obtain ⟨_, hgap, hsep'⟩ := hsep
      simp only [allChunks] at ih ⊢
      refine sortSegs_chunks_append d.length a d _ (Nat.le_refl _) (ih hsep') ?_
      intro y ys hy
      have ht : t.2 ≠ [] := by
        cases rest' with
        | nil => exact hsep'
        | cons _ _ => exact hsep'.1
      obtain ⟨zs, hz⟩ := allChunks_head t rest' ht
      obtain ⟨ta, td⟩ := t
      simp only [allChunks] at hz
      rw [hz] at hy
      simp only [List.cons.injEq] at hy
      rw [← hy.1]
      exact Nat.le_of_lt hgap

theorem mergeGo_chunks_append (f : Nat) : ∀ (s0 e : Nat) (accs : List Bytes) (acc : List (Nat × Bytes)) (d : Bytes) (rest : List (Nat × Bytes)),
    d.length ≤ f →
    mergeGo (s0, e, accs) acc (chunks f e d ++ rest) = mergeGo (s0, e + d.length, ((chunks f e d).map (·.2)).reverse ++ accs) acc rest := by
  induction f with
  | zero =>
    intro s0 e accs acc d rest hl
    have : d = [] := List.eq_nil_of_length_eq_zero (by omega)
    subst this; simp [chunks]
  | succ f ih =>
    intro s0 e accs acc d rest hl
    by_cases hd : d = []
    · subst hd; simp [chunks_nil]
    · have hpos : 0 < d.length := List.length_pos_iff.mpr hd
      obtain ⟨hn1, _, hnl, _⟩ := chunkLen_facts e d.length hpos
      have htake : (d.take (chunkLen e d.length)).length = chunkLen e d.length := by rw [List.length_take]; omega
      have hdrop : (d.drop (chunkLen e d.length)).length = d.length - chunkLen e d.length := List.length_drop
      rw [chunks_succ f e d hd, List.cons_append]
      simp only [mergeGo, Nat.lt_irrefl, if_false, if_true]
      rw [htake, ih s0 (e + chunkLen e d.length) _ acc _ rest (by rw [hdrop]; omega), hdrop]
      have : e + chunkLen e d.length + (d.length - chunkLen e d.length) = e + d.length := by omega
      rw [this]
      simp [List.append_assoc]

theorem mergeGo_allChunks : ∀ (rest : List (Nat × Bytes)) (s0 e : Nat) (accs : List Bytes) (acc : List (Nat × Bytes)),
    Separated rest → (∀ y ys, rest = y :: ys → e < y.1) →
    mergeGo (s0, e, accs) acc (allChunks rest) = some (acc.reverse ++ (s0, accs.reverse.flatten) :: rest) := by
  intro rest
  induction rest with
  | nil => intro s0 e accs acc _ _; simp [allChunks, mergeGo]
  | cons t rest' ih =>
    intro s0 e accs acc hsep hgap
    obtain ⟨a, d⟩ := t
    have ht : d ≠ [] := by
      cases rest' with
      | nil => exact hsep
      | cons _ _ => exact hsep.1
    have hsep' : Separated rest' := by
      cases rest' with
      | nil => trivial
      | cons _ _ => exact hsep.2.2
    have hgap' : ∀ y ys, rest' = y :: ys → a + d.length < y.1 := by
      intro y ys hy
      subst hy
      exact hsep.2.1
    obtain ⟨f, hf⟩ : ∃ f, d.length = f + 1 := ⟨d.length - 1, by have := List.length_pos_iff.mpr ht; omega⟩
    have hpos : 0 < d.length := List.length_pos_iff.mpr ht
    obtain ⟨hn1, _, hnl, _⟩ := chunkLen_facts a d.length hpos
    have htake : (d.take (chunkLen a d.length)).length = chunkLen a d.length := by rw [List.length_take]; omega
    have hdrop : (d.drop (chunkLen a d.length)).length = d.length - chunkLen a d.length := List.length_drop
    have he : e < a := hgap (a, d) rest' rfl
    simp only [allChunks]
    rw [hf, chunks_succ f a d ht, List.cons_append]
    simp only [mergeGo]
    rw [if_neg (by omega), if_neg (by omega)]
    rw [htake, mergeGo_chunks_append f a (a + chunkLen a d.length) _ _ _ _ (by rw [hdrop]; omega), hdrop]
    have hsum : a + chunkLen a d.length + (d.length - chunkLen a d.length) = a + d.length := by omega
    rw [hsum, ih a (a + d.length) _ _ hsep' hgap']
    have hflat : ((((chunks f (a + chunkLen a d.length) (d.drop (chunkLen a d.length))).map (·.2)).reverse ++ [d.take (chunkLen a d.length)]).reverse).flatten = d := by
      simp only [List.reverse_append, List.reverse_reverse, List.reverse_cons, List.reverse_nil, List.nil_append, List.flatten_append,
        List.flatten_cons, List.flatten_nil, List.append_nil]
      rw [chunks_flatten f _ _ (by rw [hdrop]; omega), List.take_append_drop]
    rw [hflat]
    simp

theorem allChunks_nonempty : ∀ (c : List (Nat × Bytes)) (x : Nat × Bytes), x ∈ allChunks c → x.2 ≠ [] := by
  intro c
  induction c with
  | nil => intro x h; simp [allChunks] at h
  | cons s rest ih =>
    intro x h
    obtain ⟨a, d⟩ := s
    simp only [allChunks, List.mem_append] at h
    rcases h with h | h
    · exact chunks_nonempty _ _ _ x h
    · exact ih x h

theorem canon_allChunks (c : List (Nat × Bytes)) (hsep : Separated c) : canon (allChunks c) = some c := by
  unfold canon
  have hf : (allChunks c).filter (fun s => s.2 ≠ []) = allChunks c := by
    rw [List.filter_eq_self]; intro x hx; simpa using allChunks_nonempty c x hx
  rw [hf, sortSegs_allChunks c hsep]
  cases c with
  | nil => simp [allChunks, mergeSorted]
  | cons s rest =>
    obtain ⟨a, d⟩ := s
    have ht : d ≠ [] := by
      cases rest with
      | nil => exact hsep
      | cons _ _ => exact hsep.1
    have hsep' : Separated rest := by
      cases rest with
      | nil => trivial
      | cons _ _ => exact hsep.2.2
    have hgap' : ∀ y ys, rest = y :: ys → a + d.length < y.1 := by
      intro y ys hy; subst hy; exact hsep.2.1
    obtain ⟨f, hf'⟩ : ∃ f, d.length = f + 1 := ⟨d.length - 1, by have := List.length_pos_iff.mpr ht; omega⟩
    have hpos : 0 < d.length := List.length_pos_iff.mpr ht
    obtain ⟨hn1, _, hnl, _⟩ := chunkLen_facts a d.length hpos
    have htake : (d.take (chunkLen a d.length)).length = chunkLen a d.length := by rw [List.length_take]; omega
    have hdrop : (d.drop (chunkLen a d.length)).length = d.length - chunkLen a d.length := List.length_drop
    simp only [allChunks]
    rw [hf', chunks_succ f a d ht, List.cons_append]
    simp only [mergeSorted]
    rw [htake, mergeGo_chunks_append f a (a + chunkLen a d.length) _ _ _ _ (by rw [hdrop]; omega), hdrop]
    have hsum : a + chunkLen a d.length + (d.length - chunkLen a d.length) = a + d.length := by omega
    rw [hsum, mergeGo_allChunks rest a (a + d.length) _ _ hsep' hgap']
    have hflat : ((((chunks f (a + chunkLen a d.length) (d.drop (chunkLen a d.length))).map (·.2)).reverse ++ [d.take (chunkLen a d.length)]).reverse).flatten = d := by
      simp only [List.reverse_append, List.reverse_reverse, List.reverse_cons, List.reverse_nil, List.nil_append, List.flatten_append,
        List.flatten_cons, List.flatten_nil, List.append_nil]
      rw [chunks_flatten f _ _ (by rw [hdrop]; omega), List.take_append_drop]
    rw [hflat]
    simp

theorem le_maxEnd (c : List (Nat × Bytes)) : ∀ (m : Nat) (s : Nat × Bytes), s ∈ c → s.1 + s.2.length ≤ c.foldl (fun m s => max m (s.1 + s.2.length)) m := by
  induction c with
  | nil => intro m s h; simp at h
  | cons x xs ih =>
    intro m s h
    simp only [List.foldl_cons]
    rcases List.mem_cons.mp h with h | h
    · subst h
      have : ∀ (l : List (Nat × Bytes)) (k : Nat), k ≤ l.foldl (fun m s => max m (s.1 + s.2.length)) k := by
        intro l
        induction l with
        | nil => intro k; simp
        | cons y ys ihy => intro k; simp only [List.foldl_cons]; exact Nat.le_trans (Nat.le_max_left _ _) (ihy _)
      exact Nat.le_trans (Nat.le_max_right _ _) (this xs _)
    · exact ih _ s h

/-- **the reader gives back the image**: for every canonical image below 2^32, reading the records of its file yields exactly the image -/
theorem readRecs_writeImageRecs (c : List (Nat × Bytes)) (hsep : Separated c) (hb : ∀ s ∈ c, s.1 + s.2.length ≤ 2 ^ 32) :
    readRecs (writeImageRecs c) = some c := by
  unfold readRecs writeImageRecs
  have hfold : ∀ recs, List.foldl (fun (acc : Option RState) r => acc.bind (fun st => stepRecord st r)) (some {}) recs
      = foldRecs recs (some {}) := fun _ => rfl
  rw [hfold, foldRecs_append]
  obtain ⟨st', hf, hd', hs'⟩ := fold_writeSegs (decide (maxEnd c - 1 > 65535)) c none {} rfl hb
    (by
      intro hneed s hs
      simp only [decide_eq_false_iff_not] at hneed
      have := le_maxEnd c 0 s hs
      unfold maxEnd at hneed
      omega)
    ⟨(by intro _ u hu; cases hu), fun _ => ⟨rfl, rfl⟩⟩
  rw [hf, foldRecs_cons, step_eof st' hd']
  simp only [foldRecs, List.foldl_nil]
  rw [hs']
  simp only [List.append_nil, List.reverse_reverse]
  exact canon_allChunks c hsep

end SuitVerif.IHex
