import SuitVerif.Bytes
/-! L1: CBOR data model (major types 0-6 and one-byte simple values), the definite-length
shortest-form encoder (what `cbor2.dumps` emits for the values suit-generator builds) and a
fuel-based decoder with a lenient mode (any head width, as `cbor2.loads`) and a strict mode
(shortest heads only).  Floats and indefinite lengths are outside this model: `dec` returns
`none` on them and the harness treats such inputs as outside the compared domain. -/
namespace SuitVerif

inductive Cbor where
  | uint (n : Nat)
  | nint (n : Nat)            -- the integer -1-n
  | bstr (b : Bytes)
  | tstr (b : Bytes)          -- UTF-8 bytes
  | arr (xs : List Cbor)
  | map (kvs : List (Cbor × Cbor))
  | tag (t : Nat) (v : Cbor)
  | simple (n : Nat)          -- 20 false, 21 true, 22 null, 23 undefined
  deriving Repr, Inhabited

mutual
/-- structural equality test (written out so that both the kernel and proofs can unfold it) -/
def Cbor.beq : Cbor → Cbor → Bool
  | .uint a, .uint b => a == b
  | .nint a, .nint b => a == b
  | .bstr a, .bstr b => a == b
  | .tstr a, .tstr b => a == b
  | .arr a, .arr b => Cbor.beqList a b
  | .map a, .map b => Cbor.beqPairs a b
  | .tag t a, .tag u b => t == u && Cbor.beq a b
  | .simple a, .simple b => a == b
  | _, _ => false
def Cbor.beqList : List Cbor → List Cbor → Bool
  | [], [] => true
  | x :: xs, y :: ys => Cbor.beq x y && Cbor.beqList xs ys
  | _, _ => false
def Cbor.beqPairs : List (Cbor × Cbor) → List (Cbor × Cbor) → Bool
  | [], [] => true
  | (k, v) :: xs, (k', v') :: ys => Cbor.beq k k' && Cbor.beq v v' && Cbor.beqPairs xs ys
  | _, _ => false
end

instance : BEq Cbor := ⟨Cbor.beq⟩

def head (major n : Nat) : Bytes :=
  if n < 24 then [UInt8.ofNat (major * 32 + n)]
  else if n < 256 then UInt8.ofNat (major * 32 + 24) :: beBytes 1 n
  else if n < 65536 then UInt8.ofNat (major * 32 + 25) :: beBytes 2 n
  else if n < 4294967296 then UInt8.ofNat (major * 32 + 26) :: beBytes 4 n
  else UInt8.ofNat (major * 32 + 27) :: beBytes 8 n

mutual
def enc : Cbor → Bytes
  | .uint n => head 0 n
  | .nint n => head 1 n
  | .bstr b => head 2 b.length ++ b
  | .tstr b => head 3 b.length ++ b
  | .arr xs => head 4 xs.length ++ encList xs
  | .map kvs => head 5 kvs.length ++ encPairs kvs
  | .tag t v => head 6 t ++ enc v
  | .simple n => head 7 n
def encList : List Cbor → Bytes
  | [] => []
  | x :: xs => enc x ++ encList xs
def encPairs : List (Cbor × Cbor) → Bytes
  | [] => []
  | (k, v) :: xs => enc k ++ enc v ++ encPairs xs
end

def aiWidth (ai : Nat) : Nat :=
  if ai = 24 then 1 else if ai = 25 then 2 else if ai = 26 then 4 else if ai = 27 then 8 else 0

/-- decode a head: (major, argument, rest).  Lenient: any width.  Strict: the consumed bytes must be
exactly `head major arg` (shortest form). Additional information 28..31 is rejected in both modes. -/
def decHead (strict : Bool) : Bytes → Option (Nat × Nat × Bytes)
  | [] => none
  | b :: rest =>
    if b.toNat % 32 < 24 then some (b.toNat / 32, b.toNat % 32, rest)
    else if aiWidth (b.toNat % 32) = 0 then none
    else if rest.length < aiWidth (b.toNat % 32) then none
    else if strict && !(head (b.toNat / 32) (ofBe (rest.take (aiWidth (b.toNat % 32))))
                        == b :: rest.take (aiWidth (b.toNat % 32))) then none
    else some (b.toNat / 32, ofBe (rest.take (aiWidth (b.toNat % 32))), rest.drop (aiWidth (b.toNat % 32)))

mutual
def dec (strict : Bool) : Nat → Bytes → Option (Cbor × Bytes)
  | 0, _ => none
  | fuel+1, bs =>
    match decHead strict bs with
    | none => none
    | some (major, n, rest) =>
      match major with
      | 0 => some (.uint n, rest)
      | 1 => some (.nint n, rest)
      | 2 => if rest.length < n then none else some (.bstr (rest.take n), rest.drop n)
      | 3 => if rest.length < n then none else some (.tstr (rest.take n), rest.drop n)
      | 4 => match decList strict fuel n rest with
             | some (xs, r) => some (.arr xs, r)
             | none => none
      | 5 => match decPairs strict fuel n rest with
             | some (xs, r) => some (.map xs, r)
             | none => none
      | 6 => match dec strict fuel rest with
             | some (v, r) => some (.tag n v, r)
             | none => none
      | _ => if n < 24 then some (.simple n, rest) else none
def decList (strict : Bool) : Nat → Nat → Bytes → Option (List Cbor × Bytes)
  | 0, _, _ => none
  | _+1, 0, bs => some ([], bs)
  | fuel+1, k+1, bs =>
    match dec strict fuel bs with
    | none => none
    | some (x, r) =>
      match decList strict fuel k r with
      | none => none
      | some (xs, r') => some (x :: xs, r')
def decPairs (strict : Bool) : Nat → Nat → Bytes → Option (List (Cbor × Cbor) × Bytes)
  | 0, _, _ => none
  | _+1, 0, bs => some ([], bs)
  | fuel+1, k+1, bs =>
    match dec strict fuel bs with
    | none => none
    | some (x, r) =>
      match dec strict fuel r with
      | none => none
      | some (y, r2) =>
        match decPairs strict fuel k r2 with
        | none => none
        | some (xs, r') => some ((x, y) :: xs, r')
end

/-- fuel that always suffices: every item and every list cell consumes at least one byte of fuel
budget `2 * length + 2` (see `CborProofs.dec_enc` for the encoder side). -/
def fuelFor (b : Bytes) : Nat := 2 * b.length + 2

/-- `cbor2.loads` on the modelled subset: first item, trailing bytes ignored. -/
def loads (b : Bytes) : Option Cbor := (dec false (fuelFor b) b).map (·.1)

/-- whole-input strict decode: one shortest-form definite-length item and nothing else. -/
def decodeStrict (b : Bytes) : Option Cbor :=
  match dec true (fuelFor b) b with
  | some (c, []) => some c
  | _ => none

mutual
def Cbor.wf : Cbor → Bool
  | .uint n => n < 2^64
  | .nint n => n < 2^64
  | .bstr b => b.length < 2^64
  | .tstr b => b.length < 2^64
  | .arr xs => xs.length < 2^64 && wfList xs
  | .map kvs => kvs.length < 2^64 && wfPairs kvs
  | .tag t v => t < 2^64 && v.wf
  | .simple n => n < 24
def wfList : List Cbor → Bool
  | [] => true
  | x :: xs => x.wf && wfList xs
def wfPairs : List (Cbor × Cbor) → Bool
  | [] => true
  | (k, v) :: xs => k.wf && v.wf && wfPairs xs
end

mutual
def Cbor.depth : Cbor → Nat
  | .arr xs => depthList xs + 1
  | .map kvs => depthPairs kvs + 1
  | .tag _ v => v.depth + 1
  | _ => 1
def depthList : List Cbor → Nat
  | [] => 1
  | x :: xs => max x.depth (depthList xs) + 1
def depthPairs : List (Cbor × Cbor) → Nat
  | [] => 1
  | (k, v) :: xs => max (max k.depth v.depth) (depthPairs xs) + 1
end

/-- integer view used by the SUIT layer -/
def Cbor.ofInt (i : Int) : Cbor :=
  if i < 0 then .nint (Int.toNat (-1 - i)) else .uint i.toNat

def Cbor.toInt? : Cbor → Option Int
  | .uint n => some n
  | .nint n => some (-1 - (n : Int))
  | _ => none

def Cbor.null : Cbor := .simple 22
def Cbor.bool (b : Bool) : Cbor := .simple (if b then 21 else 20)
def Cbor.text (s : String) : Cbor := .tstr (utf8 s)

/-- first value stored under a key (Python `dict` lookup on an already built mapping). -/
def Cbor.lookup (k : Cbor) : List (Cbor × Cbor) → Option Cbor
  | [] => none
  | (k', v) :: rest => if k' == k then some v else Cbor.lookup k rest

end SuitVerif
