import SuitVerif.Schema
import SuitVerif.Py
/-! L2, decode side: `from_cbor` of every node kind of `suit/types/common.py` (+ the special classes), and
`to_obj`.  Faithful to the Python including its error class: `Err.internal` is what the Python would let
escape (IndexError, TypeError …) - C17 is about its absence.

`Guards` records, per guarded site, whether the running code turns the malformed case into ValueError
(`true`) or lets an internal error escape (`false`); `Generated.guards` holds the probe outcomes of the
current tree. -/
namespace SuitVerif.Decode
open SuitVerif SuitVerif.Py

structure Guards where
  tupleIndex : Bool       -- SuitTupleNamed.from_cbor: too short a list → ValueError (else IndexError)
  embeddedNone : Bool     -- SuitKeyValue.from_cbor: unknown key, no `embedded` → ValueError (else TypeError)
  bitfieldType : Bool     -- SuitBitfield.from_cbor: non-integer → ValueError (else TypeError)
  encInfoFromCbor : Bool  -- SuitEncryptionInfoExt.from_cbor callable with bytes → ValueError (else TypeError)
  deriving Repr, BEq, DecidableEq

def allGuards : Guards := ⟨true, true, true, true⟩

def guardErr (g : Bool) (kind : String) : Err := if g then .valueError else .internal kind

def lookupId (es : List Entry) (k : Cbor) : Option Entry :=
  match intLike k with
  | some n => es.find? (fun e => e.id == n)
  | none => none

/-- scalar kinds: `cls(deserialize_cbor(cbstr))` with the `__init__` type check; raw kinds take the bytes -/
def leafFrom (g : Guards) (ty : Ty) (b : Bytes) : Option (R Node) :=
  match ty with
  | .uint => some (do
      let v ← deser b
      if isNone v then pure (.leaf v .plain)
      else match intLike v with
        | some n => if n < 0 then .error .valueError else pure (.leaf v .plain)
        | none => .error .valueError)
  | .imageSize => some (do
      let v ← deser b
      if isNone v then pure (.leaf v .rawInt)
      else match intLike v with
        | some n => if n < 0 then .error .valueError else pure (.leaf v .rawInt)
        | none => .error .valueError)
  | .int => some (do
      let v ← deser b
      if isNone v || (intLike v).isSome then pure (.leaf v .plain) else .error .valueError)
  | .bool => some (do
      let v ← deser b
      if isNone v || isBool v then pure (.leaf v .plain) else .error .valueError)
  | .null => some (do
      let v ← deser b
      if isNone v then pure (.leaf v .plain) else .error .valueError)
  | .tstr => some (do
      let v ← deser b
      match v with
      | .tstr _ => pure (.leaf v .plain)
      | _ => if isNone v then pure (.leaf v .plain) else .error .valueError)
  | .bstr => some (.ok (.leaf (.bstr b) .hex))
  | .hex => some (.ok (.leaf (.bstr b) .hex))
  | .rawBstr => some (.ok (.leaf (.bstr b) .rawHex))
  | .uuid => some (if b.length = 16 then .ok (.leaf (.bstr b) .rawHex) else .error .valueError)
  | .emptyBstr => some (if b.length > 0 then .error .valueError else .ok .emptyRaw)
  | .bchar => some (
      if b.length ≠ 1 then .error .valueError
      else match strOf b with
        | some s => if s.toList.all Char.isAlpha then .ok (.bchar s) else .error .valueError
        | none => .error .valueError)      -- UnicodeDecodeError is a ValueError
  | .enum es => some (do
      let v ← deser b
      match intLike v with
      | some n => match es.find? (fun e => e.2 == n) with
        | some e => pure (.enumv e.1 e.2)
        | none => .error .valueError
      | none => .error .valueError)
  | .digestExt _ => some (.error .valueError)
  | .encInfoExt => some (.error (guardErr g.encInfoFromCbor "TypeError"))
  | _ => none

/-- the bits of `bitval` that are set, lowest first, below `len` -/
def setBits (bitval : Int) (len : Nat) : List Nat :=
  (List.range len).filter (fun i => (bitval / (2 ^ i : Nat)) % 2 == 1) |>.map (fun i => 2 ^ i)

def chunk (k : Nat) (fuel : Nat) (xs : List Cbor) : List Cbor :=
  match fuel with
  | 0 => []
  | fuel + 1 => if xs.isEmpty then [] else .arr (xs.take k) :: chunk k fuel (xs.drop k)

def strSet {α} (d : List (String × α)) (k : String) (v : α) : List (String × α) :=
  if d.any (fun e => e.1 == k) then d.map (fun e => if e.1 == k then (k, v) else e) else d ++ [(k, v)]

def kvSet (d : List (KvKey × Node)) (k : KvKey) (v : Node) : List (KvKey × Node) :=
  if d.any (fun e => e.1 == k) then d.map (fun e => if e.1 == k then (k, v) else e) else d ++ [(k, v)]

def entryKey (e : Entry) : KvKey := ⟨e.name, e.id, e.merge⟩

/-! ### to_obj -/

def intObj (v : Cbor) : Obj :=
  match v with
  | .uint n => .int n
  | .nint n => .int (-1 - (n : Int))
  | .simple 21 => .bool true
  | .simple 20 => .bool false
  | .tstr b => .str ((strOf b).getD "")
  | _ => .null

def hexObj (v : Cbor) : Obj :=
  match v with
  | .bstr b => .str (toHex b)
  | _ => .null            -- `None.hex()`: unreachable from `from_cbor` / `from_obj`

mutual
/-- `json.dumps(obj)` with the default separators -/
def jsonDumps : Obj → List Char
  | .null => "null".toList
  | .bool true => "true".toList
  | .bool false => "false".toList
  | .int n => (toString n).toList
  | .str s => jsonString s
  | .list xs => ['['] ++ jsonList xs ++ [']']
  | .dict kvs => ['{'] ++ jsonDict kvs ++ ['}']
  | .other => "null".toList
def jsonList : List Obj → List Char
  | [] => []
  | [x] => jsonDumps x
  | x :: xs => jsonDumps x ++ [',', ' '] ++ jsonList xs
def jsonDict : List (String × Obj) → List Char
  | [] => []
  | [(k, v)] => jsonString k ++ [':', ' '] ++ jsonDumps v
  | (k, v) :: xs => jsonString k ++ [':', ' '] ++ jsonDumps v ++ [',', ' '] ++ jsonDict xs
end

/-- names given by `SuitTupleNamed.to_obj`: metadata keys in order, a trailing `name*` expanding to
`name1, name2, …` -/
def tupleNames (keys : List String) (n : Nat) : List String :=
  let dyn := keys.getLast?.bind (fun k => if hasStar k then some k else none)
  (List.range n).map (fun i =>
    match keys[i]? with
    | some k => replaceStar k "1"
    | none => match dyn with
      | some d => replaceStar d (toString (i - keys.length + 2))
      | none => "?")   -- GeneratorError "too many elements": unreachable, `from_cbor` never builds more

mutual
def toObj : Node → Obj
  | .leaf v .plain => intObj v
  | .leaf v .hex => hexObj v
  | .leaf v .rawHex => .dict [("raw", hexObj v)]
  | .leaf v .rawInt => .dict [("raw", intObj v)]
  | .bchar s => .str s
  | .emptyRaw => .str ""
  | .enumv name _ => .str name
  | .bits bs => .list (toObjList bs)
  | .kv es => .dict (toObjKv es)
  | .kvTuple es => .dict (toObjKv es)
  | .kvu es => .dict (toObjKvu es)
  | .tuple keys vals => .dict ((tupleNames keys vals.length).zip (toObjList vals))
  | .list _ xs => .list (toObjList xs)
  | .alt _ _ n => toObj n
  | .tagged _ name n => .dict [(name, toObj n)]
  | .wrapped n => toObj n
def toObjList : List Node → List Obj
  | [] => []
  | n :: ns => toObj n :: toObjList ns
def toObjKv : List (KvKey × Node) → List (String × Obj)
  | [] => []
  | (k, n) :: rest => (k.name, toObj n) :: toObjKv rest
def toObjKvu : List (String × Node × Node) → List (String × Obj)
  | [] => []
  | (k, _, vn) :: rest => (k, toObj vn) :: toObjKvu rest
end

/-- `dict_key` of a `SuitKeyValueUnnamed` entry: the rendered key if it is a string, else its JSON text -/
def dictKeyOf (keyNode : Node) : String :=
  match toObj keyNode with
  | .str s => s
  | o => String.ofList (jsonDumps o)

/-! ### from_cbor -/

mutual
def fromBytes (g : Guards) (s : Schema) : Nat → Cls → Bytes → R Node
  | 0, _, _ => .error .fuel
  | fuel+1, c, b =>
    match s.ty c with
    | none => .error (.model "schema")
    | some ty =>
      match leafFrom g ty b with
      | some r => r
      | none =>
        match ty with
        | .cbstr inner => do
            let n ← fromBytes g s fuel inner b
            pure (.wrapped n)
        | .union alts => fromAlts g s fuel alts 0 b
        | .headerMapOptional m e => fromAlts g s fuel [m, e] 0 b
        | .tag t name child => do
            let v ← deser b
            match v with
            | .tag t' x =>
              if t' = t then do
                let n ← fromBytes g s fuel child (enc x)
                pure (.tagged t name n)
              else .error .suitError
            | _ => .error .suitError
        | .list child group => do
            let v ← deser b
            match v with
            | .arr xs =>
              let xs' := match group with
                | some k => chunk k (xs.length + 1) xs
                | none => xs
              let ns ← fromList g s fuel child xs'
              pure (.list group.isSome ns)
            | _ => .error .valueError
        | .version child => do
            let v ← deser b
            match v with
            | .arr xs => do
              let ns ← fromList g s fuel child xs
              pure (.list false ns)
            | _ => .error .valueError
        | .bitfield bit len => do
            let v ← deser b
            match intLike v with
            | none => .error (guardErr g.bitfieldType "TypeError")
            | some bitval =>
              let masks := if bitval < 0 then (List.range len).map (fun i => 2 ^ i) else setBits bitval len
              let ns ← fromList g s fuel bit (masks.map (fun m => Cbor.uint m))
              if (masks.foldl (· + ·) 0 : Nat) == bitval then pure (.bits ns) else .error .valueError
        | .tupleNamed es => do
            let v ← deser b
            match v with
            | .arr xs => do
              let ns ← fromTuple g s fuel es xs
              pure (.tuple (es.map (·.1)) ns)
            | _ => .error .valueError
        | .keyValueTuple es => do
            let v ← deser b
            match v with
            | .arr [k, x] =>
              match lookupId es k with
              | none => .error .valueError
              | some e => do
                let n ← fromBytes g s fuel e.cls (ensure x)
                pure (.kvTuple [(entryKey e, n)])
            | .arr _ => .error .valueError
            | _ => .error .valueError
        | .keyValue es embedded => do
            let v ← deser b
            match v with
            | .map kvs => do
              let r ← fromKvs g s fuel es embedded kvs []
              pure (.kv r)
            | _ => .error .valueError
        | .keyValueUnnamed es => do
            let v ← deser b
            match v with
            | .map kvs => do
              let r ← fromKvu g s fuel es kvs []
              pure (.kvu r)
            | _ => .error .valueError
        | .payloadMap kc vc => do
            let v ← deser b
            match v with
            | .map kvs => do
              let r ← fromKvu g s fuel [(kc, vc)] kvs []
              pure (.kvu r)
            | _ => .error .valueError
        | _ => .error (.model "unmodelled-class")

def fromAlts (g : Guards) (s : Schema) : Nat → List Cls → Nat → Bytes → R Node
  | 0, _, _, _ => .error .fuel
  | _+1, [], _, _ => .error .valueError
  | fuel+1, c :: cs, i, b =>
    match fromBytes g s fuel c b with
    | .ok n => .ok (.alt i (s.name c) n)
    | .error .valueError => fromAlts g s fuel cs (i + 1) b
    | .error e => .error e

def fromList (g : Guards) (s : Schema) : Nat → Cls → List Cbor → R (List Node)
  | 0, _, _ => .error .fuel
  | _+1, _, [] => .ok []
  | fuel+1, c, x :: xs => do
    let n ← fromBytes g s fuel c (ensure x)
    let ns ← fromList g s fuel c xs
    pure (n :: ns)

/-- `SuitTupleNamed.from_cbor`: fixed fields by index, a `name*` field greedily until the first element that
fails with ValueError or the list ends; whatever follows is ignored -/
def fromTuple (g : Guards) (s : Schema) : Nat → List (String × Cls) → List Cbor → R (List Node)
  | 0, _, _ => .error .fuel
  | _+1, [], _ => .ok []
  | fuel+1, (k, c) :: es, xs =>
    if k.endsWith "*" then do
      let (ns, rest) ← fromStar g s fuel c xs
      let more ← fromTuple g s fuel es rest
      pure (ns ++ more)
    else
      match xs with
      | [] => .error (guardErr g.tupleIndex "IndexError")
      | x :: rest => do
        let n ← fromBytes g s fuel c (ensure x)
        let more ← fromTuple g s fuel es rest
        pure (n :: more)

def fromStar (g : Guards) (s : Schema) : Nat → Cls → List Cbor → R (List Node × List Cbor)
  | 0, _, _ => .error .fuel
  | _+1, _, [] => .ok ([], [])
  | fuel+1, c, x :: xs =>
    match fromBytes g s fuel c (ensure x) with
    | .ok n => do
      let (ns, rest) ← fromStar g s fuel c xs
      pure (n :: ns, rest)
    | .error .valueError => .ok ([], x :: xs)
    | .error e => .error e

/-- `SuitKeyValue.from_cbor`: known keys by id; an unknown key goes through the `embedded` logic
(probed as an envelope → dependency, else payload; merged; dropped when it is not text → bytes) -/
def fromKvs (g : Guards) (s : Schema) : Nat → List Entry → Option String → List (Cbor × Cbor)
    → List (KvKey × Node) → R (List (KvKey × Node))
  | 0, _, _, _, _ => .error .fuel
  | _+1, _, _, [], acc => .ok acc
  | fuel+1, es, embedded, (k, x) :: rest, acc =>
    match lookupId es k with
    | some e => do
      let n ← fromBytes g s fuel e.cls (ensure x)
      fromKvs g s fuel es embedded rest (kvSet acc (entryKey e) n)
    | none =>
      match embedded with
      | none => .error (guardErr g.embeddedNone "TypeError")
      | some payloadsName =>
        let isDep := match x with
          | .bstr xb => (match fromBytes g s fuel s.envelopeSimplified xb with | .ok _ => true | .error _ => false)
          | _ => false
        let itemName := if isDep then "suit-integrated-dependencies" else payloadsName
        match es.find? (fun e => e.name == itemName) with
        | none => fromKvs g s fuel es embedded rest acc          -- "Impossible to create embedded element": dropped
        | some e =>
          match fromBytes g s fuel e.cls (enc (.map [(k, x)])) with
          | .ok (.kvu new) =>
            let merged := match acc.find? (fun a => a.1 == entryKey e) with
              | some (_, .kvu old) => new.foldl (fun d en => strSet d en.1 en.2) old
              | _ => new
            fromKvs g s fuel es embedded rest (kvSet acc (entryKey e) (.kvu merged))
          | .ok _ => fromKvs g s fuel es embedded rest acc
          | .error .valueError => fromKvs g s fuel es embedded rest acc   -- logged and dropped
          | .error err => .error err

/-- `SuitKeyValueUnnamed.from_cbor`: each pair by the first (key class, value class) alternative that accepts it -/
def fromKvu (g : Guards) (s : Schema) : Nat → List (Cls × Cls) → List (Cbor × Cbor)
    → List (String × Node × Node) → R (List (String × Node × Node))
  | 0, _, _, _ => .error .fuel
  | _+1, _, [], acc => .ok acc
  | fuel+1, es, (k, x) :: rest, acc => do
    let (kn, vn) ← fromKvuAlts g s fuel es k x
    fromKvu g s fuel es rest (strSet acc (dictKeyOf kn) (kn, vn))

def fromKvuAlts (g : Guards) (s : Schema) : Nat → List (Cls × Cls) → Cbor → Cbor → R (Node × Node)
  | 0, _, _, _ => .error .fuel
  | _+1, [], _, _ => .error .valueError
  | fuel+1, (kc, vc) :: es, k, x =>
    match fromBytes g s fuel kc (enc k) with
    | .ok kn =>
      match fromBytes g s fuel vc (ensure x) with
      | .ok vn => .ok (kn, vn)
      | .error .valueError => fromKvuAlts g s fuel es k x
      | .error e => .error e
    | .error .valueError => fromKvuAlts g s fuel es k x
    | .error e => .error e
end

/-- recursion budget derived from the input size: every level of the class graph between two byte-consuming
steps is bounded by the number of classes -/
def budget (s : Schema) (b : Bytes) : Nat := (b.length + 2) * (s.classes.length + 2) + 8

/-- `SuitEnvelopeTagged.from_cbor(b)` -/
def parseNode (g : Guards) (s : Schema) (b : Bytes) : R Node := fromBytes g s (budget s b) s.envelope b

/-- `SuitEnvelopeTagged.from_cbor(b).to_obj()` -/
def parse (g : Guards) (s : Schema) (b : Bytes) : R Obj := (parseNode g s b).map toObj

end SuitVerif.Decode
