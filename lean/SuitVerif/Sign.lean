import SuitVerif.Cbor
/-! L3: model of `ncs/sign_script.py` (`Signer.sign_envelope`), `suit_generator/cmd_sign.py` (single-level and
recursive signing) and the glue of `ncs/basic_kms.py` (key/algorithm match, fixed-width r||s).

The envelope is handled as the generic CBOR value `cbor2.load` returns; the signature primitive is a parameter
`signFn` (key name → algorithm → message → signature or refusal), so every theorem holds for all of them. -/
namespace SuitVerif.Sign
open SuitVerif

inductive Err where
  | signerError        -- already signed and action = error
  | notImplemented     -- action = append
  | valueError         -- key refused / missing; dependency missing, not bytes, not an envelope
  | internal (k : String)   -- malformed envelope (TypeError / KeyError / IndexError in the script)
  deriving Repr, BEq, DecidableEq

abbrev R := Except Err

inductive Alg where | es256 | es384 | es521 | eddsa | hashEddsa
  deriving Repr, BEq, DecidableEq

/-- `SuitCoseSignAlgorithms` -/
def Alg.cose : Alg → Int
  | .es256 => -7 | .es384 => -35 | .es521 => -36 | .eddsa => -8 | .hashEddsa => -65537

/-- `SuitSignAlgorithms` value handed to the KMS -/
def Alg.kmsName : Alg → String
  | .es256 => "es-256" | .es384 => "es-384" | .es521 => "es-521" | .eddsa => "eddsa" | .hashEddsa => "hash-eddsa"

inductive Action where | error | removeOld | skip | append
  deriving Repr, BEq, DecidableEq

inductive KeyType where | p256 | p384 | p521 | ed25519 | ed448
  deriving Repr, BEq, DecidableEq

/-- `_verify_signing_key_type` -/
def keyMatches : KeyType → Alg → Bool
  | .p256, .es256 => true
  | .p384, .es384 => true
  | .p521, .es521 => true
  | .ed25519, .eddsa => true | .ed25519, .hashEddsa => true
  | .ed448, .eddsa => true | .ed448, .hashEddsa => true
  | _, _ => false

/-- raw ECDSA signature: r and s as big-endian integers of `w = ceil(key_size/8)` bytes each (`none`: OverflowError) -/
def rsEncode (w r s : Nat) : Option Bytes :=
  if r < 256 ^ w ∧ s < 256 ^ w then some (beBytes w r ++ beBytes w s) else none

def mapSet (m : List (Cbor × Cbor)) (k v : Cbor) : List (Cbor × Cbor) :=
  if m.any (fun e => e.1 == k) then m.map (fun e => if e.1 == k then (e.1, v) else e) else m ++ [(k, v)]

/-- protected header `{1: alg, 4: bstr(cbor(key id))}` -/
def protectedMap (alg : Alg) (keyId : Int) : Cbor :=
  .map [(.uint 1, Cbor.ofInt alg.cose), (.uint 4, .bstr (enc (Cbor.ofInt keyId)))]

/-- COSE Sig_structure `["Signature1", protected, h'', digest]`, serialised -/
def sigStructure (protectedBytes : Bytes) (digest : Cbor) : Bytes :=
  enc (.arr [Cbor.text "Signature1", .bstr protectedBytes, .bstr [], .bstr (enc digest)])

/-- the authentication block: tag 18 `[protected bstr, {}, nil, signature]` -/
def authBlock (protectedBytes sig : Bytes) : Cbor :=
  .tag 18 (.arr [.bstr protectedBytes, .map [], Cbor.null, .bstr sig])

/-- is this element of the authentication wrapper a COSE_Sign1 block? (`cbor2.loads(auth)` is a tag 18) -/
def isSign1 (x : Cbor) : Option Bool :=
  match x with
  | .bstr b => match loads b with
    | some (.tag 18 _) => some true
    | some _ => some false
    | none => none                      -- CBORDecodeError escapes
  | _ => some false                     -- "not bytes: continue"

/-- remove the first element equal to `x` (`list.remove`) -/
def removeFirst (x : Cbor) : List Cbor → List Cbor
  | [] => []
  | y :: ys => if y == x then ys else y :: removeFirst x ys

/-- first COSE_Sign1 block among the wrapper's elements: `some none` = none present; `none` = a decode error -/
def firstSign1 : List Cbor → Option (Option Cbor)
  | [] => some none
  | x :: xs => match isSign1 x with
    | none => none
    | some true => some (some x)
    | some false => firstSign1 xs

/-- the wrapper list of an envelope map -/
def wrapperList (m : List (Cbor × Cbor)) : R (List Cbor) :=
  match Cbor.lookup (.uint 2) m with
  | some (.bstr ab) => match loads ab with
    | some (.arr xs) => .ok xs
    | some _ => .error (.internal "TypeError")
    | none => .error (.internal "CBORDecodeError")
  | some _ => .error (.internal "TypeError")
  | none => .error (.internal "KeyError")

/-- build the Sig_structure from the envelope's digest, obtain the signature, append the block (`add_signature`) -/
def attach (signFn : Bytes → Option Bytes) (t : Nat) (m1 : List (Cbor × Cbor)) (alg : Alg) (keyId : Int) : R Cbor := do
  let prot := enc (protectedMap alg keyId)
  let blocks1 ← wrapperList m1
  let digest ← match blocks1 with
    | .bstr d :: _ => (match loads d with | some x => pure x | none => .error (.internal "CBORDecodeError"))
    | _ :: _ => .error (.internal "TypeError")
    | [] => .error (.internal "IndexError")
  match signFn (sigStructure prot digest) with
  | none => .error .valueError
  | some sig =>
    pure (.tag t (.map (mapSet m1 (.uint 2) (.bstr (enc (.arr (blocks1 ++ [.bstr (enc (authBlock prot sig))])))))))

/-- `Signer.sign_envelope`: `signFn msg` returns the signature for the Sig_structure `msg` or refuses -/
def signEnvelope (signFn : Bytes → Option Bytes) (env : Cbor) (alg : Alg) (keyId : Int) (action : Action) : R Cbor :=
  match env with
  | .tag t (.map m) => do
    let blocks ← wrapperList m
    match firstSign1 blocks with
    | none => .error (.internal "CBORDecodeError")
    | some none => attach signFn t m alg keyId
    | some (some old) => match action with
      | .error => .error .signerError
      | .append => .error .notImplemented
      | .skip => pure env
      | .removeOld => attach signFn t (mapSet m (.uint 2) (.bstr (enc (.arr (removeFirst old blocks))))) alg keyId
  | _ => .error (.internal "AttributeError")

/-- `cmd_sign` single-level on file bytes: load, sign, dump (`none` = the file is not CBOR) -/
def signFile (signFn : Bytes → Option Bytes) (file : Bytes) (alg : Alg) (keyId : Int) (action : Action) : R Bytes :=
  match loads file with
  | none => .error (.internal "CBORDecodeError")
  | some env => (signEnvelope signFn env alg keyId action).map enc

/-! ### recursive signing -/

/-- one node of the configuration JSON, after the inheritance rules of `RecursiveSigner.__init__` -/
inductive Cfg where
  | mk (omitSig : Bool) (keyName : Option String) (keyId : Option Int) (alg : Option Alg) (action : Option Action)
       (deps : List (String × Cfg))

/-- `_load_dependency` -/
def loadDependency (m : List (Cbor × Cbor)) (name : String) : R Cbor :=
  match Cbor.lookup (Cbor.text name) m with
  | none => .error .valueError
  | some (.bstr b) => match loads b with
    | none => .error .valueError
    | some (.tag 107 (.map mm)) => .ok (.tag 107 (.map mm))       -- an envelope: tag 107 of a map (anything else is refused)
    | some _ => .error .valueError
  | some _ => .error .valueError

mutual
/-- `RecursiveSigner.__init__` for the whole tree: every node's key requirements and every named dependency are
checked (against the envelope as loaded) before anything is signed -/
def checkTree : Nat → Cbor → Cfg → R Unit
  | 0, _, _ => .error (.internal "fuel")
  | fuel + 1, env, .mk omitSig keyName keyId _ _ deps =>
    if !omitSig && keyName.isNone then .error .valueError
    else if !omitSig && keyId.isNone then .error .valueError
    else match env with
      | .tag _ (.map m) => checkDeps fuel m deps
      | _ => if deps.isEmpty then .ok () else .error (.internal "AttributeError")
def checkDeps : Nat → List (Cbor × Cbor) → List (String × Cfg) → R Unit
  | 0, _, _ => .error (.internal "fuel")
  | _ + 1, _, [] => .ok ()
  | fuel + 1, m, (name, cfg) :: rest => do
    let dep ← loadDependency m name
    checkTree fuel dep cfg
    checkDeps fuel m rest
end

mutual
/-- `RecursiveSigner.__init__` checks (performed for the whole tree before anything is signed), then
`recursive_sign`: dependencies first, re-embedded under the same name, then this level unless omitted.
`signFn keyName alg msg`. `inherited` is the algorithm handed down by the parent (default EdDSA). -/
def recursiveSign (signFn : String → Alg → Bytes → Option Bytes) : Nat → Cbor → Cfg → Alg → R Cbor
  | 0, _, _, _ => .error (.internal "fuel")
  | fuel + 1, env, .mk omitSig keyName keyId alg action deps, inherited =>
    if !omitSig && keyName.isNone then .error .valueError
    else if !omitSig && keyId.isNone then .error .valueError
    else
      let a := alg.getD inherited
      match env with
      | .tag t (.map m) => do
        let m' ← signDeps signFn fuel m m deps a
        let env' := Cbor.tag t (.map m')
        if omitSig then pure env'
        else signEnvelope (signFn (keyName.getD "") a) env' a (keyId.getD 0) (action.getD .error)
      | _ => if deps.isEmpty then
               (if omitSig then pure env
                else signEnvelope (signFn (keyName.getD "") a) env a (keyId.getD 0) (action.getD .error))
             else .error (.internal "AttributeError")
/-- dependencies are loaded from the *original* map `m0`, results are written into `m` -/
def signDeps (signFn : String → Alg → Bytes → Option Bytes) : Nat → List (Cbor × Cbor) → List (Cbor × Cbor)
    → List (String × Cfg) → Alg → R (List (Cbor × Cbor))
  | 0, _, _, _, _ => .error (.internal "fuel")
  | _ + 1, _, m, [], _ => .ok m
  | fuel + 1, m0, m, (name, cfg) :: rest, a => do
    let dep ← loadDependency m0 name
    let signed ← recursiveSign signFn fuel dep cfg a
    signDeps signFn fuel m0 (mapSet m (Cbor.text name) (.bstr (enc signed))) rest a
end

mutual
def Cfg.size : Cfg → Nat
  | .mk _ _ _ _ _ deps => 1 + Cfg.sizeDeps deps
def Cfg.sizeDeps : List (String × Cfg) → Nat
  | [] => 0
  | (_, c) :: rest => 1 + c.size + Cfg.sizeDeps rest
end

/-- `cmd_sign recursive` on file bytes: load, build the signer tree (all checks), sign bottom-up, dump -/
def recursiveSignFile (signFn : String → Alg → Bytes → Option Bytes) (file : Bytes) (cfg : Cfg) : R Bytes :=
  match loads file with
  | none => .error (.internal "CBORDecodeError")
  | some env => do
    checkTree (2 * cfg.size + 2) env cfg
    let out ← recursiveSign signFn (2 * cfg.size + 2) env cfg .eddsa
    pure (enc out)

end SuitVerif.Sign
