import SuitVerif.Decode
import SuitVerif.Uuid
import SuitVerif.Version
/-! L2, encode side: `from_obj` of every node kind and special class, the digest updates of
`SuitBasicEnvelopeOperationsMixin`, and `create` (= `prepare_suit_data` / `return_processed_binary_data`).

External behaviour enters as parameters of `Ctx` (every theorem is proved for all of them):
the file system, the digest functions by algorithm name, SHA-1 (for `uuid.uuid5`) and `json.loads`. -/
namespace SuitVerif.Encode
open SuitVerif SuitVerif.Py SuitVerif.Decode

structure Ctx where
  schema : Schema
  guards : Guards
  fs : String → Option Bytes                 -- file content by path (`none`: no such file)
  hashFn : String → Bytes → Bytes            -- digest function by algorithm *name*
  sha1 : Bytes → Bytes
  jsonLoads : String → Option Obj            -- `json.loads` (`none`: JSONDecodeError, a ValueError)

/-- `SuitHash(name).hash(data)`: `none` when the name is not in `SuitHash._hash_func` (ValueError) -/
def Ctx.hash (cx : Ctx) (alg : String) (data : Bytes) : Option Bytes :=
  if cx.schema.hashes.any (fun e => e.1 == alg) then some (cx.hashFn alg data) else none

/-- `binascii.a2b_hex` on a description value: must be `str`, even length, hex digits -/
def hexOfObj (o : Obj) : R Bytes :=
  match o with
  | .str s => match ofHex s with
    | some b => .ok b
    | none => .error .valueError
  | _ => .error .valueError

def isHexDigit (c : Char) : Bool := (hexVal c).isSome

def isWs (c : Char) : Bool := c = ' ' ∨ c = '\n' ∨ c = '\t' ∨ c = '\r' ∨ c.toNat = 11 ∨ c.toNat = 12

/-- `bytes.fromhex`: like `a2b_hex` but ASCII white space between byte pairs is skipped -/
def fromHexLoose (s : String) : Option Bytes :=
  let rec go : Nat → List Char → Option Bytes
    | 0, _ => none
    | _+1, [] => some []
    | fuel+1, c :: rest =>
      if isWs c then go fuel rest
      else match rest with
        | d :: rest' => match hexVal c, hexVal d with
          | some x, some y => (go fuel rest').map (UInt8.ofNat (x * 16 + y) :: ·)
          | _, _ => none
        | [] => none
  go (s.length + 1) s.toList

/-- `int(text)` for ASCII decimal text with optional surrounding white space and sign (`none`: ValueError) -/
def intOfText (b : Bytes) : Option Int :=
  match strOf b with
  | none => none
  | some s =>
    let cs := (s.toList.dropWhile isWs).reverse.dropWhile isWs |>.reverse
    let (neg, ds) := match cs with
      | '-' :: r => (true, r)
      | '+' :: r => (false, r)
      | r => (false, r)
    if Version.isNumeric ds then
      let n : Int := Version.digitsToNat ds
      some (if neg then -n else n)
    else none

def scalarOk (ty : Ty) (o : Obj) : Bool :=
  match ty, o with
  | _, .null => true
  | .uint, .int n => 0 ≤ n
  | .uint, .bool _ => true
  | .int, .int _ => true
  | .int, .bool _ => true
  | .bool, .bool _ => true
  | .tstr, .str _ => true
  | _, _ => false

def scalarVal (o : Obj) : Cbor :=
  match o with
  | .null => Cbor.null
  | .bool b => Cbor.bool b
  | .int n => Cbor.ofInt n
  | .str s => Cbor.text s
  | _ => Cbor.null

/-- `SuitUUID.from_obj` -/
def uuidFromObj (cx : Ctx) (o : Obj) : R Node :=
  match o with
  | .dict kvs =>
    match Obj.get? "RFC4122_UUID" kvs with
    | some (.dict u) =>
      match Obj.get? "name" u with
      | none => .error .valueError
      | some (.str name) =>
        match Obj.get? "namespace" u with
        | some (.str ns) => .ok (.leaf (.bstr (Uuid.uuid5 cx.sha1 (Uuid.uuid5 cx.sha1 Uuid.namespaceDNS (utf8 ns)) (utf8 name))) .rawHex)
        | none => .ok (.leaf (.bstr (Uuid.uuid5 cx.sha1 Uuid.namespaceDNS (utf8 name))) .rawHex)
        | some _ => .error (.internal "TypeError")
      | some _ => .error (.internal "TypeError")
    | some (.str name) => .ok (.leaf (.bstr (Uuid.uuid5 cx.sha1 Uuid.namespaceDNS (utf8 name))) .rawHex)
    | some _ => .error (.internal "TypeError")
    | none =>
      match Obj.get? "raw" kvs with
      | some r => do
        let b ← hexOfObj r
        pure (.leaf (.bstr b) .rawHex)
      | none => .error .valueError
  | _ => .error .valueError

/-- non-recursive kinds of `from_obj` -/
def leafFromObj (cx : Ctx) (ty : Ty) (o : Obj) : Option (R Node) :=
  match ty with
  | .uint | .int | .bool | .null | .tstr =>
      some (if scalarOk ty o then .ok (.leaf (scalarVal o) .plain) else .error .valueError)
  | .bstr | .hex => some (do
      let b ← hexOfObj o
      pure (.leaf (.bstr b) .hex))
  | .rawBstr => some (do
      let b ← hexOfObj o
      pure (.leaf (.bstr b) .rawHex))
  | .emptyBstr => some (do
      let _ ← hexOfObj o
      pure .emptyRaw)
  | .bchar => some (match o with
      | .null => .ok (.leaf Cbor.null .plain)
      | .str s => if s.length = 1 then .ok (.bchar s) else .error .valueError
      | _ => .error .valueError)
  | .enum es => some (match o with
      | .null => .ok (.leaf Cbor.null .plain)       -- accepted by `__init__`; `to_cbor` then fails (outside the domain)
      | .str s => match es.find? (fun e => e.1 == s) with
        | some e => .ok (.enumv e.1 e.2)
        | none => .error .valueError
      | _ => .error .valueError)
  | .uuid => some (uuidFromObj cx o)
  | .encInfoExt => some (match o with
      | .dict kvs =>
        let raw : R Bytes := match Obj.get? "raw" kvs with
          | some (.str h) => (match fromHexLoose h with | some b => .ok b | none => .error .valueError)
          | some _ => .error (.internal "TypeError")
          | none => match Obj.get? "file" kvs with
            | some (.str p) => (match cx.fs p with | some b => .ok b | none => .error .osError)
            | some _ => .error (.internal "TypeError")
            | none => .error .valueError
        do
          let b ← raw
          let v ← deser b
          match v with
          | .bstr inner => pure (.leaf (.bstr inner) .hex)
          | _ => if isNone v then pure (.leaf v .hex) else .error .valueError
      | _ => .error .valueError)
  | _ => none

/-! ### navigation in the envelope tree (attribute paths of `SuitBasicEnvelopeOperationsMixin`) -/

def kvGet (es : List (KvKey × Node)) (id : Int) : Option Node := (es.find? (fun e => e.1.id == id && !e.1.merge)).map (·.2)

def kvReplace (es : List (KvKey × Node)) (id : Int) (n : Node) : List (KvKey × Node) :=
  es.map (fun e => if e.1.id == id && !e.1.merge then (e.1, n) else e)

/-- strip `cbstr` and union layers: the object an attribute chain `.value` / `.SuitX` ends at -/
def peel : Node → Node
  | .wrapped n => peel n
  | .alt _ _ n => peel n
  | n => n

/-- replace the innermost node under `cbstr` / union layers -/
def repeel (f : Node → Node) : Node → Node
  | .wrapped n => .wrapped (repeel f n)
  | .alt i c n => .alt i c (repeel f n)
  | n => f n

/-- a digest node `[alg, bytes]` (under any wrappers): its algorithm name -/
def digestAlg (n : Node) : Option String :=
  match peel n with
  | .tuple _ (a :: _ :: _) => match peel a with
    | .enumv name _ => some name
    | _ => none
  | _ => none

def setDigestBytes (d : Bytes) (n : Node) : Node :=
  repeel (fun t => match t with
    | .tuple ks (a :: _ :: rest) => .tuple ks (a :: .leaf (.bstr d) .hex :: rest)
    | t => t) n

/-- is the manifest entry a *digest* (the union alternative is class `SuitDigest`)? -/
def isDigestAlt : Node → Bool
  | .alt _ c _ => c == "SuitDigest"
  | _ => false

def envelopeMap (env : Node) : Option (List (KvKey × Node)) :=
  match env with
  | .tagged _ _ (.kv es) => some es
  | _ => none

def manifestMap (es : List (KvKey × Node)) : Option (List (KvKey × Node)) :=
  match kvGet es 3 with
  | some m => match peel m with
    | .kv mes => some mes
    | _ => none
  | none => none

/-- `update_severable_digests`, one element -/
def updateSeverable1 (cx : Ctx) (env : Node) (key : Int) : R Node :=
  match env with
  | .tagged t name (.kv es) =>
    match kvGet es 3 with
    | none => .error (.internal "KeyError")
    | some m =>
      match peel m with
      | .kv mes =>
        match kvGet mes key with
        | none => .ok env
        | some entry =>
          if !isDigestAlt entry then .ok env
          else match kvGet es key with
            | none => .ok env                                   -- severed element absent: skipped
            | some sev =>
              match digestAlg entry with
              | none => .error (.internal "AttributeError")
              | some alg =>
                match cx.hash alg sev.toBytes with
                | none => .error .valueError
                | some d =>
                  let mes' := kvReplace mes key (setDigestBytes d entry)
                  .ok (.tagged t name (.kv (kvReplace es 3 (repeel (fun _ => .kv mes') m))))
      | _ => .error (.internal "AttributeError")
  | _ => .error (.internal "AttributeError")

/-- order used by the code: text, dependency-resolution, payload-fetch, candidate-verification, install, install-legacy -/
def severableKeys : List Int := [23, 15, 16, 18, 20, 17]

def updateSeverable (cx : Ctx) (env : Node) : R Node :=
  severableKeys.foldlM (fun e k => updateSeverable1 cx e k) env

/-- the authentication wrapper's digest node (first element of the wrapper tuple) -/
def authDigest (es : List (KvKey × Node)) : Option Node :=
  match kvGet es 2 with
  | some a => match peel a with
    | .tuple _ (d :: _) => some d
    | _ => none
  | none => none

/-- `get_manifest_digest(alg)`: hash of `envelope[suit-manifest].to_cbor()`, the wrapped manifest bytes -/
def manifestDigest (cx : Ctx) (es : List (KvKey × Node)) (alg : String) : R Bytes :=
  match kvGet es 3 with
  | none => .error (.internal "KeyError")
  | some m => match cx.hash alg m.toBytes with
    | some d => .ok d
    | none => .error .valueError

/-- `update_digest` -/
def updateDigest (cx : Ctx) (env : Node) : R Node :=
  match env with
  | .tagged t name (.kv es) =>
    match kvGet es 2 with
    | none => .error (.internal "KeyError")
    | some a =>
      match authDigest es with
      | none => .error (.internal "AttributeError")
      | some d =>
        match digestAlg d with
        | none => .error (.internal "AttributeError")
        | some alg => do
          let h ← manifestDigest cx es alg
          let a' := repeel (fun tpl => match tpl with
            | .tuple ks (d0 :: rest) => .tuple ks (setDigestBytes h d0 :: rest)
            | x => x) a
          pure (.tagged t name (.kv (kvReplace es 2 a')))
  | _ => .error (.internal "AttributeError")

/-- digest of a (parsed or built) sub-envelope as `SuitDigestExt` computes it -/
def subEnvelopeDigest (cx : Ctx) (env : Node) (alg : String) : R Bytes := do
  let e1 ← updateSeverable cx env
  let e2 ← updateDigest cx e1
  match envelopeMap e2 with
  | some es => manifestDigest cx es alg
  | none => .error (.internal "AttributeError")

def payloadAllHex (o : Obj) : Option Bool :=
  match o with
  | .str s => some (s.toList.all isHexDigit)
  | .dict kvs => some (kvs.isEmpty)            -- `all(key in hexdigits …)` over the keys: only an empty dict passes
  | .list xs => if xs.isEmpty then some true else none
  | _ => none                                   -- not iterable / iterating non-strings: TypeError

mutual
def fromObj (cx : Ctx) : Nat → Cls → Obj → R Node
  | 0, _, _ => .error .fuel
  | fuel+1, c, o =>
    match cx.schema.ty c with
    | none => .error (.model "schema")
    | some ty =>
      match leafFromObj cx ty o with
      | some r => r
      | none =>
        match ty with
        | .cbstr inner => do
            let n ← fromObj cx fuel inner o
            pure (.wrapped n)
        | .union alts => fromObjAlts cx fuel alts 0 o
        | .headerMapOptional m e =>
            match o with
            | .dict [] => do
                let n ← fromObj cx fuel e (.str "")
                pure (.alt 1 (cx.schema.name e) n)
            | .dict _ => do
                let n ← fromObj cx fuel m o
                pure (.alt 0 (cx.schema.name m) n)
            | .str "" => do
                let n ← fromObj cx fuel e (.str "")
                pure (.alt 1 (cx.schema.name e) n)
            | _ => .error .valueError
        | .tag t name child =>
            match o with
            | .dict kvs => match Obj.get? name kvs with
              | some x => do
                  let n ← fromObj cx fuel child x
                  pure (.tagged t name n)
              | none => .error .valueError
            | _ => .error .valueError
        | .list child group =>
            match o with
            | .list xs => do
                let ns ← fromObjList cx fuel child xs
                pure (.list group.isSome ns)
            | .dict kvs => do                                   -- iterating a dict yields its keys
                let ns ← fromObjList cx fuel child (kvs.map (fun e => Obj.str e.1))
                pure (.list group.isSome ns)
            | .str s => do                                      -- iterating a str yields its characters
                let ns ← fromObjList cx fuel child (s.toList.map (fun ch => Obj.str (String.singleton ch)))
                pure (.list group.isSome ns)
            | _ => .error (.internal "TypeError")
        | .version child =>
            match o with
            | .str s =>
              match Version.parseVersion s.toList with
              | none => .error .valueError
              | some parts => do
                  let ns ← fromObjList cx fuel child (parts.map Obj.int)
                  pure (.list false ns)
            | .list xs => do
                let ns ← fromObjList cx fuel child xs
                pure (.list false ns)
            | .dict kvs => do
                let ns ← fromObjList cx fuel child (kvs.map (fun e => Obj.str e.1))
                pure (.list false ns)
            | _ => .error (.internal "TypeError")
        | .bitfield bit _ =>
            match o with
            | .list xs => do
                let ns ← fromObjList cx fuel bit xs
                pure (.bits ns)
            | _ => .error .valueError
        | .tupleNamed es =>
            match o with
            | .dict kvs => do
                let ns ← fromObjTuple cx fuel es kvs
                pure (.tuple (es.map (·.1)) ns)
            | _ => .error .valueError
        | .keyValue es _ =>
            match o with
            | .dict kvs => do
                let r ← fromObjKv cx fuel es kvs []
                pure (.kv r)
            | _ => .error .valueError
        | .keyValueTuple es =>
            match o with
            | .dict kvs => do
                let r ← fromObjKv cx fuel es kvs []
                pure (.kvTuple r)
            | _ => .error .valueError
        | .keyValueUnnamed es =>
            match o with
            | .dict kvs => do
                let r ← fromObjKvu cx fuel es kvs []
                pure (.kvu r)
            | _ => .error (.internal "AttributeError")
        | .payloadMap kc vc =>
            match o with
            | .dict kvs => do
                let r ← fromObjPayloads cx fuel kc vc kvs []
                pure (.kvu r)
            | _ => .error (.internal "AttributeError")
        | .imageSize =>
            match o with
            | .dict kvs =>
              let mk (x : Obj) : R Node := if scalarOk .uint x then .ok (.leaf (scalarVal x) .rawInt) else .error .valueError
              match Obj.get? "raw" kvs with
              | some x => mk x
              | none =>
                match Obj.get? "file" kvs with
                | some (.str p) => (match cx.fs p with
                    | some b => mk (.int b.length)
                    | none => .error .osError)
                | some _ => .error (.internal "TypeError")
                | none =>
                  match Obj.get? "envelope" kvs with
                  | some (.dict e) => do
                      let b ← create cx fuel (.dict e)
                      mk (.int b.length)
                  | some (.str p) => (match cx.fs p with
                      | some b => mk (.int b.length)
                      | none => .error .osError)
                  | some _ => .error (.internal "TypeError")
                  | none =>
                    match Obj.get? "file_direct" kvs with
                    | some (.str p) => (match cx.fs p with
                        | some b => (match intOfText b with
                            | some n => mk (.int n)
                            | none => .error .valueError)
                        | none => .error .osError)
                    | some _ => .error (.internal "TypeError")
                    | none => .error .valueError
            | _ => .error .valueError
        | .digestExt raw =>
            match o with
            | .dict kvs =>
              match Obj.get? "suit-digest-algorithm-id" kvs with
              | none => .error .valueError
              | some algObj =>
                let withBytes (hexStr : Obj) : R Node :=
                  fromObj cx fuel raw (.dict (kvs.map (fun e => if e.1 = "suit-digest-bytes" then (e.1, hexStr) else e)))
                match Obj.get? "suit-digest-bytes" kvs with
                | none => fromObj cx fuel raw (.dict (kvs ++ [("suit-digest-bytes", .str "")]))
                | some (.dict dd) =>
                  let algName : Option String := match algObj with | .str a => some a | _ => none
                  match Obj.get? "file" dd with
                  | some (.str p) =>
                    (match algName with
                     | none => .error .valueError
                     | some a => match cx.hash a [] with
                       | none => .error .valueError                     -- SuitHash(name) rejects before the file is opened
                       | some _ => match cx.fs p with
                         | none => .error .osError
                         | some b => match cx.hash a b with
                           | some d => withBytes (.str (toHex d))
                           | none => .error .valueError)
                  | some _ => .error (.internal "TypeError")
                  | none =>
                    match Obj.get? "envelope" dd with
                    | some (.dict e) => do
                        let node ← fromObj cx fuel cx.schema.envelope (.dict e)
                        (match algName with
                         | none => .error .valueError
                         | some a => do
                           let d ← subEnvelopeDigest cx node a
                           withBytes (.str (toHex d)))
                    | some (.str p) =>
                      (match cx.fs p with
                       | none => .error .osError
                       | some b => do
                         let node ← fromBytes cx.guards cx.schema (budget cx.schema b) cx.schema.envelope b
                         match algName with
                         | none => .error .valueError
                         | some a => do
                           let d ← subEnvelopeDigest cx node a
                           withBytes (.str (toHex d)))
                    | some _ => .error (.internal "TypeError")
                    | none =>
                      match Obj.get? "raw" dd with
                      | some r => withBytes r
                      | none =>
                        match Obj.get? "file_direct" dd with
                        | some (.str p) => (match cx.fs p with
                            | none => .error .osError
                            | some b => withBytes (.str (toHex b)))
                        | some _ => .error (.internal "TypeError")
                        | none => .error .valueError
                | some _ => fromObj cx fuel raw o
            | _ => .error .valueError
        | _ => .error (.model "unmodelled-class")

def fromObjAlts (cx : Ctx) : Nat → List Cls → Nat → Obj → R Node
  | 0, _, _, _ => .error .fuel
  | _+1, [], _, _ => .error .valueError
  | fuel+1, c :: cs, i, o =>
    match fromObj cx fuel c o with
    | .ok n => .ok (.alt i (cx.schema.name c) n)
    | .error .valueError => fromObjAlts cx fuel cs (i + 1) o
    | .error e => .error e

def fromObjList (cx : Ctx) : Nat → Cls → List Obj → R (List Node)
  | 0, _, _ => .error .fuel
  | _+1, _, [] => .ok []
  | fuel+1, c, x :: xs => do
    let n ← fromObj cx fuel c x
    let ns ← fromObjList cx fuel c xs
    pure (n :: ns)

/-- `SuitTupleNamed.from_obj`: fields in metadata order; a `name*` field collects every key with the prefix -/
def fromObjTuple (cx : Ctx) : Nat → List (String × Cls) → List (String × Obj) → R (List Node)
  | 0, _, _ => .error .fuel
  | _+1, [], _ => .ok []
  | fuel+1, (k, c) :: es, kvs =>
    match Obj.get? k kvs with
    | some x => do
      let n ← fromObj cx fuel c x
      let more ← fromObjTuple cx fuel es kvs
      pure (n :: more)
    | none =>
      if k.endsWith "*" then do
        let pre := replaceStar k ""
        let ns ← fromObjList cx fuel c ((kvs.filter (fun e => e.1.startsWith pre)).map (·.2))
        let more ← fromObjTuple cx fuel es kvs
        pure (ns ++ more)
      else .error .valueError

/-- `SuitKeyValue.from_obj` -/
def fromObjKv (cx : Ctx) : Nat → List Entry → List (String × Obj) → List (KvKey × Node) → R (List (KvKey × Node))
  | 0, _, _, _ => .error .fuel
  | _+1, _, [], acc => .ok acc
  | fuel+1, es, (k, x) :: rest, acc =>
    match es.find? (fun e => e.name == k) with
    | none => .error .valueError
    | some e => do
      let n ← fromObj cx fuel e.cls x
      fromObjKv cx fuel es rest (kvSet acc (entryKey e) n)

/-- `SuitKeyValueUnnamed.from_obj` -/
def fromObjKvu (cx : Ctx) : Nat → List (Cls × Cls) → List (String × Obj) → List (String × Node × Node)
    → R (List (String × Node × Node))
  | 0, _, _, _ => .error .fuel
  | _+1, _, [], acc => .ok acc
  | fuel+1, es, (k, x) :: rest, acc => do
    let (kn, vn) ← fromObjKvuAlts cx fuel es k x
    fromObjKvu cx fuel es rest (strSet acc k (kn, vn))

def fromObjKvuAlts (cx : Ctx) : Nat → List (Cls × Cls) → String → Obj → R (Node × Node)
  | 0, _, _, _ => .error .fuel
  | _+1, [], _, _ => .error .valueError
  | fuel+1, (kc, vc) :: es, k, x =>
    let keyR : R Node :=
      match cx.jsonLoads k with
      | some j => (match fromObj cx fuel kc j with
          | .ok n => .ok n
          | .error .valueError => fromObj cx fuel kc (.str k)
          | .error e => .error e)
      | none => fromObj cx fuel kc (.str k)
    match keyR with
    | .ok kn =>
      match fromObj cx fuel vc x with
      | .ok vn => .ok (kn, vn)
      | .error .valueError => fromObjKvuAlts cx fuel es k x
      | .error e => .error e
    | .error .valueError => fromObjKvuAlts cx fuel es k x
    | .error e => .error e

/-- `SuitIntegratedPayloadMap.from_obj`: hex text, inline envelope description, or file path (tested in that order) -/
def fromObjPayloads (cx : Ctx) : Nat → Cls → Cls → List (String × Obj) → List (String × Node × Node)
    → R (List (String × Node × Node))
  | 0, _, _, _, _ => .error .fuel
  | _+1, _, _, [], acc => .ok acc
  | fuel+1, kc, vc, (k, x) :: rest, acc =>
    match payloadAllHex x with
    | none => .error (.internal "TypeError")
    | some isHex =>
      let dataR : R Obj :=
        if isHex then .ok x
        else match x with
          | .dict _ => do
              let b ← create cx fuel x
              pure (.str (toHexU b))
          | .str p => (match cx.fs p with
              | some b => .ok (.str (toHexU b))
              | none => .error .valueError)
          | _ => .error (.internal "TypeError")
      match dataR with
      | .error e => .error e
      | .ok data =>
        match fromObj cx fuel kc (.str k) with
        | .ok kn =>
          (match fromObj cx fuel vc data with
           | .ok vn => fromObjPayloads cx fuel kc vc rest (strSet acc k (kn, vn))
           | .error e => .error e)
        | .error e => .error e

/-- `SuitEnvelopeTagged.return_processed_binary_data(dict)` = `prepare_suit_data`:
`from_obj`, `update_severable_digests`, `update_digest`, `to_cbor` -/
def create (cx : Ctx) : Nat → Obj → R Bytes
  | 0, _ => .error .fuel
  | fuel+1, o => do
    let n ← fromObj cx fuel cx.schema.envelope o
    let n1 ← updateSeverable cx n
    let n2 ← updateDigest cx n1
    pure n2.toBytes
end

def objBudget (s : Schema) (o : Obj) : Nat := (o.size + 2) * (s.classes.length + 4) + 16

/-- the CLI / library entry point: create the envelope for a description -/
def createTop (cx : Ctx) (o : Obj) : R Bytes := create cx (objBudget cx.schema o) o

end SuitVerif.Encode
