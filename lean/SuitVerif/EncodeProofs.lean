import SuitVerif.Encode
/-! Node-level facts about the digest updates of `create` (C01, C05): what `update_digest` and
`update_severable_digests` leave in the tree that is then serialised. -/
namespace SuitVerif.Encode
open SuitVerif SuitVerif.Py SuitVerif.Decode

/-- the digest bytes stored in a digest node `[alg, bytes]` (under any wrappers) -/
def digestBytes (n : Node) : Option Bytes :=
  match peel n with
  | .tuple _ (_ :: b :: _) => match peel b with
    | .leaf (.bstr d) _ => some d
    | _ => none
  | _ => none

/-- "core" nodes: not a `cbstr` or union layer -/
def isCore : Node → Bool
  | .wrapped _ => false
  | .alt _ _ _ => false
  | _ => true

theorem peel_core (n : Node) (h : isCore n = true) : peel n = n := by
  cases n <;> simp_all [peel, isCore]

theorem peel_isCore : (n : Node) → isCore (peel n) = true
  | .wrapped n => by simpa [peel] using peel_isCore n
  | .alt _ _ n => by simpa [peel] using peel_isCore n
  | .leaf .. | .bchar .. | .emptyRaw | .enumv .. | .bits .. | .kv .. | .kvTuple .. | .kvu .. | .tuple .. | .list ..
  | .tagged .. => by simp [peel, isCore]

theorem peel_repeel (f : Node → Node) (hf : ∀ x, isCore x = true → isCore (f x) = true) :
    (n : Node) → peel (repeel f n) = f (peel n)
  | .wrapped n => by simpa [peel, repeel] using peel_repeel f hf n
  | .alt _ _ n => by simpa [peel, repeel] using peel_repeel f hf n
  | .leaf .. | .bchar .. | .emptyRaw | .enumv .. | .bits .. | .kv .. | .kvTuple .. | .kvu .. | .tuple .. | .list ..
  | .tagged .. => by simp only [repeel, peel]; exact peel_core _ (hf _ (by simp [isCore]))

def setBytesCore (d : Bytes) : Node → Node
  | .tuple ks (a :: _ :: rest) => .tuple ks (a :: .leaf (.bstr d) .hex :: rest)
  | t => t

theorem setBytesCore_core (d : Bytes) (x : Node) (h : isCore x = true) : isCore (setBytesCore d x) = true := by
  unfold setBytesCore; split <;> simp_all [isCore]

theorem setDigestBytes_eq (d : Bytes) (n : Node) : setDigestBytes d n = repeel (setBytesCore d) n := by
  unfold setDigestBytes
  congr

/-- after `setDigestBytes`, a digest node that had an algorithm keeps it and holds exactly the new bytes -/
theorem setDigestBytes_spec (d : Bytes) (n : Node) (alg : String) (h : digestAlg n = some alg) :
    digestAlg (setDigestBytes d n) = some alg ∧ digestBytes (setDigestBytes d n) = some d := by
  rw [setDigestBytes_eq]
  unfold digestAlg digestBytes at *
  rw [peel_repeel _ (setBytesCore_core d)]
  generalize peel n = core at *
  cases core with
  | tuple ks vals =>
    match vals, h with
    | a :: b :: rest, h =>
      simp only [setBytesCore]
      exact ⟨h, by simp [peel]⟩
  | _ => simp_all

theorem kvGet_kvReplace_same (es : List (KvKey × Node)) (id : Int) (n : Node) (h : (kvGet es id).isSome) :
    kvGet (kvReplace es id n) id = some n := by
  induction es with
  | nil => simp [kvGet] at h
  | cons e rest ih =>
    simp only [kvGet, kvReplace, List.map_cons, List.find?]
    by_cases hc : (e.1.id == id && !e.1.merge) = true
    · simp [hc]
    · simp only [Bool.not_eq_true] at hc
      simp only [hc, Bool.false_eq_true, if_false]
      have : (kvGet rest id).isSome := by
        simp only [kvGet, List.find?, hc] at h
        exact h
      exact ih this

theorem kvGet_kvReplace_other (es : List (KvKey × Node)) (id id' : Int) (n : Node) (hne : id ≠ id') :
    kvGet (kvReplace es id n) id' = kvGet es id' := by
  induction es with
  | nil => simp [kvGet, kvReplace]
  | cons e rest ih =>
    simp only [kvGet, kvReplace, List.map_cons, List.find?] at *
    by_cases hc : (e.1.id == id && !e.1.merge) = true
    · have hid : e.1.id = id := by
        simp only [Bool.and_eq_true, beq_iff_eq] at hc; exact hc.1
      have hc' : (e.1.id == id' && !e.1.merge) = false := by
        have : (e.1.id == id') = false := by
          simp only [beq_eq_false_iff_ne, ne_eq]; rw [hid]; exact hne
        simp [this]
      simp only [hc, if_true, hc']
      exact ih
    · simp only [hc, if_false, Bool.false_eq_true]
      split
      · rfl
      · exact ih

/-- **update_digest, node level.** If it succeeds, the tree it returns holds, in the authentication wrapper's
digest node, the declared algorithm and exactly `hash alg (manifest.to_cbor())` of the manifest *of that same tree*;
the manifest entry itself is untouched. -/
theorem updateDigest_spec (cx : Ctx) (env env' : Node) (h : updateDigest cx env = .ok env') :
    ∃ t name es es' m d' alg hd,
      env = .tagged t name (.kv es) ∧ env' = .tagged t name (.kv es')
      ∧ kvGet es' 3 = kvGet es 3 ∧ kvGet es' 3 = some m
      ∧ authDigest es' = some d' ∧ digestAlg d' = some alg
      ∧ cx.hash alg m.toBytes = some hd ∧ digestBytes d' = some hd := by
  unfold updateDigest at h
  split at h
  · rename_i t name es
    split at h
    · cases h
    · rename_i a ha
      split at h
      · cases h
      · rename_i d hd
        split at h
        · cases h
        · rename_i alg halg
          cases hm : manifestDigest cx es alg with
          | error e => simp [hm, bind, Except.bind] at h
          | ok hbytes =>
            simp only [hm, bind, Except.bind, pure, Except.pure, Except.ok.injEq] at h
            -- the manifest entry
            unfold manifestDigest at hm
            split at hm
            · cases hm
            · rename_i m hmget
              split at hm
              · rename_i dd hdd
                simp only [Except.ok.injEq] at hm
                subst hm
                -- shape of the wrapper
                unfold authDigest at hd
                rw [ha] at hd
                simp only at hd
                generalize hcore : peel a = core at hd
                cases core with
                | tuple ks vals =>
                  match vals, hd with
                  | d0 :: rest, hd =>
                    simp only [Option.some.injEq] at hd
                    subst hd
                    let f : Node → Node := fun tpl => match tpl with
                      | .tuple ks (d0 :: rest) => .tuple ks (setDigestBytes dd d0 :: rest)
                      | x => x
                    have hfcore : ∀ x, isCore x = true → isCore (f x) = true := by
                      intro x hx; simp only [f]; split <;> simp_all [isCore]
                    have hget2 : kvGet (kvReplace es 2 (repeel f a)) 2 = some (repeel f a) :=
                      kvGet_kvReplace_same es 2 _ (by simp [ha])
                    have hget3 : kvGet (kvReplace es 2 (repeel f a)) 3 = kvGet es 3 :=
                      kvGet_kvReplace_other es 2 3 _ (by decide)
                    obtain ⟨s1, s2⟩ := setDigestBytes_spec dd d0 alg halg
                    refine ⟨t, name, es, kvReplace es 2 (repeel f a), m, setDigestBytes dd d0, alg, dd,
                      rfl, h.symm, hget3, by rw [hget3, hmget], ?_, s1, hdd, s2⟩
                    unfold authDigest
                    rw [hget2]
                    simp only
                    rw [peel_repeel f hfcore a, hcore]
                | _ => simp at hd
              · cases hm
  · cases h

/-- `update_digest` replaces the authentication wrapper entry only -/
theorem updateDigest_keeps (cx : Ctx) (env env' : Node) (h : updateDigest cx env = .ok env')
    (t : Nat) (name : String) (es es' : List (KvKey × Node))
    (he : env = .tagged t name (.kv es)) (he' : env' = .tagged t name (.kv es')) (k : Int) (hk : k ≠ 2) :
    kvGet es' k = kvGet es k := by
  subst he
  unfold updateDigest at h
  simp only at h
  split at h
  · cases h
  · split at h
    · cases h
    · split at h
      · cases h
      · rename_i alg _
        cases hm : manifestDigest cx es alg with
        | error e => simp [hm, bind, Except.bind] at h
        | ok hb =>
          simp only [hm, bind, Except.bind, pure, Except.pure, Except.ok.injEq] at h
          rw [he'] at h
          cases h
          exact kvGet_kvReplace_other es 2 k _ (fun e => hk e.symm)

/-- what "severed member `key` is consistent" means in a tree: if the manifest references it by digest and the
envelope holds it, the recorded digest is the declared hash of the member's `to_cbor()` bytes -/
def SevOk (cx : Ctx) (es mes : List (KvKey × Node)) (key : Int) : Prop :=
  ∀ entry sev, kvGet mes key = some entry → isDigestAlt entry = true → kvGet es key = some sev →
    ∃ alg hd, digestAlg entry = some alg ∧ cx.hash alg sev.toBytes = some hd ∧ digestBytes entry = some hd

theorem isDigestAlt_setDigestBytes (d : Bytes) (n : Node) (h : isDigestAlt n = true) :
    isDigestAlt (setDigestBytes d n) = true := by
  cases n <;> simp_all [isDigestAlt, setDigestBytes, repeel]

/-- one step of `update_severable_digests` -/
theorem updateSeverable1_spec (cx : Ctx) (t : Nat) (name : String) (es : List (KvKey × Node)) (key : Int)
    (env' : Node) (hk3 : key ≠ 3) (h : updateSeverable1 cx (.tagged t name (.kv es)) key = .ok env') :
    ∃ es' m mes mes', env' = .tagged t name (.kv es')
      ∧ kvGet es 3 = some m ∧ peel m = .kv mes
      ∧ (∀ id, id ≠ 3 → kvGet es' id = kvGet es id)
      ∧ (∃ m', kvGet es' 3 = some m' ∧ peel m' = .kv mes')
      ∧ (∀ k, k ≠ key → kvGet mes' k = kvGet mes k)
      ∧ SevOk cx es' mes' key := by
  unfold updateSeverable1 at h
  simp only at h
  split at h
  · cases h
  · rename_i m hm
    generalize hcore : peel m = core at h
    cases core with
    | kv mes =>
      simp only at h
      have same : ∀ (hsev : SevOk cx es mes key), env' = .tagged t name (.kv es) →
          ∃ es' m mes0 mes', env' = .tagged t name (.kv es')
            ∧ kvGet es 3 = some m ∧ peel m = .kv mes0
            ∧ (∀ id, id ≠ 3 → kvGet es' id = kvGet es id)
            ∧ (∃ m', kvGet es' 3 = some m' ∧ peel m' = .kv mes')
            ∧ (∀ k, k ≠ key → kvGet mes' k = kvGet mes0 k)
            ∧ SevOk cx es' mes' key := by
        intro hsev he
        exact ⟨es, m, mes, mes, he, hm, hcore, fun _ _ => rfl, ⟨m, hm, hcore⟩, fun _ _ => rfl, hsev⟩
      split at h
      · -- the manifest has no such entry
        rename_i hnone
        simp only [Except.ok.injEq] at h
        exact same (by intro entry sev he; rw [hnone] at he; cases he) h.symm
      · rename_i entry hentry
        split at h
        · -- not a digest reference
          rename_i hnd
          simp only [Except.ok.injEq] at h
          refine same ?_ h.symm
          intro entry' sev he hda
          rw [hentry] at he; cases he
          simp_all
        · rename_i hda
          split at h
          · -- severed member absent
            rename_i hsevnone
            simp only [Except.ok.injEq] at h
            refine same ?_ h.symm
            intro entry' sev _ _ hs
            rw [hsevnone] at hs; cases hs
          · rename_i sev hsev
            split at h
            · cases h
            · rename_i alg halg
              split at h
              · cases h
              · rename_i d hd
                simp only [Except.ok.injEq] at h
                have hcoref : ∀ x, isCore x = true → isCore ((fun (_ : Node) => Node.kv (kvReplace mes key (setDigestBytes d entry))) x) = true := by
                  intro x _; simp [isCore]
                have hget3 : kvGet (kvReplace es 3 (repeel (fun _ => Node.kv (kvReplace mes key (setDigestBytes d entry))) m)) 3
                    = some (repeel (fun _ => Node.kv (kvReplace mes key (setDigestBytes d entry))) m) :=
                  kvGet_kvReplace_same es 3 _ (by simp [hm])
                refine ⟨_, m, mes, kvReplace mes key (setDigestBytes d entry), h.symm, hm, hcore, ?_, ⟨_, hget3, ?_⟩, ?_, ?_⟩
                · intro id hid
                  exact kvGet_kvReplace_other es 3 id _ (fun e => hid e.symm)
                · rw [peel_repeel _ hcoref]
                · intro k hk
                  exact kvGet_kvReplace_other mes key k _ (fun e => hk e.symm)
                · intro entry' sev' he hda' hs
                  have e1 : kvGet (kvReplace mes key (setDigestBytes d entry)) key = some (setDigestBytes d entry) :=
                    kvGet_kvReplace_same mes key _ (by simp [hentry])
                  rw [e1] at he
                  cases he
                  have e2 : kvGet (kvReplace es 3 (repeel (fun _ => Node.kv (kvReplace mes key (setDigestBytes d entry))) m)) key
                      = kvGet es key := kvGet_kvReplace_other es 3 key _ (fun e => hk3 e.symm)
                  rw [e2, hsev] at hs
                  cases hs
                  obtain ⟨s1, s2⟩ := setDigestBytes_spec d entry alg halg
                  exact ⟨alg, d, s1, hd, s2⟩
    | _ => simp at h

theorem SevOk_transport (cx : Ctx) (es es' mes mes' : List (KvKey × Node)) (k : Int) (hk : k ≠ 3)
    (h1 : ∀ id, id ≠ 3 → kvGet es' id = kvGet es id) (h2 : kvGet mes' k = kvGet mes k)
    (h : SevOk cx es mes k) : SevOk cx es' mes' k := by
  intro entry sev he hda hs
  rw [h2] at he
  rw [h1 k hk] at hs
  exact h entry sev he hda hs

/-- invariant of the loop over the severable keys: every key processed so far is consistent -/
def SevInv (cx : Ctx) (es : List (KvKey × Node)) (ks : List Int) : Prop :=
  ks = [] ∨ ∃ m mes, kvGet es 3 = some m ∧ peel m = .kv mes ∧ ∀ k ∈ ks, SevOk cx es mes k

theorem foldSev (cx : Ctx) (t : Nat) (name : String) (keys : List Int) :
    ∀ (es : List (KvKey × Node)) (done : List Int) (env' : Node),
      (∀ k ∈ keys, k ≠ 3) → (∀ k ∈ done, k ≠ 3) → SevInv cx es done →
      keys.foldlM (fun e k => updateSeverable1 cx e k) (.tagged t name (.kv es)) = .ok env' →
      ∃ es', env' = .tagged t name (.kv es') ∧ (∀ id, id ≠ 3 → kvGet es' id = kvGet es id)
        ∧ SevInv cx es' (done ++ keys) := by
  induction keys with
  | nil =>
    intro es done env' _ _ hinv h
    simp only [List.foldlM, pure, Except.pure, Except.ok.injEq] at h
    exact ⟨es, h.symm, fun _ _ => rfl, by simpa using hinv⟩
  | cons key rest ih =>
    intro es done env' hk hd hinv h
    simp only [List.foldlM, bind, Except.bind] at h
    cases h1 : updateSeverable1 cx (.tagged t name (.kv es)) key with
    | error e => simp [h1] at h
    | ok env1 =>
      simp only [h1] at h
      have hk3 : key ≠ 3 := hk key (by simp)
      obtain ⟨es1, m, mes, mes1, henv1, hm, hmes, hother, ⟨m1, hm1, hmes1⟩, hmk, hsev⟩ :=
        updateSeverable1_spec cx t name es key env1 hk3 h1
      subst henv1
      have hinv1 : SevInv cx es1 (done ++ [key]) := by
        right
        refine ⟨m1, mes1, hm1, hmes1, ?_⟩
        intro k hkmem
        rcases List.mem_append.mp hkmem with hdone | hkey
        · rcases hinv with hnil | ⟨m0, mes0, hm0, hmes0, hall⟩
          · subst hnil; simp at hdone
          · have : m0 = m := by rw [hm0] at hm; exact Option.some.inj hm
            subst this
            have : mes0 = mes := by rw [hmes0] at hmes; cases hmes; rfl
            subst this
            by_cases hkk : k = key
            · subst hkk; exact hsev
            · exact SevOk_transport cx es es1 mes0 mes1 k (hd k hdone) hother (hmk k hkk) (hall k hdone)
        · simp only [List.mem_singleton] at hkey
          subst hkey; exact hsev
      obtain ⟨es', he', hother', hinv'⟩ := ih es1 (done ++ [key]) env'
        (fun k hk' => hk k (by simp [hk']))
        (by intro k hk'; rcases List.mem_append.mp hk' with h' | h'
            · exact hd k h'
            · simp only [List.mem_singleton] at h'; subst h'; exact hk3)
        hinv1 h
      refine ⟨es', he', ?_, by simpa [List.append_assoc] using hinv'⟩
      intro id hid
      rw [hother' id hid, hother id hid]

/-- **update_severable_digests, node level.** -/
theorem updateSeverable_spec (cx : Ctx) (t : Nat) (name : String) (es : List (KvKey × Node)) (env' : Node)
    (h : updateSeverable cx (.tagged t name (.kv es)) = .ok env') :
    ∃ es' m mes, env' = .tagged t name (.kv es') ∧ (∀ id, id ≠ 3 → kvGet es' id = kvGet es id)
      ∧ kvGet es' 3 = some m ∧ peel m = .kv mes ∧ ∀ k ∈ severableKeys, SevOk cx es' mes k := by
  unfold updateSeverable at h
  obtain ⟨es', he, hother, hinv⟩ := foldSev cx t name severableKeys es [] env' (by decide) (by simp) (Or.inl rfl) h
  rcases hinv with hnil | ⟨m, mes, hm, hmes, hall⟩
  · simp [severableKeys] at hnil
  · exact ⟨es', m, mes, he, hother, hm, hmes, by simpa using hall⟩

/-- the digests of a serialised tree are consistent: root and every severed member -/
def DigestsOk (cx : Ctx) (n : Node) : Prop :=
  ∃ t name es m mes d alg hd,
    n = .tagged t name (.kv es) ∧ kvGet es 3 = some m ∧ peel m = .kv mes
    ∧ authDigest es = some d ∧ digestAlg d = some alg ∧ cx.hash alg m.toBytes = some hd ∧ digestBytes d = some hd
    ∧ ∀ k ∈ severableKeys, SevOk cx es mes k

/-- **create, node level (C01).** Whatever `create` serialises is a tree whose authentication-wrapper digest is
the declared hash of the manifest's `to_cbor()` bytes *of that tree*, and whose digest references to severed
members that are present equal the declared hash of those members' `to_cbor()` bytes - whatever the description
supplied for these fields.  For every schema, file system, hash function, description. -/
theorem create_digests (cx : Ctx) (fuel : Nat) (o : Obj) (out : Bytes) (h : create cx fuel o = .ok out) :
    ∃ n, out = n.toBytes ∧ DigestsOk cx n := by
  cases fuel with
  | zero => simp [create] at h
  | succ fuel =>
    unfold create at h
    cases h0 : fromObj cx fuel cx.schema.envelope o with
    | error e => simp [h0, bind, Except.bind] at h
    | ok n0 =>
      simp only [h0, bind, Except.bind] at h
      cases h1 : updateSeverable cx n0 with
      | error e => simp [h1] at h
      | ok n1 =>
        simp only [h1] at h
        cases h2 : updateDigest cx n1 with
        | error e => simp [h2] at h
        | ok n2 =>
          simp only [h2, pure, Except.pure, Except.ok.injEq] at h
          obtain ⟨t, name, es1, es2, m, d', alg, hd, hn1, hn2, h33, hm2, hauth, halg, hhash, hbytes⟩ :=
            updateDigest_spec cx n1 n2 h2
          -- n0 has the envelope shape as well: updateSeverable only succeeds on it
          have hn0 : ∃ es0, n0 = .tagged t name (.kv es0) := by
            unfold updateSeverable at h1
            simp only [severableKeys, List.foldlM, bind, Except.bind] at h1
            cases hs : updateSeverable1 cx n0 23 with
            | error e => simp [hs] at h1
            | ok x =>
              unfold updateSeverable1 at hs
              split at hs
              · rename_i t0 name0 es0
                -- shapes are preserved through the loop: reuse the general lemma
                have := updateSeverable_spec cx t0 name0 es0 n1 (by
                  unfold updateSeverable
                  simp only [severableKeys, List.foldlM, bind, Except.bind]
                  exact h1)
                obtain ⟨es', _, _, he, _⟩ := this
                rw [hn1] at he
                cases he
                exact ⟨es0, rfl⟩
              · cases hs
          obtain ⟨es0, hn0⟩ := hn0
          subst hn0
          obtain ⟨es1', m1, mes1, he1, hother1, hm1, hmes1, hall1⟩ := updateSeverable_spec cx t name es0 n1 h1
          rw [hn1] at he1
          cases he1
          -- update_digest replaced entry 2 only; all other entries (3 and the severed members) are the same objects
          have hm2' : kvGet es2 3 = some m1 := by rw [h33, hm1]
          have hmm : m = m1 := by rw [hm2] at hm2'; exact Option.some.inj hm2'
          subst hmm
          refine ⟨n2, h.symm, t, name, es2, m, mes1, d', alg, hd, hn2, hm2, hmes1, hauth, halg, hhash, hbytes, ?_⟩
          intro k hk entry sev he hda hs
          -- entries other than 2 are unchanged by update_digest
          have hk2 : k ≠ 2 := by
            simp only [severableKeys, List.mem_cons, List.mem_nil_iff, or_false] at hk
            rcases hk with h | h | h | h | h | h <;> subst h <;> decide
          have hsame : kvGet es2 k = kvGet es1 k := by
            have := updateDigest_keeps cx n1 n2 h2 t name es1 es2 hn1 hn2 k hk2
            exact this
          rw [hsame] at hs
          exact hall1 k hk entry sev he hda hs

end SuitVerif.Encode
