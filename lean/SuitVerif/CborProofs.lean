import SuitVerif.Cbor
/-! Proofs about L1: decoder/encoder round trip in both modes, soundness of the strict decoder
(`dec true` accepts only `enc c ++ rest`), prefix-freeness and injectivity of `enc`. -/
namespace SuitVerif

theorem u8_toNat_ofNat {x : Nat} (h : x < 256) : (UInt8.ofNat x).toNat = x := by
  simp [UInt8.toNat_ofNat']; omega

/-- the width-w branch of `head`, as a reusable fact -/
theorem decHead_wide (strict : Bool) (major n w ai : Nat) (rest : Bytes) (hm : major < 8)
    (hai : ai = 24 ∨ ai = 25 ∨ ai = 26 ∨ ai = 27)
    (hw : aiWidth ai = w)
    (hn : n < 256 ^ w)
    (hh : head major n = UInt8.ofNat (major * 32 + ai) :: beBytes w n) :
    decHead strict (head major n ++ rest) = some (major, n, rest) := by
  rw [hh]
  simp only [List.cons_append, decHead]
  have h1 : (UInt8.ofNat (major * 32 + ai)).toNat = major * 32 + ai := u8_toNat_ofNat (by omega)
  have h3 : (major * 32 + ai) % 32 = ai := by omega
  have h2 : (major * 32 + ai) / 32 = major := by omega
  have hl : (beBytes w n).length = w := beBytes_length _ _
  have hwpos : w ≠ 0 := by
    rcases hai with h | h | h | h <;> subst h <;> simp [aiWidth] at hw <;> omega
  have ho : ofBe (beBytes w n) = n := ofBe_beBytes w n hn
  have hai24 : ¬ ai < 24 := by omega
  have htake : List.take w (beBytes w n ++ rest) = beBytes w n := by
    rw [List.take_append_of_le_length (by omega)]; exact List.take_of_length_le (by omega)
  have hdrop : List.drop w (beBytes w n ++ rest) = rest := by
    rw [List.drop_append_of_le_length (by omega)]
    simp [List.drop_of_length_le (Nat.le_of_eq hl)]
  have hlen : ¬ (beBytes w n ++ rest).length < w := by simp [hl]
  rw [h1, h2, h3, hw]
  simp only [hai24, if_false, hwpos, hlen, htake, hdrop, ho, hh, beq_self_eq_true, Bool.not_true,
    Bool.and_false, Bool.false_eq_true]

theorem decHead_head (strict : Bool) (major n : Nat) (rest : Bytes) (hm : major < 8) (hn : n < 2 ^ 64) :
    decHead strict (head major n ++ rest) = some (major, n, rest) := by
  by_cases h24 : n < 24
  · have hh : head major n = [UInt8.ofNat (major * 32 + n)] := by simp [head, h24]
    rw [hh]
    simp only [List.cons_append, List.nil_append, decHead]
    have h1 : (UInt8.ofNat (major * 32 + n)).toNat = major * 32 + n := u8_toNat_ofNat (by omega)
    have : (major * 32 + n) % 32 = n := by omega
    have h2 : (major * 32 + n) / 32 = major := by omega
    rw [h1, this, h2]
    simp only [h24, if_true]
  · by_cases h256 : n < 256
    · exact decHead_wide strict major n 1 24 rest hm (by simp) (by simp [aiWidth]) (by simpa using h256)
        (by simp [head, h24, h256])
    · by_cases h65536 : n < 65536
      · exact decHead_wide strict major n 2 25 rest hm (by simp) (by simp [aiWidth]) (by simpa using h65536)
          (by simp [head, h24, h256, h65536])
      · by_cases h32 : n < 4294967296
        · exact decHead_wide strict major n 4 26 rest hm (by simp) (by simp [aiWidth]) (by simpa using h32)
            (by simp [head, h24, h256, h65536, h32])
        · exact decHead_wide strict major n 8 27 rest hm (by simp) (by simp [aiWidth]) (by simpa using hn)
            (by simp [head, h24, h256, h65536, h32])

mutual
theorem dec_enc (strict : Bool) (c : Cbor) (rest : Bytes) (fuel : Nat) (hw : c.wf = true)
    (hf : c.depth ≤ fuel) : dec strict fuel (enc c ++ rest) = some (c, rest) := by
  cases fuel with
  | zero => cases c <;> simp [Cbor.depth] at hf
  | succ fuel =>
    cases c with
    | uint n =>
      simp only [Cbor.wf, decide_eq_true_eq] at hw
      simp [enc, dec, decHead_head strict 0 n rest (by decide) hw]
    | nint n =>
      simp only [Cbor.wf, decide_eq_true_eq] at hw
      simp [enc, dec, decHead_head strict 1 n rest (by decide) hw]
    | bstr b =>
      simp only [Cbor.wf, decide_eq_true_eq] at hw
      simp [enc, dec, List.append_assoc, decHead_head strict 2 b.length (b ++ rest) (by decide) hw]
    | tstr b =>
      simp only [Cbor.wf, decide_eq_true_eq] at hw
      simp [enc, dec, List.append_assoc, decHead_head strict 3 b.length (b ++ rest) (by decide) hw]
    | arr xs =>
      simp only [Cbor.wf, Bool.and_eq_true, decide_eq_true_eq] at hw
      simp only [Cbor.depth] at hf
      simp [enc, dec, List.append_assoc, decHead_head strict 4 xs.length (encList xs ++ rest) (by decide) hw.1,
        decList_enc strict xs rest fuel hw.2 (by omega)]
    | map kvs =>
      simp only [Cbor.wf, Bool.and_eq_true, decide_eq_true_eq] at hw
      simp only [Cbor.depth] at hf
      simp [enc, dec, List.append_assoc, decHead_head strict 5 kvs.length (encPairs kvs ++ rest) (by decide) hw.1,
        decPairs_enc strict kvs rest fuel hw.2 (by omega)]
    | tag t v =>
      simp only [Cbor.wf, Bool.and_eq_true, decide_eq_true_eq] at hw
      simp only [Cbor.depth] at hf
      simp [enc, dec, List.append_assoc, decHead_head strict 6 t (enc v ++ rest) (by decide) hw.1,
        dec_enc strict v rest fuel hw.2 (by omega)]
    | simple n =>
      simp only [Cbor.wf, decide_eq_true_eq] at hw
      simp [enc, dec, decHead_head strict 7 n rest (by decide) (by omega), hw]
theorem decList_enc (strict : Bool) (xs : List Cbor) (rest : Bytes) (fuel : Nat) (hw : wfList xs = true)
    (hf : depthList xs ≤ fuel) :
    decList strict fuel xs.length (encList xs ++ rest) = some (xs, rest) := by
  cases fuel with
  | zero => cases xs <;> simp [depthList] at hf
  | succ fuel =>
    cases xs with
    | nil => simp [decList, encList]
    | cons x xs =>
      simp only [wfList, Bool.and_eq_true] at hw
      simp only [depthList] at hf
      simp [decList, encList, List.append_assoc, dec_enc strict x (encList xs ++ rest) fuel hw.1 (by omega),
        decList_enc strict xs rest fuel hw.2 (by omega)]
theorem decPairs_enc (strict : Bool) (xs : List (Cbor × Cbor)) (rest : Bytes) (fuel : Nat) (hw : wfPairs xs = true)
    (hf : depthPairs xs ≤ fuel) :
    decPairs strict fuel xs.length (encPairs xs ++ rest) = some (xs, rest) := by
  cases fuel with
  | zero => cases xs <;> simp [depthPairs] at hf
  | succ fuel =>
    cases xs with
    | nil => simp [decPairs, encPairs]
    | cons x xs =>
      obtain ⟨k, v⟩ := x
      simp only [wfPairs, Bool.and_eq_true] at hw
      simp only [depthPairs] at hf
      simp [decPairs, encPairs, List.append_assoc,
        dec_enc strict k (enc v ++ (encPairs xs ++ rest)) fuel hw.1.1 (by omega),
        dec_enc strict v (encPairs xs ++ rest) fuel hw.1.2 (by omega),
        decPairs_enc strict xs rest fuel hw.2 (by omega)]
end

/-! ### soundness of the strict decoder -/

theorem decHead_strict_sound (bs : Bytes) (major n : Nat) (rest : Bytes)
    (h : decHead true bs = some (major, n, rest)) : bs = head major n ++ rest ∧ major < 8 := by
  cases bs with
  | nil => simp [decHead] at h
  | cons b tl =>
    simp only [decHead] at h
    have hb : b.toNat < 256 := b.toNat_lt
    split at h
    · rename_i hai
      simp only [Option.some.injEq, Prod.mk.injEq] at h
      obtain ⟨h1, h2, h3⟩ := h
      subst h1 h2 h3
      refine ⟨?_, by omega⟩
      have : head (b.toNat / 32) (b.toNat % 32) = [b] := by
        simp only [head, hai, if_true]
        have : b.toNat / 32 * 32 + b.toNat % 32 = b.toNat := by omega
        rw [this]; simp
      simp [this]
    · split at h
      · simp at h
      · split at h
        · simp at h
        · split at h
          · simp at h
          · rename_i hstrict
            simp only [Option.some.injEq, Prod.mk.injEq] at h
            obtain ⟨h1, h2, h3⟩ := h
            subst h1 h2 h3
            refine ⟨?_, by omega⟩
            have hs : head (b.toNat / 32) (ofBe (List.take (aiWidth (b.toNat % 32)) tl))
                = b :: List.take (aiWidth (b.toNat % 32)) tl := by
              simpa using hstrict
            rw [hs]
            simp [List.take_append_drop]

theorem take_drop_eq (n : Nat) (l : Bytes) : l = l.take n ++ l.drop n := (List.take_append_drop n l).symm

mutual
theorem dec_strict_sound (fuel : Nat) (bs : Bytes) (c : Cbor) (r : Bytes)
    (h : dec true fuel bs = some (c, r)) : bs = enc c ++ r := by
  cases fuel with
  | zero => simp [dec] at h
  | succ fuel =>
    simp only [dec] at h
    cases hh : decHead true bs with
    | none => simp [hh] at h
    | some t =>
      obtain ⟨major, n, rest⟩ := t
      obtain ⟨hbs, hm⟩ := decHead_strict_sound bs major n rest hh
      simp only [hh] at h
      subst hbs
      split at h
      · simp only [Option.some.injEq, Prod.mk.injEq] at h
        obtain ⟨h1, h2⟩ := h; subst h1 h2; simp [enc]
      · simp only [Option.some.injEq, Prod.mk.injEq] at h
        obtain ⟨h1, h2⟩ := h; subst h1 h2; simp [enc]
      · split at h
        · simp at h
        · rename_i hlen
          simp only [Option.some.injEq, Prod.mk.injEq] at h
          obtain ⟨h1, h2⟩ := h; subst h1 h2
          have : (List.take n rest).length = n := by simp; omega
          simp [enc, this, List.append_assoc]
      · split at h
        · simp at h
        · rename_i hlen
          simp only [Option.some.injEq, Prod.mk.injEq] at h
          obtain ⟨h1, h2⟩ := h; subst h1 h2
          have : (List.take n rest).length = n := by simp; omega
          simp [enc, this, List.append_assoc]
      · cases hl : decList true fuel n rest with
        | none => simp [hl] at h
        | some p =>
          obtain ⟨xs, r'⟩ := p
          simp only [hl, Option.some.injEq, Prod.mk.injEq] at h
          obtain ⟨h1, h2⟩ := h; subst h1 h2
          obtain ⟨e1, e2⟩ := decList_strict_sound fuel n rest xs r' hl
          simp [enc, e1, e2, List.append_assoc]
      · cases hl : decPairs true fuel n rest with
        | none => simp [hl] at h
        | some p =>
          obtain ⟨xs, r'⟩ := p
          simp only [hl, Option.some.injEq, Prod.mk.injEq] at h
          obtain ⟨h1, h2⟩ := h; subst h1 h2
          obtain ⟨e1, e2⟩ := decPairs_strict_sound fuel n rest xs r' hl
          simp [enc, e1, e2, List.append_assoc]
      · cases hl : dec true fuel rest with
        | none => simp [hl] at h
        | some p =>
          obtain ⟨v, r'⟩ := p
          simp only [hl, Option.some.injEq, Prod.mk.injEq] at h
          obtain ⟨h1, h2⟩ := h; subst h1 h2
          have := dec_strict_sound fuel rest v r' hl
          simp [enc, this, List.append_assoc]
      · split at h
        · simp only [Option.some.injEq, Prod.mk.injEq] at h
          obtain ⟨h1, h2⟩ := h; subst h1 h2
          rename_i hne _
          have : major = 7 := by
            rcases Nat.lt_or_ge major 7 with hlt | hge
            · exfalso
              have : major = 0 ∨ major = 1 ∨ major = 2 ∨ major = 3 ∨ major = 4 ∨ major = 5 ∨ major = 6 := by omega
              rcases this with h | h | h | h | h | h | h <;> subst h <;> simp at *
            · omega
          subst this
          simp [enc]
        · simp at h
theorem decList_strict_sound (fuel k : Nat) (bs : Bytes) (xs : List Cbor) (r : Bytes)
    (h : decList true fuel k bs = some (xs, r)) : xs.length = k ∧ bs = encList xs ++ r := by
  cases fuel with
  | zero => simp [decList] at h
  | succ fuel =>
    cases k with
    | zero =>
      simp only [decList, Option.some.injEq, Prod.mk.injEq] at h
      obtain ⟨h1, h2⟩ := h; subst h1 h2; simp [encList]
    | succ k =>
      simp only [decList] at h
      cases hd : dec true fuel bs with
      | none => simp [hd] at h
      | some p =>
        obtain ⟨x, r1⟩ := p
        simp only [hd] at h
        cases hl : decList true fuel k r1 with
        | none => simp [hl] at h
        | some q =>
          obtain ⟨ys, r2⟩ := q
          simp only [hl, Option.some.injEq, Prod.mk.injEq] at h
          obtain ⟨h1, h2⟩ := h; subst h1 h2
          have e1 := dec_strict_sound fuel bs x r1 hd
          obtain ⟨e2, e3⟩ := decList_strict_sound fuel k r1 ys r2 hl
          simp [encList, e1, e2, e3, List.append_assoc]
theorem decPairs_strict_sound (fuel k : Nat) (bs : Bytes) (xs : List (Cbor × Cbor)) (r : Bytes)
    (h : decPairs true fuel k bs = some (xs, r)) : xs.length = k ∧ bs = encPairs xs ++ r := by
  cases fuel with
  | zero => simp [decPairs] at h
  | succ fuel =>
    cases k with
    | zero =>
      simp only [decPairs, Option.some.injEq, Prod.mk.injEq] at h
      obtain ⟨h1, h2⟩ := h; subst h1 h2; simp [encPairs]
    | succ k =>
      simp only [decPairs] at h
      cases hd : dec true fuel bs with
      | none => simp [hd] at h
      | some p =>
        obtain ⟨x, r1⟩ := p
        simp only [hd] at h
        cases hd2 : dec true fuel r1 with
        | none => simp [hd2] at h
        | some p2 =>
          obtain ⟨y, r2⟩ := p2
          simp only [hd2] at h
          cases hl : decPairs true fuel k r2 with
          | none => simp [hl] at h
          | some q =>
            obtain ⟨ys, r3⟩ := q
            simp only [hl, Option.some.injEq, Prod.mk.injEq] at h
            obtain ⟨h1, h2⟩ := h; subst h1 h2
            have e1 := dec_strict_sound fuel bs x r1 hd
            have e1' := dec_strict_sound fuel r1 y r2 hd2
            obtain ⟨e2, e3⟩ := decPairs_strict_sound fuel k r2 ys r3 hl
            simp [encPairs, e1, e1', e2, e3, List.append_assoc]
end

/-- The whole-input strict decoder accepts exactly encodings: `decodeStrict b = some c → b = enc c`. -/
theorem decodeStrict_sound (b : Bytes) (c : Cbor) (h : decodeStrict b = some c) : b = enc c := by
  unfold decodeStrict at h
  split at h
  · rename_i c' heq
    simp only [Option.some.injEq] at h; subst h
    simpa using dec_strict_sound _ _ _ _ heq
  · simp at h

theorem head_length_pos (m n : Nat) : 1 ≤ (head m n).length := by
  unfold head; split <;> (try split) <;> (try split) <;> (try split) <;> simp

mutual
theorem depth_le (c : Cbor) : c.depth ≤ 2 * (enc c).length ∧ 1 ≤ (enc c).length := by
  cases c with
  | uint n => have := head_length_pos 0 n; simp [Cbor.depth, enc]; omega
  | nint n => have := head_length_pos 1 n; simp [Cbor.depth, enc]; omega
  | bstr b => have := head_length_pos 2 b.length; simp [Cbor.depth, enc]; omega
  | tstr b => have := head_length_pos 3 b.length; simp [Cbor.depth, enc]; omega
  | simple n => have := head_length_pos 7 n; simp [Cbor.depth, enc]; omega
  | arr xs =>
    have := head_length_pos 4 xs.length
    have := depthList_le xs
    simp [Cbor.depth, enc]; omega
  | map kvs =>
    have := head_length_pos 5 kvs.length
    have := depthPairs_le kvs
    simp [Cbor.depth, enc]; omega
  | tag t v =>
    have := head_length_pos 6 t
    have := depth_le v
    simp [Cbor.depth, enc]; omega
theorem depthList_le (xs : List Cbor) : depthList xs ≤ 2 * (encList xs).length + 1 := by
  cases xs with
  | nil => simp [depthList, encList]
  | cons x xs =>
    have := depth_le x
    have := depthList_le xs
    simp [depthList, encList]; omega
theorem depthPairs_le (xs : List (Cbor × Cbor)) : depthPairs xs ≤ 2 * (encPairs xs).length + 1 := by
  cases xs with
  | nil => simp [depthPairs, encPairs]
  | cons x xs =>
    obtain ⟨k, v⟩ := x
    have := depth_le k
    have := depth_le v
    have := depthPairs_le xs
    simp [depthPairs, encPairs]; omega
end

/-- completeness of the whole-input strict decoder on encoder output -/
theorem decodeStrict_enc (c : Cbor) (hw : c.wf = true) : decodeStrict (enc c) = some c := by
  unfold decodeStrict
  have hd := (depth_le c).1
  have := dec_enc true c [] (fuelFor (enc c)) hw (by unfold fuelFor; omega)
  simp only [List.append_nil] at this
  simp [this]

/-- `cbor2.loads (cbor2.dumps v) = v` on the modelled subset, with trailing bytes ignored -/
theorem loads_enc (c : Cbor) (rest : Bytes) (hw : c.wf = true) : loads (enc c ++ rest) = some c := by
  unfold loads
  have hd := (depth_le c).1
  have := dec_enc false c rest (fuelFor (enc c ++ rest)) hw (by unfold fuelFor; simp; omega)
  simp [this]

/-- `enc` is injective on well-formed values -/
theorem enc_injective (a b : Cbor) (ha : a.wf = true) (hb : b.wf = true) (h : enc a = enc b) : a = b := by
  have h1 := decodeStrict_enc a ha
  have h2 := decodeStrict_enc b hb
  rw [h] at h1
  simpa [h1] using h2

/-- no encoding is a proper prefix of another (well-formed) encoding -/
theorem enc_prefix_free (a b : Cbor) (r s : Bytes) (ha : a.wf = true) (hb : b.wf = true)
    (h : enc a ++ r = enc b ++ s) : a = b ∧ r = s := by
  generalize hF : (enc a ++ r).length * 2 + 2 + (enc b ++ s).length * 2 = F
  have da := dec_enc false a r F ha (by have := (depth_le a).1; simp at hF; omega)
  have db := dec_enc false b s F hb (by have := (depth_le b).1; simp at hF; omega)
  rw [h] at da
  rw [da] at db
  simpa using db

end SuitVerif
