import SuitVerif.RoundTrip
/-! Compositional read-back lemmas for C03: `Reads g s c b n` says that the decoder of class `c`, given the bytes `b`,
builds exactly the node `n` (for every sufficient recursion budget).  The scalar kinds are covered by `Props/C03`; here
are the inductive steps for the containers that involve no trial decoding: byte-string wrapping, tags, homogeneous lists and
`[code, argument]` pairs.  Each step feeds the child exactly what the Python hands it (`ensure_cbor` of the decoded item). -/
namespace SuitVerif.ReadsBack
open SuitVerif SuitVerif.Py SuitVerif.Decode SuitVerif.RoundTrip

def Reads (g : Guards) (s : Schema) (c : Cls) (b : Bytes) (n : Node) : Prop :=
  ∃ f0, ∀ fuel, f0 ≤ fuel → fromBytes g s fuel c b = .ok n

/-- a byte-string-wrapped member: the wrapper class reads the content with the inner class -/
theorem reads_wrapped {g : Guards} {s : Schema} {c inner : Cls} {b : Bytes} {n : Node}
    (hty : s.ty c = some (.cbstr inner)) (h : Reads g s inner b n) : Reads g s c b (.wrapped n) := by
  obtain ⟨f0, hf⟩ := h
  refine ⟨f0 + 1, fun fuel hfuel => ?_⟩
  obtain ⟨k, rfl⟩ : ∃ k, fuel = k + 1 := ⟨fuel - 1, by omega⟩
  simp only [fromBytes, hty, leafFrom, hf k (by omega), bind, Except.bind, pure, Except.pure]

/-- a tagged item -/
theorem reads_tagged {g : Guards} {s : Schema} {c child : Cls} {t : Nat} {name : String} {v : Cbor} {n : Node}
    (hty : s.ty c = some (.tag t name child)) (hw : (Cbor.tag t v).wf = true) (hn : norm v = some v)
    (h : Reads g s child (enc v) n) : Reads g s c (enc (.tag t v)) (.tagged t name n) := by
  obtain ⟨f0, hf⟩ := h
  refine ⟨f0 + 1, fun fuel hfuel => ?_⟩
  obtain ⟨k, rfl⟩ : ∃ k, fuel = k + 1 := ⟨fuel - 1, by omega⟩
  have hd : deser (enc (.tag t v)) = .ok (.tag t v) := deser_enc _ hw (by simp [norm, hn])
  simp only [fromBytes, hty, leafFrom, hd, hf k (by omega), bind, Except.bind, pure, Except.pure, if_true]

/-- the elements of a list, one after the other, each from `ensure_cbor` of its item -/
theorem fromList_reads {g : Guards} {s : Schema} {child : Cls} (xs : List Node)
    (h : ∀ x ∈ xs, Reads g s child (ensure x.toVal) x) :
    ∃ f0, ∀ fuel, f0 ≤ fuel → fromList g s fuel child (valList xs) = .ok xs := by
  induction xs with
  | nil => exact ⟨1, fun fuel hf => by
      obtain ⟨k, rfl⟩ : ∃ k, fuel = k + 1 := ⟨fuel - 1, by omega⟩
      simp [valList, fromList]⟩
  | cons x xs ih =>
    obtain ⟨f1, h1⟩ := h x (by simp)
    obtain ⟨f2, h2⟩ := ih (fun y hy => h y (by simp [hy]))
    refine ⟨max f1 f2 + 1, fun fuel hf => ?_⟩
    obtain ⟨k, rfl⟩ : ∃ k, fuel = k + 1 := ⟨fuel - 1, by omega⟩
    simp only [valList, fromList, h1 k (by omega), h2 k (by omega), bind, Except.bind, pure, Except.pure]

/-- a homogeneous list (no grouping) -/
theorem reads_list {g : Guards} {s : Schema} {c child : Cls} (xs : List Node)
    (hty : s.ty c = some (.list child none))
    (hw : (Cbor.arr (valList xs)).wf = true) (hn : norm (.arr (valList xs)) = some (.arr (valList xs)))
    (h : ∀ x ∈ xs, Reads g s child (ensure x.toVal) x) :
    Reads g s c (enc (.arr (valList xs))) (.list false xs) := by
  obtain ⟨f0, hf⟩ := fromList_reads xs h
  refine ⟨f0 + 1, fun fuel hfuel => ?_⟩
  obtain ⟨k, rfl⟩ : ∃ k, fuel = k + 1 := ⟨fuel - 1, by omega⟩
  simp only [fromBytes, hty, leafFrom, deser_enc _ hw hn, hf k (by omega), bind, Except.bind, pure, Except.pure,
    Option.isSome_none]

/-- a `[code, argument]` pair (conditions, directives, version comparisons): the code selects the entry, the entry's class
reads the argument -/
theorem reads_kvTuple {g : Guards} {s : Schema} {c : Cls} {es : List Entry} (e : Entry) (x : Node)
    (hty : s.ty c = some (.keyValueTuple es))
    (hl : lookupId es (Cbor.ofInt e.id) = some e)
    (hw : (Cbor.arr [Cbor.ofInt e.id, x.toVal]).wf = true)
    (hn : norm (.arr [Cbor.ofInt e.id, x.toVal]) = some (.arr [Cbor.ofInt e.id, x.toVal]))
    (h : Reads g s e.cls (ensure x.toVal) x) :
    Reads g s c (enc (.arr [Cbor.ofInt e.id, x.toVal])) (.kvTuple [(entryKey e, x)]) := by
  obtain ⟨f0, hf⟩ := h
  refine ⟨f0 + 1, fun fuel hfuel => ?_⟩
  obtain ⟨k, rfl⟩ : ∃ k, fuel = k + 1 := ⟨fuel - 1, by omega⟩
  simp only [fromBytes, hty, leafFrom, deser_enc _ hw hn, hl, hf k (by omega), bind, Except.bind, pure, Except.pure]

/-- the encoding of such a pair node is the encoding the lemma above reads -/
theorem kvTuple_toBytes (e : Entry) (x : Node) :
    (Node.kvTuple [(entryKey e, x)]).toBytes = enc (.arr [Cbor.ofInt e.id, x.toVal]) := by
  simp [Node.toBytes, kvFlat, entryKey]

theorem list_toBytes (xs : List Node) : (Node.list false xs).toBytes = enc (.arr (valList xs)) := by
  simp [Node.toBytes]

theorem tagged_toBytes (t : Nat) (name : String) (n : Node) : (Node.tagged t name n).toBytes = enc (.tag t n.toVal) := by
  simp [Node.toBytes]

/-- scalar classes: whatever `leafFrom` answers is the decoder's answer -/
theorem fromBytes_leaf {g : Guards} {s : Schema} {c : Cls} {ty : Ty} {b : Bytes} {r : R Node}
    (hty : s.ty c = some ty) (hl : leafFrom g ty b = some r) (fuel : Nat) : fromBytes g s (fuel + 1) c b = r := by
  simp only [fromBytes, hty, hl]

theorem reads_leaf {g : Guards} {s : Schema} {c : Cls} {ty : Ty} {b : Bytes} {n : Node}
    (hty : s.ty c = some ty) (hl : leafFrom g ty b = some (.ok n)) : Reads g s c b n :=
  ⟨1, fun fuel hf => by
    obtain ⟨k, rfl⟩ : ∃ k, fuel = k + 1 := ⟨fuel - 1, by omega⟩
    exact fromBytes_leaf hty hl k⟩

/-- the fields of a positional structure without a repeating last member, each read by its class -/
inductive Fields (g : Guards) (s : Schema) : List (String × Cls) → List Node → Prop
  | nil : Fields g s [] []
  | cons {k : String} {c : Cls} {v : Node} {es : List (String × Cls)} {vals : List Node} :
      k.endsWith "*" = false → Reads g s c (ensure v.toVal) v → Fields g s es vals → Fields g s ((k, c) :: es) (v :: vals)

theorem fromTuple_reads {g : Guards} {s : Schema} (es : List (String × Cls)) (vals : List Node) (h : Fields g s es vals) :
    ∃ f0, ∀ fuel, f0 ≤ fuel → fromTuple g s fuel es (valList vals) = .ok vals := by
  induction h with
  | nil => exact ⟨1, fun fuel hf => by
      obtain ⟨k, rfl⟩ : ∃ k, fuel = k + 1 := ⟨fuel - 1, by omega⟩
      simp [valList, fromTuple]⟩
  | cons hstar hr _ ih =>
    obtain ⟨f1, h1⟩ := hr
    obtain ⟨f2, h2⟩ := ih
    refine ⟨max f1 f2 + 1, fun fuel hf => ?_⟩
    obtain ⟨k, rfl⟩ : ∃ k, fuel = k + 1 := ⟨fuel - 1, by omega⟩
    simp only [valList, fromTuple, hstar, Bool.false_eq_true, if_false, h1 k (by omega), h2 k (by omega), bind, Except.bind,
      pure, Except.pure]

theorem reads_tuple {g : Guards} {s : Schema} {c : Cls} (es : List (String × Cls)) (vals : List Node)
    (hty : s.ty c = some (.tupleNamed es))
    (hw : (Cbor.arr (valList vals)).wf = true) (hn : norm (.arr (valList vals)) = some (.arr (valList vals)))
    (h : Fields g s es vals) :
    Reads g s c (enc (.arr (valList vals))) (.tuple (es.map (·.1)) vals) := by
  obtain ⟨f0, hf⟩ := fromTuple_reads es vals h
  refine ⟨f0 + 1, fun fuel hfuel => ?_⟩
  obtain ⟨k, rfl⟩ : ∃ k, fuel = k + 1 := ⟨fuel - 1, by omega⟩
  simp only [fromBytes, hty, leafFrom, deser_enc _ hw hn, hf k (by omega), bind, Except.bind, pure, Except.pure]

/-- … followed by a repeating member (`name*`) that occurs zero times (an authentication wrapper without signature blocks) -/
theorem fromTuple_reads_star {g : Guards} {s : Schema} (es : List (String × Cls)) (vals : List Node) (kstar : String) (cstar : Cls)
    (hstar : kstar.endsWith "*" = true) (h : Fields g s es vals) :
    ∃ f0, ∀ fuel, f0 ≤ fuel → fromTuple g s fuel (es ++ [(kstar, cstar)]) (valList vals) = .ok vals := by
  induction h with
  | nil => exact ⟨2, fun fuel hf => by
      obtain ⟨k, rfl⟩ : ∃ k, fuel = k + 2 := ⟨fuel - 2, by omega⟩
      simp [valList, fromTuple, fromStar, hstar, bind, Except.bind, pure, Except.pure]⟩
  | cons hk hr _ ih =>
    obtain ⟨f1, h1⟩ := hr
    obtain ⟨f2, h2⟩ := ih
    refine ⟨max f1 f2 + 1, fun fuel hf => ?_⟩
    obtain ⟨k, rfl⟩ : ∃ k, fuel = k + 1 := ⟨fuel - 1, by omega⟩
    simp only [List.cons_append, valList, fromTuple, hk, Bool.false_eq_true, if_false, h1 k (by omega), h2 k (by omega), bind,
      Except.bind, pure, Except.pure]

theorem reads_tuple_star {g : Guards} {s : Schema} {c : Cls} (es : List (String × Cls)) (vals : List Node) (kstar : String)
    (cstar : Cls) (hty : s.ty c = some (.tupleNamed (es ++ [(kstar, cstar)]))) (hstar : kstar.endsWith "*" = true)
    (hw : (Cbor.arr (valList vals)).wf = true) (hn : norm (.arr (valList vals)) = some (.arr (valList vals)))
    (h : Fields g s es vals) :
    Reads g s c (enc (.arr (valList vals))) (.tuple ((es ++ [(kstar, cstar)]).map (·.1)) vals) := by
  obtain ⟨f0, hf⟩ := fromTuple_reads_star es vals kstar cstar hstar h
  refine ⟨f0 + 1, fun fuel hfuel => ?_⟩
  obtain ⟨k, rfl⟩ : ∃ k, fuel = k + 1 := ⟨fuel - 1, by omega⟩
  simp only [fromBytes, hty, leafFrom, deser_enc _ hw hn, hf k (by omega), bind, Except.bind, pure, Except.pure]

/-- trial decoding: the alternative that built the node is the first one that accepts its bytes -/
def Rejects (g : Guards) (s : Schema) (c : Cls) (b : Bytes) : Prop :=
  ∃ f0, ∀ fuel, f0 ≤ fuel → fromBytes g s fuel c b = .error .valueError

theorem fromAlts_reads {g : Guards} {s : Schema} (pre : List Cls) (ci : Cls) (post : List Cls) (i : Nat) (b : Bytes) (n : Node)
    (hpre : ∀ c' ∈ pre, Rejects g s c' b) (h : Reads g s ci b n) :
    ∃ f0, ∀ fuel, f0 ≤ fuel → fromAlts g s fuel (pre ++ ci :: post) i b = .ok (.alt (i + pre.length) (s.name ci) n) := by
  induction pre generalizing i with
  | nil =>
    obtain ⟨f0, hf⟩ := h
    refine ⟨f0 + 1, fun fuel hfuel => ?_⟩
    obtain ⟨k, rfl⟩ : ∃ k, fuel = k + 1 := ⟨fuel - 1, by omega⟩
    simp only [List.nil_append, fromAlts, hf k (by omega), List.length_nil, Nat.add_zero]
  | cons c' pre ih =>
    obtain ⟨f1, h1⟩ := hpre c' (by simp)
    obtain ⟨f2, h2⟩ := ih (i + 1) (fun x hx => hpre x (by simp [hx]))
    refine ⟨max f1 f2 + 1, fun fuel hfuel => ?_⟩
    obtain ⟨k, rfl⟩ : ∃ k, fuel = k + 1 := ⟨fuel - 1, by omega⟩
    simp only [List.cons_append, fromAlts, h1 k (by omega), h2 k (by omega), List.length_cons]
    congr 2; omega

theorem reads_union {g : Guards} {s : Schema} {c : Cls} (pre : List Cls) (ci : Cls) (post : List Cls) (b : Bytes) (n : Node)
    (hty : s.ty c = some (.union (pre ++ ci :: post)))
    (hpre : ∀ c' ∈ pre, Rejects g s c' b) (h : Reads g s ci b n) :
    Reads g s c b (.alt pre.length (s.name ci) n) := by
  obtain ⟨f0, hf⟩ := fromAlts_reads pre ci post 0 b n hpre h
  refine ⟨f0 + 1, fun fuel hfuel => ?_⟩
  obtain ⟨k, rfl⟩ : ∃ k, fuel = k + 1 := ⟨fuel - 1, by omega⟩
  have := hf k (by omega)
  simp only [Nat.zero_add] at this
  simp only [fromBytes, hty, leafFrom, this]

/-! ### discharging a first-match premise: a digest is never taken for a command sequence

A severable member is a union of (byte-string-wrapped) command sequence and digest, the command sequence first.  The bytes of a
digest `[alg, bytes]` read as a command sequence would be one command with code `alg`; no condition and no directive has such
a code, so the first alternative rejects them. -/
theorem digest_rejected_as_sequence {g : Guards} {s : Schema} (cSeq cL cCmd cCond cDir : Cls) (esC esD : List Entry)
    (a : Int) (b : Bytes)
    (h1 : s.ty cSeq = some (.cbstr cL)) (h2 : s.ty cL = some (.list cCmd (some 2)))
    (h3 : s.ty cCmd = some (.union [cCond, cDir]))
    (h4 : s.ty cCond = some (.keyValueTuple esC)) (h5 : s.ty cDir = some (.keyValueTuple esD))
    (hc : lookupId esC (Cbor.ofInt a) = none) (hd : lookupId esD (Cbor.ofInt a) = none)
    (hw : (Cbor.arr [Cbor.ofInt a, .bstr b]).wf = true) (hn : norm (Cbor.ofInt a) = some (Cbor.ofInt a)) :
    Rejects g s cSeq (enc (.arr [Cbor.ofInt a, .bstr b])) := by
  refine ⟨7, fun fuel hf => ?_⟩
  obtain ⟨k, rfl⟩ : ∃ k, fuel = k + 7 := ⟨fuel - 7, by omega⟩
  have hnorm : norm (.arr [Cbor.ofInt a, .bstr b]) = some (.arr [Cbor.ofInt a, .bstr b]) := by
    simp [norm, normList, hn]
  have hd0 : deser (enc (.arr [Cbor.ofInt a, .bstr b])) = .ok (.arr [Cbor.ofInt a, .bstr b]) := deser_enc _ hw hnorm
  have hcond : fromBytes g s (k + 1 + 1) cCond (enc (.arr [Cbor.ofInt a, .bstr b])) = .error .valueError := by
    simp only [fromBytes, h4, leafFrom, hd0, hc, bind, Except.bind]
  have hdir : fromBytes g s (k + 1) cDir (enc (.arr [Cbor.ofInt a, .bstr b])) = .error .valueError := by
    simp only [fromBytes, h5, leafFrom, hd0, hd, bind, Except.bind]
  have halts : fromAlts g s (k + 2 + 1) [cCond, cDir] 0 (enc (.arr [Cbor.ofInt a, .bstr b])) = .error .valueError := by
    rw [fromAlts, hcond]
    show fromAlts g s (k + 1 + 1) [cDir] (0 + 1) _ = _
    rw [fromAlts, hdir]
    show fromAlts g s (k + 1) [] (0 + 1 + 1) _ = _
    rw [fromAlts]
  have hcmd : fromBytes g s (k + 3 + 1) cCmd (enc (.arr [Cbor.ofInt a, .bstr b])) = .error .valueError := by
    rw [fromBytes]
    simp only [h3, leafFrom, halts]
  have hens : ensure (Cbor.arr [Cbor.ofInt a, .bstr b]) = enc (.arr [Cbor.ofInt a, .bstr b]) := by simp [ensure]
  have hlist : fromList g s (k + 4 + 1) cCmd [Cbor.arr [Cbor.ofInt a, .bstr b]] = .error .valueError := by
    rw [fromList, hens, hcmd]; rfl
  have hchunk : chunk 2 ([Cbor.ofInt a, Cbor.bstr b].length + 1) [Cbor.ofInt a, .bstr b] = [.arr [Cbor.ofInt a, .bstr b]] := by
    simp [chunk]
  have hL : fromBytes g s (k + 5 + 1) cL (enc (.arr [Cbor.ofInt a, .bstr b])) = .error .valueError := by
    rw [fromBytes]
    simp only [h2, leafFrom, hd0, hchunk, hlist, bind, Except.bind]
  show fromBytes g s (k + 6 + 1) cSeq _ = _
  rw [fromBytes]
  simp only [h1, leafFrom, hL, bind, Except.bind]

end SuitVerif.ReadsBack
