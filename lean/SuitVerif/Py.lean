import SuitVerif.Cbor
/-! The Python view of decoded CBOR (`cbor2.loads`) on the modelled subset, and the small pieces of the
standard library the SUIT layer calls on decoded values: dictionary key semantics, UTF-8 validity,
`json.dumps` of rendered keys, `validate_cbor`.

Outside the modelled subset (and excluded from the compared domain by the harness): floats, indefinite
lengths, simple values other than false/true/null/undefined, semantic tags that cbor2 decodes into Python
objects (dates, bignums, sets, shared references, …), integers beyond 64 bits. -/
namespace SuitVerif.Py
open SuitVerif

inductive Err where
  | valueError          -- ValueError and its subclasses (incl. CBOR decode errors mapped by deserialize_cbor)
  | suitError           -- SUITError (tag mismatch)
  | osError             -- FileNotFoundError / OSError
  | internal (kind : String)   -- anything else the Python would let escape (TypeError, IndexError, KeyError …)
  | model (what : String)      -- model artefact: class index outside the schema / a class the translator could not classify
  | fuel                -- model artefact: recursion budget exhausted (never for budgets derived from the input size)
  deriving Repr, BEq, DecidableEq

abbrev R := Except Err

def strOf (b : Bytes) : Option String := String.fromUTF8? (ByteArray.mk b.toArray)

/-- Python `==`/`hash` on dictionary keys: `True == 1`, `False == 0` -/
def keyCanon : Cbor → Cbor
  | .simple 21 => .uint 1
  | .simple 20 => .uint 0
  | c => c

def pyDictSet (d : List (Cbor × Cbor)) (k v : Cbor) : List (Cbor × Cbor) :=
  if d.any (fun e => keyCanon e.1 == keyCanon k) then
    d.map (fun e => if keyCanon e.1 == keyCanon k then (e.1, v) else e)
  else d ++ [(k, v)]

mutual
/-- what `cbor2.loads` hands over for a decoded item: text must be valid UTF-8 (else the whole decode fails),
maps become dictionaries (a repeated key keeps its first position and takes the last value) -/
def norm : Cbor → Option Cbor
  | .tstr b => if (strOf b).isSome then some (.tstr b) else none
  | .arr xs => (normList xs).map .arr
  | .map kvs => (normPairs kvs).map (fun ps => .map (ps.foldl (fun d e => pyDictSet d e.1 e.2) []))
  | .tag t v => (norm v).map (.tag t)
  | c => some c
def normList : List Cbor → Option (List Cbor)
  | [] => some []
  | x :: xs => match norm x, normList xs with
    | some a, some as => some (a :: as)
    | _, _ => none
def normPairs : List (Cbor × Cbor) → Option (List (Cbor × Cbor))
  | [] => some []
  | (k, v) :: xs => match norm k, norm v, normPairs xs with
    | some a, some b, some rest => some ((a, b) :: rest)
    | _, _, _ => none
end

/-- `SuitObject.validate_cbor`: `false` = raises ValueError -/
def validate (b : Bytes) : Bool :=
  match b with
  | [] => false
  | h :: rest =>
    let ty := h.toNat / 32
    let ai := h.toNat % 32
    if 1 < ty ∧ ty < 6 ∧ 23 < ai ∧ ai < 28 then
      let w := aiWidth ai
      if rest.length < w then true        -- length not extractable: left to cbor2
      else
        let n := ofBe (rest.take w)
        !(n != 0 && n > b.length)
    else true

/-- `SuitObject.deserialize_cbor` -/
def deser (b : Bytes) : R Cbor :=
  if !validate b then .error .valueError
  else if b.head? = some 0xFF then .ok (.simple 31)     -- cbor2 returns its "break marker" object for a stray 0xFF
  else match loads b with
    | none => .error .valueError
    | some c => match norm c with
      | none => .error .valueError
      | some v => .ok v

/-- `ensure_cbor`: bytes pass through (their content), anything else is serialised -/
def ensure (v : Cbor) : Bytes :=
  match v with
  | .bstr b => b
  | v => enc v

/-- int-like Python values: `int` and `bool` -/
def intLike : Cbor → Option Int
  | .uint n => some n
  | .nint n => some (-1 - (n : Int))
  | .simple 21 => some 1
  | .simple 20 => some 0
  | _ => none

def isNone : Cbor → Bool
  | .simple 22 => true
  | _ => false

def isBool : Cbor → Bool
  | .simple 20 => true | .simple 21 => true | _ => false

/-! ### json.dumps (default separators, ensure_ascii) for rendered dictionary keys -/

def hex4 (n : Nat) : List Char :=
  [hexDigit (n / 4096 % 16), hexDigit (n / 256 % 16), hexDigit (n / 16 % 16), hexDigit (n % 16)]

def jsonEscapeChar (c : Char) : List Char :=
  if c = '"' then ['\\', '"'] else if c = '\\' then ['\\', '\\']
  else if c = '\n' then ['\\', 'n'] else if c = '\r' then ['\\', 'r'] else if c = '\t' then ['\\', 't']
  else if c.toNat = 8 then ['\\', 'b'] else if c.toNat = 12 then ['\\', 'f']
  else if 32 ≤ c.toNat ∧ c.toNat < 127 then [c]
  else if c.toNat < 65536 then ['\\', 'u'] ++ hex4 c.toNat
  else
    let v := c.toNat - 65536
    ['\\', 'u'] ++ hex4 (0xD800 + v / 1024) ++ ['\\', 'u'] ++ hex4 (0xDC00 + v % 1024)

def jsonString (s : String) : List Char := ['"'] ++ s.toList.flatMap jsonEscapeChar ++ ['"']

end SuitVerif.Py
