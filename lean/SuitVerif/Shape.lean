import SuitVerif.EnvShape
import SuitVerif.Spec
namespace SuitVerif.Typing
open SuitVerif SuitVerif.Encode SuitVerif.Decode SuitVerif.Py

def SevEntryShape (algs : List (String × Int)) (entry : Node) : Prop :=
  (isDigestAlt entry = true ∧ IsDigest algs entry) ∨ (isDigestAlt entry = false ∧ Spec.digestPair entry.toVal = none)

structure EnvShape (algs : List (String × Int)) (es : List (KvKey × Node)) : Prop where
  good : KvGood es
  auth : ∀ a, kvGet es 2 = some a → ∃ ks dg blocks, a = .wrapped (.tuple ks (.wrapped dg :: blocks)) ∧ IsDigest algs dg
  man : ∀ m, kvGet es 3 = some m → ∃ mes, m = .wrapped (.kv mes) ∧ KvGood mes ∧
          ∀ k ∈ sevKeys, ∀ entry, kvGet mes k = some entry → SevEntryShape algs entry
  sev : ∀ k ∈ sevKeys, ∀ sv, kvGet es k = some sv → ∃ x, sv = .wrapped x

theorem kvGet_typed {s es r k n} (ht : KvTy s es r) (hids : idsOk es = true) (h : kvGet r k = some n) :
    ∃ e, e ∈ es ∧ HasTy s e.cls n ∧ entryCls es k = some e.cls := by
  unfold kvGet at h
  obtain ⟨p, hp, rfl⟩ := Option.map_eq_some_iff.mp h
  have hpred := List.find?_some hp
  have hmem := List.mem_of_find?_eq_some hp
  simp only [Bool.and_eq_true, beq_iff_eq, Bool.not_eq_true'] at hpred
  obtain ⟨e, he, hpe, hty⟩ := kvTy_mem ht p hmem
  have hid : e.id = k := by rw [hpe] at hpred; simpa [entryKey] using hpred.1
  have hm : e.merge = false := by rw [hpe] at hpred; simpa [entryKey] using hpred.2
  refine ⟨e, he, hty, ?_⟩
  unfold entryCls
  have hes : ((es.filter (fun e => !e.merge)).map (·.id)).Nodup := by simpa [idsOk] using hids
  cases hf : es.find? (fun e => e.id == k && !e.merge) with
  | none =>
    rw [List.find?_eq_none] at hf
    exact absurd (by simp [hid, hm]) (hf e he)
  | some e0 =>
    have h0 := List.find?_some hf
    have h0m := List.mem_of_find?_eq_some hf
    simp only [Bool.and_eq_true, beq_iff_eq, Bool.not_eq_true'] at h0
    have : e0 = e := inj_of_nodup_map (·.id) _ hes e0 (List.mem_filter.mpr ⟨h0m, by simp [h0.2]⟩) e
      (List.mem_filter.mpr ⟨he, by simp [hm]⟩) (by rw [h0.1, hid])
    simp [this]

theorem sevEntry_of_typed {s : Schema} {c : Cls} {entry : Node} (hc : isSevCls s (hashEnum s) c = true) (ht : HasTy s c entry) :
    SevEntryShape (hashEnum s) entry := by
  unfold isSevCls at hc
  split at hc
  · rename_i alts hty
    obtain ⟨i, ci, x, hi, rfl, hx⟩ := inv_union ht hty
    have hci : ci ∈ alts := List.mem_of_getElem? hi
    have := List.all_eq_true.mp hc ci hci
    by_cases hname : (s.name ci == "SuitDigest") = true
    · simp only [hname, if_true] at this
      exact Or.inl ⟨by simp [isDigestAlt, hname], .alt (digest_shape s _ 8 ci x this hx)⟩
    · simp only [hname, Bool.false_eq_true, if_false] at this
      refine Or.inr ⟨by simp only [isDigestAlt]; simpa using hname, ?_⟩
      unfold nonDigestCls at this
      split at this
      · rename_i inner hcb
        obtain ⟨m, rfl, _⟩ := inv_cbstr hx hcb
        simp [Node.toVal, Spec.digestPair]
      · rename_i es' hku
        obtain ⟨r, rfl⟩ := inv_kvu hx hku
        simp [Node.toVal, Spec.digestPair]
      · simp at this
  · simp at hc

theorem envShape_of_typed (cx : Ctx) (hf : EnvFacts cx.schema) (n0 : Node) (ht : HasTy cx.schema cx.schema.envelope n0) :
    ∃ nm es, n0 = .tagged 107 nm (.kv es) ∧ EnvShape (hashEnum cx.schema) es := by
  obtain ⟨nm, cKv, es, emb, cAuth, cAuthT, f, cDigW, rest, cDig, cMan, cManKv, mes, memb,
    h0, h1, hids, hmerge, hA, hA1, hA2, hfstar, hD1, hD2, hM, hM1, hM2, hmids, hmmerge, hsevE, hsevM⟩ := hf
  obtain ⟨m, rfl, hm⟩ := inv_tag ht h0
  obtain ⟨r, rfl, hkv, hkd⟩ := inv_kv hm h1
  refine ⟨nm, r, rfl, ⟨kvGood_of_typed hkv hkd hids hmerge, ?_, ?_, ?_⟩⟩
  · intro a ha
    obtain ⟨e, _, hty, hcls⟩ := kvGet_typed hkv hids ha
    rw [hA] at hcls
    have hty' : HasTy cx.schema cAuth a := by simp only [Option.some.injEq] at hcls; rw [hcls]; exact hty
    obtain ⟨x, rfl, hx⟩ := inv_cbstr hty' hA1
    obtain ⟨ns, rfl, htup⟩ := inv_tuple hx hA2
    cases htup with
    | field hy hrest =>
      obtain ⟨dg, rfl, hdg⟩ := inv_cbstr hy hD1
      exact ⟨_, dg, _, rfl, digest_shape _ _ 8 cDig dg hD2 hdg⟩
    | star hs _ => simp [hfstar] at hs
  · intro mm hmm
    obtain ⟨e, _, hty, hcls⟩ := kvGet_typed hkv hids hmm
    rw [hM] at hcls
    have hty' : HasTy cx.schema cMan mm := by simp only [Option.some.injEq] at hcls; rw [hcls]; exact hty
    obtain ⟨x, rfl, hx⟩ := inv_cbstr hty' hM1
    obtain ⟨rm, rfl, hkvm, hkdm⟩ := inv_kv hx hM2
    refine ⟨rm, rfl, kvGood_of_typed hkvm hkdm hmids hmmerge, ?_⟩
    intro k hk entry hentry
    obtain ⟨e', _, hty2, hcls2⟩ := kvGet_typed hkvm hmids hentry
    have := List.all_eq_true.mp hsevM k hk
    rw [hcls2] at this
    exact sevEntry_of_typed this hty2
  · intro k hk sv hsv
    obtain ⟨e', _, hty2, hcls2⟩ := kvGet_typed hkv hids hsv
    have := List.all_eq_true.mp hsevE k hk
    rw [hcls2] at this
    have this : isCbstr cx.schema e'.cls = true := this
    unfold isCbstr at this
    split at this
    · rename_i inner hcb
      obtain ⟨x, rfl, _⟩ := inv_cbstr hty2 hcb
      exact ⟨x, rfl⟩
    · simp at this

end SuitVerif.Typing
