import SuitVerif.IHexImage
/-! What the strict reader returns is canonical: `canon img = some c → Separated c` (non-empty blocks, ascending, at least one undefined
address between them).  With `readRecs_writeImageRecs` this closes the loop on the reader's side: any image the reader returns is given back
unchanged when it is written by the writer model and read again. -/
namespace SuitVerif.IHex
open SuitVerif

theorem sep_snoc : ∀ (l : List (Nat × Bytes)) (r : Nat × Bytes), Separated l → r.2 ≠ [] →
    (∀ x, l.getLast? = some x → x.1 + x.2.length < r.1) → Separated (l ++ [r]) := by
  intro l
  induction l with
  | nil => intro r _ hr _; exact hr
  | cons s t ih =>
    intro r hsep hr hlast
    cases t with
    | nil =>
      refine ⟨hsep, ?_, hr⟩
      exact hlast s rfl
    | cons t' rest =>
      obtain ⟨hs, hgap, hsep'⟩ := hsep
      refine ⟨hs, hgap, ?_⟩
      have := ih r hsep' hr (by intro x hx; exact hlast x (by simpa [List.getLast?_cons_cons] using hx))
      simpa using this

theorem mem_insertSeg (x y : Nat × Bytes) : ∀ (l : List (Nat × Bytes)), y ∈ insertSeg x l → y = x ∨ y ∈ l := by
  intro l
  induction l with
  | nil => intro h; simp [insertSeg] at h; exact Or.inl h
  | cons z zs ih =>
    intro h
    unfold insertSeg at h
    split at h
    · rcases List.mem_cons.mp h with h | h
      · exact Or.inl h
      · exact Or.inr h
    · rcases List.mem_cons.mp h with h | h
      · exact Or.inr (by simp [h])
      · rcases ih h with h | h
        · exact Or.inl h
        · exact Or.inr (by simp [h])

theorem mem_sortSegs (y : Nat × Bytes) : ∀ (l : List (Nat × Bytes)), y ∈ sortSegs l → y ∈ l := by
  intro l
  induction l with
  | nil => intro h; simp [sortSegs] at h
  | cons x xs ih =>
    intro h
    have h' : y ∈ insertSeg x (sortSegs xs) := h
    rcases mem_insertSeg x y _ h' with h | h
    · simp [h]
    · simp [ih h]

theorem mergeGo_sep : ∀ (rest : List (Nat × Bytes)) (s0 e : Nat) (accs : List Bytes) (acc out : List (Nat × Bytes)),
    mergeGo (s0, e, accs) acc rest = some out →
    accs.reverse.flatten ≠ [] → s0 + accs.reverse.flatten.length = e →
    Separated acc.reverse → (∀ x, acc.head? = some x → x.1 + x.2.length < s0) →
    (∀ x ∈ rest, x.2 ≠ []) → Separated out := by
  intro rest
  induction rest with
  | nil =>
    intro s0 e accs acc out h hne hlen hsep hhead _
    simp only [mergeGo, Option.some.injEq] at h
    subst h
    simp only [List.reverse_cons]
    refine sep_snoc _ _ hsep hne ?_
    intro x hx
    rw [List.getLast?_reverse] at hx
    exact hhead x hx
  | cons sb rest ih =>
    intro s0 e accs acc out h hne hlen hsep hhead hrest
    obtain ⟨s, b⟩ := sb
    have hb : b ≠ [] := hrest (s, b) (by simp)
    have hrest' : ∀ x ∈ rest, x.2 ≠ [] := fun x hx => hrest x (by simp [hx])
    simp only [mergeGo] at h
    split at h
    · cases h
    · split at h
      · rename_i hlt heq
        refine ih s0 (s + b.length) (b :: accs) acc out h ?_ ?_ hsep hhead hrest'
        · simp only [List.reverse_cons, List.flatten_append, List.flatten_cons, List.flatten_nil, List.append_nil]
          intro h0
          exact hb (List.append_eq_nil_iff.mp h0).2
        · simp only [List.reverse_cons, List.flatten_append, List.flatten_cons, List.flatten_nil, List.append_nil, List.length_append]
          omega
      · rename_i hlt hne'
        refine ih s (s + b.length) [b] ((s0, accs.reverse.flatten) :: acc) out h ?_ ?_ ?_ ?_ hrest'
        · simpa using hb
        · simp
        · simp only [List.reverse_cons]
          refine sep_snoc _ _ hsep hne ?_
          intro x hx
          rw [List.getLast?_reverse] at hx
          exact hhead x hx
        · intro x hx
          simp only [List.head?_cons, Option.some.injEq] at hx
          subst hx
          show s0 + accs.reverse.flatten.length < s
          omega

/-- the canonical form is canonical -/
theorem canon_sep (img c : Image) (h : canon img = some c) : Separated c := by
  unfold canon at h
  have hall : ∀ x ∈ sortSegs (img.filter (fun s => s.2 ≠ [])), x.2 ≠ [] := by
    intro x hx
    have := mem_sortSegs x _ hx
    simpa using (List.mem_filter.mp this).2
  generalize sortSegs (img.filter (fun s => s.2 ≠ [])) = l at h hall
  cases l with
  | nil => simp [mergeSorted] at h; subst h; trivial
  | cons sb rest =>
    obtain ⟨s, b⟩ := sb
    simp only [mergeSorted] at h
    have hb : b ≠ [] := hall (s, b) (by simp)
    exact mergeGo_sep rest s (s + b.length) [b] [] c h (by simpa using hb) (by simp) trivial (by intro x hx; simp at hx)
      (fun x hx => hall x (by simp [hx]))

/-- whatever the strict reader returns for a file is a canonical image -/
theorem read_sep (text : String) (c : Image) (h : read text = some c) : Separated c := by
  unfold read at h
  simp only at h
  split at h
  · split at h
    · exact canon_sep _ _ h
    · cases h
  · cases h

/-! ### canonical images are fixed points of `canon` -/

theorem sep_tail (s : Nat × Bytes) (rest : List (Nat × Bytes)) (h : Separated (s :: rest)) : Separated rest := by
  cases rest with
  | nil => trivial
  | cons t r => exact h.2.2

theorem sep_head_nonempty (s : Nat × Bytes) (rest : List (Nat × Bytes)) (h : Separated (s :: rest)) : s.2 ≠ [] := by
  cases rest with
  | nil => exact h
  | cons t r => exact h.1

theorem sep_all_nonempty : ∀ (c : List (Nat × Bytes)), Separated c → ∀ x ∈ c, x.2 ≠ [] := by
  intro c
  induction c with
  | nil => intro _ x hx; simp at hx
  | cons s rest ih =>
    intro h x hx
    rcases List.mem_cons.mp hx with hx | hx
    · subst hx; exact sep_head_nonempty _ rest h
    · exact ih (sep_tail s rest h) x hx

theorem sortSegs_sep : ∀ (c : List (Nat × Bytes)), Separated c → sortSegs c = c := by
  intro c
  induction c with
  | nil => intro _; rfl
  | cons s rest ih =>
    intro h
    refine head_le_of_sorted_cons s rest (ih (sep_tail s rest h)) ?_
    intro y ys hy
    subst hy
    exact Nat.le_of_lt (Nat.lt_of_le_of_lt (Nat.le_add_right _ _) h.2.1)

theorem mergeGo_sep_id : ∀ (rest : List (Nat × Bytes)) (s0 e : Nat) (accs : List Bytes) (acc : List (Nat × Bytes)),
    Separated rest → (∀ y ys, rest = y :: ys → e < y.1) →
    mergeGo (s0, e, accs) acc rest = some (acc.reverse ++ (s0, accs.reverse.flatten) :: rest) := by
  intro rest
  induction rest with
  | nil => intro s0 e accs acc _ _; simp [mergeGo]
  | cons t rest' ih =>
    intro s0 e accs acc hsep hgap
    obtain ⟨s, b⟩ := t
    have he : e < s := hgap (s, b) rest' rfl
    have hgap' : ∀ y ys, rest' = y :: ys → s + b.length < y.1 := by
      intro y ys hy; subst hy; exact hsep.2.1
    simp only [mergeGo]
    rw [if_neg (by omega), if_neg (by omega), ih s (s + b.length) [b] _ (sep_tail _ rest' hsep) hgap']
    simp

/-- a canonical image is its own canonical form -/
theorem canon_fixed (c : Image) (h : Separated c) : canon c = some c := by
  unfold canon
  have hf : c.filter (fun s => s.2 ≠ []) = c := by
    rw [List.filter_eq_self]; intro x hx; simpa using sep_all_nonempty c h x hx
  rw [hf, sortSegs_sep c h]
  cases c with
  | nil => rfl
  | cons t rest =>
    obtain ⟨s, b⟩ := t
    have hgap' : ∀ y ys, rest = y :: ys → s + b.length < y.1 := by
      intro y ys hy; subst hy; exact h.2.1
    simp only [mergeSorted]
    rw [mergeGo_sep_id rest s (s + b.length) [b] [] (sep_tail _ rest h) hgap']
    simp

/-- what the reader returns is its own canonical form: the predicates of the properties (`checkStorage`, `checkDfu`, `checkRecord`, `checkMerge`, which
look at `canon img`) look at the image itself -/
theorem read_canon (text : String) (c : Image) (h : read text = some c) : canon c = some c := canon_fixed c (read_sep text c h)

end SuitVerif.IHex
