import SuitVerif.Decode
import SuitVerif.CborProofs
/-! Decode-after-encode at the level the SUIT layer sees it: `deserialize_cbor(cbor2.dumps(v)) = v` for every value of
the modelled data model (`deser_enc`), with `validate_cbor` accepting every encoding (`validate_enc`).  These are the
base facts of C03 (parse shows what create wrote): every scalar kind of `leafFrom` is a corollary, and every container
case of the decoder starts with them. -/
namespace SuitVerif.RoundTrip
open SuitVerif SuitVerif.Py SuitVerif.Decode

/-- one of the five shapes of a head -/
theorem head_shape (major n : Nat) (hn : n < 2 ^ 64) :
    (n < 24 ∧ head major n = [UInt8.ofNat (major * 32 + n)]) ∨
    (∃ ai w, (ai = 24 ∨ ai = 25 ∨ ai = 26 ∨ ai = 27) ∧ aiWidth ai = w ∧ 0 < w ∧ n < 256 ^ w ∧ 24 ≤ n ∧
      head major n = UInt8.ofNat (major * 32 + ai) :: beBytes w n) := by
  by_cases h24 : n < 24
  · exact .inl ⟨h24, by simp [head, h24]⟩
  · right
    by_cases h256 : n < 256
    · exact ⟨24, 1, by simp, by simp [aiWidth], by omega, by simpa using h256, by omega, by simp [head, h24, h256]⟩
    · by_cases h65536 : n < 65536
      · exact ⟨25, 2, by simp, by simp [aiWidth], by omega, by simpa using h65536, by omega, by simp [head, h24, h256, h65536]⟩
      · by_cases h32 : n < 4294967296
        · exact ⟨26, 4, by simp, by simp [aiWidth], by omega, by simpa using h32, by omega,
            by simp [head, h24, h256, h65536, h32]⟩
        · exact ⟨27, 8, by simp, by simp [aiWidth], by omega, by simpa using hn, by omega,
            by simp [head, h24, h256, h65536, h32]⟩

/-- `validate_cbor` accepts a head followed by a payload whenever the argument does not exceed the total length
(or the major type is not one of the counted ones) -/
theorem validate_head (major n : Nat) (payload : Bytes) (hm : major < 8) (hn : n < 2 ^ 64)
    (hlen : n ≤ (head major n ++ payload).length ∨ ¬ (1 < major ∧ major < 6)) :
    validate (head major n ++ payload) = true := by
  rcases head_shape major n hn with ⟨h24, hh⟩ | ⟨ai, w, hai, hw, hwpos, hnw, h24, hh⟩
  · rw [hh]
    simp only [List.cons_append, List.nil_append, validate]
    have h1 : (UInt8.ofNat (major * 32 + n)).toNat = major * 32 + n := u8_toNat_ofNat (by omega)
    have h3 : (major * 32 + n) % 32 = n := by omega
    rw [h1, h3]
    have : ¬ (23 < n) := by omega
    simp [this]
  · rw [hh] at hlen ⊢
    simp only [List.cons_append, validate]
    have h1 : (UInt8.ofNat (major * 32 + ai)).toNat = major * 32 + ai := u8_toNat_ofNat (by omega)
    have h3 : (major * 32 + ai) % 32 = ai := by omega
    have h2 : (major * 32 + ai) / 32 = major := by omega
    have hl : (beBytes w n).length = w := beBytes_length _ _
    have htake : List.take w (beBytes w n ++ payload) = beBytes w n := by
      rw [List.take_append_of_le_length (by omega)]; exact List.take_of_length_le (by omega)
    have ho : ofBe (beBytes w n) = n := ofBe_beBytes w n hnw
    rw [h1, h2, h3, hw]
    by_cases hc : 1 < major ∧ major < 6 ∧ 23 < ai ∧ ai < 28
    · simp only [hc, and_self, if_true]
      have hnl : ¬ (beBytes w n ++ payload).length < w := by simp [hl]
      simp only [hnl, if_false, htake, ho]
      rcases hlen with hlen | hlen
      · simp only [List.cons_append, List.length_cons] at hlen
        simp only [List.length_append] at hlen
        simp only [List.length_cons, List.length_append, bne_iff_ne, ne_eq, gt_iff_lt, Bool.not_eq_true',
          Bool.and_eq_false_imp, decide_eq_true_eq, decide_eq_false_iff_not, Nat.not_lt]
        intro _; omega
      · exact absurd ⟨hc.1, hc.2.1⟩ hlen
    · simp [hc]

theorem encList_length (xs : List Cbor) : xs.length ≤ (encList xs).length := by
  induction xs with
  | nil => simp [encList]
  | cons x xs ih =>
    have := (depth_le x).2
    simp only [encList, List.length_cons, List.length_append]; omega

theorem encPairs_length (xs : List (Cbor × Cbor)) : xs.length ≤ (encPairs xs).length := by
  induction xs with
  | nil => simp [encPairs]
  | cons x xs ih =>
    obtain ⟨k, v⟩ := x
    have := (depth_le k).2
    simp only [encPairs, List.length_cons, List.length_append]; omega

/-- `validate_cbor` accepts everything `cbor2.dumps` writes -/
theorem validate_enc (v : Cbor) (hw : v.wf = true) : validate (enc v) = true := by
  cases v with
  | uint n => simpa [enc] using validate_head 0 n [] (by omega) (by simpa [Cbor.wf] using hw) (.inr (by omega))
  | nint n => simpa [enc] using validate_head 1 n [] (by omega) (by simpa [Cbor.wf] using hw) (.inr (by omega))
  | bstr b =>
    simp only [enc]
    exact validate_head 2 b.length b (by omega) (by simpa [Cbor.wf] using hw) (.inl (by simp))
  | tstr b =>
    simp only [enc]
    exact validate_head 3 b.length b (by omega) (by simpa [Cbor.wf] using hw) (.inl (by simp))
  | arr xs =>
    simp only [enc]
    simp only [Cbor.wf, Bool.and_eq_true, decide_eq_true_eq] at hw
    exact validate_head 4 xs.length _ (by omega) hw.1 (.inl (by have := encList_length xs; simp; omega))
  | map kvs =>
    simp only [enc]
    simp only [Cbor.wf, Bool.and_eq_true, decide_eq_true_eq] at hw
    exact validate_head 5 kvs.length _ (by omega) hw.1 (.inl (by have := encPairs_length kvs; simp; omega))
  | tag t x =>
    simp only [enc]
    simp only [Cbor.wf, Bool.and_eq_true, decide_eq_true_eq] at hw
    exact validate_head 6 t _ (by omega) hw.1 (.inr (by omega))
  | simple n =>
    simpa [enc] using validate_head 7 n [] (by omega) (by simp [Cbor.wf] at hw; omega) (.inr (by omega))

/-- the first byte of an encoding is never the break code -/
theorem enc_head_ne_ff (v : Cbor) (hw : v.wf = true) : (enc v).head? ≠ some 0xFF := by
  have key : ∀ (major n : Nat) (p : Bytes), major < 8 → n < 2 ^ 64 → (major = 7 → n < 24) → (head major n ++ p).head? ≠ some 0xFF := by
    intro major n p hm hn h7
    rcases head_shape major n hn with ⟨h24, hh⟩ | ⟨ai, w, hai, _, _, _, h24, hh⟩
    · rw [hh]
      simp only [List.cons_append, List.nil_append, List.head?_cons, ne_eq, Option.some.injEq]
      intro hc
      have := congrArg UInt8.toNat hc
      rw [u8_toNat_ofNat (by omega)] at this
      simp at this; omega
    · rw [hh]
      simp only [List.cons_append, List.head?_cons, ne_eq, Option.some.injEq]
      intro hc
      have := congrArg UInt8.toNat hc
      rw [u8_toNat_ofNat (by omega)] at this
      simp at this; omega
  cases v with
  | uint n => simpa [enc] using key 0 n [] (by omega) (by simpa [Cbor.wf] using hw) (by omega)
  | nint n => simpa [enc] using key 1 n [] (by omega) (by simpa [Cbor.wf] using hw) (by omega)
  | bstr b => simp only [enc]; exact key 2 _ _ (by omega) (by simpa [Cbor.wf] using hw) (by omega)
  | tstr b => simp only [enc]; exact key 3 _ _ (by omega) (by simpa [Cbor.wf] using hw) (by omega)
  | arr xs =>
    simp only [Cbor.wf, Bool.and_eq_true, decide_eq_true_eq] at hw
    simp only [enc]; exact key 4 _ _ (by omega) hw.1 (by omega)
  | map kvs =>
    simp only [Cbor.wf, Bool.and_eq_true, decide_eq_true_eq] at hw
    simp only [enc]; exact key 5 _ _ (by omega) hw.1 (by omega)
  | tag t x =>
    simp only [Cbor.wf, Bool.and_eq_true, decide_eq_true_eq] at hw
    simp only [enc]; exact key 6 _ _ (by omega) hw.1 (by omega)
  | simple n =>
    have h : n < 24 := by simpa [Cbor.wf] using hw
    simpa [enc] using key 7 n [] (by omega) (by omega) (fun _ => h)

/-- `deserialize_cbor(dumps(v)) = v` for every well-formed value that `cbor2.loads` hands over unchanged
(valid UTF-8 text, no repeated map keys: `norm v = some v`) -/
theorem deser_enc (v : Cbor) (hw : v.wf = true) (hn : norm v = some v) : deser (enc v) = .ok v := by
  have hl : loads (enc v) = some v := by simpa using loads_enc v [] hw
  simp [deser, validate_enc v hw, enc_head_ne_ff v hw, hl, hn]

end SuitVerif.RoundTrip
