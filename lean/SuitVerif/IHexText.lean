import SuitVerif.IHexWrite
import SuitVerif.IHexImage
import SuitVerif.IHexCanon
import SuitVerif.Props.C05
/-! The text layer of a hex file: one line per record - a colon, upper-case hexadecimal, a line break.  The verifier's reader
`IHex.read` on the text the writer model produces is the record-level reader on the records, hence gives back the block
(`read_writeText`). -/
namespace SuitVerif.IHex
open SuitVerif

theorem hexDigitU_not_break : ∀ n, n < 16 → hexDigitU n ≠ '\n' ∧ hexDigitU n ≠ '\r' := by decide

theorem toHexCharsU_no_break (b : Bytes) : ∀ c ∈ toHexCharsU b, c ≠ '\n' ∧ c ≠ '\r' := by
  induction b with
  | nil => intro c h; simp [toHexCharsU] at h
  | cons x xs ih =>
    intro c h
    have hx := x.toNat_lt
    simp only [toHexCharsU, List.mem_cons] at h
    rcases h with h | h | h
    · subst h; exact hexDigitU_not_break _ (by omega)
    · subst h; exact hexDigitU_not_break _ (by omega)
    · exact ih c h

/-- a stretch of characters without line breaks is accumulated unchanged -/
theorem go_line (l : List Char) (hl : ∀ c ∈ l, c ≠ '\n' ∧ c ≠ '\r') : ∀ (cur : List Char) (acc : List (List Char)) (rest : List Char),
    splitLines.go cur acc (l ++ '\n' :: rest) = splitLines.go [] ((cur.reverse ++ l) :: acc) rest := by
  induction l with
  | nil => intro cur acc rest; simp [splitLines.go]
  | cons c cs ih =>
    intro cur acc rest
    have hc := hl c (by simp)
    simp only [List.cons_append, splitLines.go, hc.1, hc.2, if_false]
    rw [ih (fun c' h' => hl c' (by simp [h'])) (c :: cur) acc rest]
    simp

theorem go_lines (ls : List (List Char)) (hls : ∀ l ∈ ls, ∀ c ∈ l, c ≠ '\n' ∧ c ≠ '\r') : ∀ (acc : List (List Char)),
    splitLines.go [] acc ((ls.map (fun l => l ++ ['\n'])).flatten) = acc.reverse ++ ls := by
  induction ls with
  | nil => intro acc; simp [splitLines.go]
  | cons l ls ih =>
    intro acc
    simp only [List.map_cons, List.flatten_cons, List.append_assoc, List.singleton_append]
    rw [go_line l (hls l (by simp)) [] acc, ih (fun l' h' => hls l' (by simp [h']))]
    simp

theorem splitLines_textOf (recs : List Bytes) : splitLines (textOf recs) = recs.map (fun r => ':' :: toHexCharsU r) := by
  unfold splitLines textOf
  have : (recs.map recordLine) = (recs.map (fun r => ':' :: toHexCharsU r)).map (fun l => l ++ ['\n']) := by
    simp [recordLine, List.map_map, Function.comp_def]
  rw [this, go_lines _ (by
    intro l hl c hc
    obtain ⟨r, _, rfl⟩ := List.mem_map.mp hl
    rcases List.mem_cons.mp hc with h | h
    · subst h; decide
    · exact toHexCharsU_no_break r c h)]
  simp

theorem fold_lines (recs : List Bytes) : ∀ (acc : Option RState),
    (recs.map (fun r => ':' :: toHexCharsU r)).foldl (fun (acc : Option RState) line =>
      match acc, line with
      | some st, ':' :: hexs =>
        match ofHexChars hexs with
        | some rec => stepRecord st rec
        | none => none
      | _, _ => none) acc
    = foldRecs recs acc := by
  induction recs with
  | nil => intro acc; rfl
  | cons r rs ih =>
    intro acc
    simp only [List.map_cons, List.foldl_cons, foldRecs]
    rw [ih]
    cases acc with
    | none => simp [foldRecs]
    | some st => simp [Props.C05.C05_hex_roundtrip_upper, foldRecs]

/-- the reader on the text is the record-level reader on the records -/
theorem read_textOf (recs : List Bytes) : read (String.ofList (textOf recs)) = readRecs recs := by
  unfold read readRecs
  simp only [String.toList_ofList, splitLines_textOf]
  have hf : (recs.map (fun r => ':' :: toHexCharsU r)).filter (· ≠ []) = recs.map (fun r => ':' :: toHexCharsU r) := by
    rw [List.filter_eq_self]; intro l hl; obtain ⟨r, _, rfl⟩ := List.mem_map.mp hl; simp
  rw [hf]
  exact congrArg (fun (r : Option RState) => match r with
    | some st => if st.done then canon st.segs.reverse else none
    | none => none) (fold_lines recs (some {}))

/-- **file level**: the verifier's reader, on the text of the file the writer model produces for a block of data, yields exactly
that block at that address - every address, every length, up to 2^32. -/
theorem read_writeText (addr : Nat) (data : Bytes) (hb : addr + data.length ≤ 2 ^ 32) :
    read (writeText addr data) = some (if data = [] then [] else [(addr, data)]) := by
  unfold writeText
  rw [read_textOf, readRecs_writeRecs addr data hb]

/-- **file level, whole images**: the strict reader, on the text of the file the writer model produces for a canonical image (non-empty blocks,
ascending, separated by at least one undefined address, below 2^32), yields exactly that image -/
theorem read_writeImageText (c : List (Nat × Bytes)) (hsep : Separated c) (hb : ∀ s ∈ c, s.1 + s.2.length ≤ 2 ^ 32) :
    read (writeImageText c) = some c := by
  unfold writeImageText
  rw [read_textOf, readRecs_writeImageRecs c hsep hb]

/-- **the reader's answers are fixed points**: whatever image the strict reader returns for a file (any file), written by the writer model and
read again, is that same image - the image is canonical (`read_sep`), so the read-back theorem applies to it -/
theorem read_stable (text : String) (c : Image) (h : read text = some c) (hb : ∀ s ∈ c, s.1 + s.2.length ≤ 2 ^ 32) :
    read (writeImageText c) = some c := read_writeImageText c (read_sep text c h) hb

end SuitVerif.IHex
