import SuitVerif.IHex
import SuitVerif.Uuid
/-! L3: model of `suit_generator/cmd_mpi.py` (`MpiGenerator.generate` / `merge`). -/
namespace SuitVerif.Mpi
open SuitVerif SuitVerif.IHex

inductive Err where
  | generatorError       -- unsupported policy / input outside the area
  | overlap              -- intelhex AddressOverlapError while merging
  | emptyInput           -- an input hex file without data (TypeError in the code: outside the domain)
  deriving Repr, DecidableEq

/-- signature verification policy argument: absent, "update", "update-and-boot", anything else -/
inductive SigPolicy where | none | update | updateAndBoot | other
  deriving Repr, DecidableEq

def policyByte (b : Bool) : UInt8 := if b then 2 else 1

def sigByte : SigPolicy → Except Err UInt8
  | .none => .ok 1 | .update => .ok 2 | .updateAndBoot => .ok 3 | .other => .error .generatorError

def padFF (size : Nat) (b : Bytes) : Bytes := b ++ List.replicate (size - b.length) 0xFF

/-- the 48-byte MPI record before padding -/
def recordCore (vid cid : Bytes) (dp iu : Bool) (sv : UInt8) : Bytes :=
  [1, policyByte dp, policyByte iu, sv] ++ List.replicate 12 0xFF ++ vid ++ cid

/-- `MpiGenerator.generate`: the image written to the output hex file -/
def generate (sha1 : Bytes → Bytes) (vendor cls : Bytes) (address size : Nat) (dp iu : Bool) (sv : SigPolicy) :
    Except Err Image := do
  let svb ← sigByte sv
  let v := Uuid.uuid5 sha1 Uuid.namespaceDNS vendor
  let c := Uuid.uuid5 sha1 v cls
  pure (place address (padFF size (recordCore v c dp iu svb)))

def minAddr (img : Image) : Option Nat := (img.map (·.1)).min?
def maxAddr (img : Image) : Option Nat := (img.map (fun s => s.1 + s.2.length - 1)).max?

/-- does `img` define address `a`? -/
def defines (img : Image) (a : Nat) : Bool := (Image.get img a).isSome

/-- do two images (in canonical form: non-empty segments) share an address? -/
def overlaps (a b : Image) : Bool :=
  a.any (fun sa => b.any (fun sb => sa.1 < sb.1 + sb.2.length && sb.1 < sa.1 + sa.2.length))

/-- merge the input images into one, rejecting inputs outside `[address, address+size)` and overlaps -/
def mergeInputs (address size : Nat) (acc : Image) : List Image → Except Err Image
  | [] => .ok acc
  | img :: rest =>
    match minAddr img, maxAddr img with
    | some lo, some hi =>
      if lo < address ∨ hi > address + size - 1 then .error .generatorError
      else if overlaps acc img then .error .overlap
      else mergeInputs address size (acc ++ img) rest
    | _, _ => .error .emptyInput

/-- `tobinstr(start=address, end=address+size-1)` with padding 0xFF -/
def area (address size : Nat) (img : Image) : Bytes :=
  (List.range size).map (fun i => (Image.get img (address + i)).getD 0xFF)

def nonEmptySegs (i : Image) : Image := i.filter (fun s => s.2 ≠ [])

/-- `MpiGenerator.merge`: the image written to the output hex file (area followed by its SHA-256) -/
def merge (sha256 : Bytes → Bytes) (address size : Nat) (inputs : List Image) : Except Err Image := do
  let merged ← mergeInputs address size [] (inputs.map nonEmptySegs)
  let a := area address size merged
  pure (place address (a ++ sha256 a))

/-! ### Spec.C12: executable predicates on the images the files denote -/

/-- the generated file holds, at `address` and nowhere else, the record with the stated layout, padded to `size` -/
def checkRecord (img : Image) (vid cid : Bytes) (address size : Nat) (dp iu : Bool) (svb : UInt8) : Bool :=
  match canon img with
  | some [(a, r)] =>
    a == address
    && r.take 4 == [1, policyByte dp, policyByte iu, svb]
    && (r.drop 4).take 12 == List.replicate 12 0xFF
    && (r.drop 16).take 16 == vid && (r.drop 32).take 16 == cid
    && (r.drop 48).all (· == 0xFF) && r.length == max size 48
  | _ => false

/-- the merged file holds, at `address`, the `size`-byte area (every input byte at its original address,
0xFF elsewhere) immediately followed by the digest of that area, and nothing else -/
def checkMerge (sha256 : Bytes → Bytes) (img : Image) (address size : Nat) (inputs : List Image) : Bool :=
  let a := area address size inputs.flatten
  canon img == canon [(address, a ++ sha256 a)]

end SuitVerif.Mpi
