import SuitVerif.Storage
import SuitVerif.Mpi
import SuitVerif.Generated.Consts
import SuitVerif.Generated.Layout
/-! # C13 — vendor/class UUIDs are derived identically everywhere -/
namespace SuitVerif.Props.C13
open SuitVerif SuitVerif.Storage

/-- the DNS namespace of the running interpreter's `uuid` module is 6ba7b810-9dad-11d1-80b4-00c04fd430c8 -/
theorem C13_dns : Generated.namespaceDNS = Uuid.namespaceDNS := by decide

theorem tblSet_has (tbl : List (Bytes × String)) (cid : Bytes) (role : String) :
    (tblSet tbl cid role).any (fun e => e.1 == cid && e.2 == role) = true := by
  unfold tblSet
  split
  · rename_i h
    simp only [List.any_eq_true] at h ⊢
    obtain ⟨e, he, hc⟩ := h
    refine ⟨(cid, role), ?_, by simp⟩
    rw [List.mem_map]
    exact ⟨e, he, by simp [hc]⟩
  · simp

theorem find_replace_other (tbl : List (Bytes × String)) (cid : Bytes) (role : String) (other : Bytes) (h : other ≠ cid) :
    (tbl.map (fun e => if e.1 == cid then (cid, role) else e)).find? (fun e => e.1 == other)
      = tbl.find? (fun e => e.1 == other) := by
  have h2 : (cid == other) = false := by simpa using (fun e => h e.symm)
  induction tbl with
  | nil => rfl
  | cons e rest ih =>
    simp only [List.map_cons, List.find?]
    by_cases hc : (e.1 == cid) = true
    · have he : e.1 = cid := by simpa using hc
      have hne : (e.1 == other) = false := by rw [he]; exact h2
      simp only [hc, if_true, h2, hne]
      exact ih
    · simp only [hc, Bool.false_eq_true, if_false]
      split
      · rfl
      · exact ih

theorem tblSet_other (tbl : List (Bytes × String)) (cid : Bytes) (role : String) (other : Bytes) (h : other ≠ cid) :
    (tblSet tbl cid role).find? (fun e => e.1 == other) = tbl.find? (fun e => e.1 == other) := by
  have h2 : (cid == other) = false := by simpa using (fun e => h e.symm)
  unfold tblSet
  split
  · exact find_replace_other tbl cid role other h
  · rw [List.find?_append]
    simp [h2]

/-- **One derivation at all three sites**, for every SHA-1 function and all names: the class identifier embedded in a
manifest from a namespace/name description, the one in the MPI record, and the one keyed in the role table are
`uuid5(uuid5(DNS, vendor), class)`; the vendor identifier is `uuid5(DNS, vendor)`. -/
theorem C13_agree (cx : Encode.Ctx) (vendor cls : String) (address size : Nat) (dp iu : Bool) (tbl : List (Bytes × String)) (role : String) :
    -- manifest site (SuitUUID.from_obj with namespace + name)
    Encode.uuidFromObj cx (.dict [("RFC4122_UUID", .dict [("namespace", .str vendor), ("name", .str cls)])])
      = .ok (.leaf (.bstr (Uuid.uuid5 cx.sha1 (Uuid.uuid5 cx.sha1 Uuid.namespaceDNS (utf8 vendor)) (utf8 cls))) .rawHex)
    -- vendor identifier (name only)
    ∧ Encode.uuidFromObj cx (.dict [("RFC4122_UUID", .str vendor)])
      = .ok (.leaf (.bstr (Uuid.uuid5 cx.sha1 Uuid.namespaceDNS (utf8 vendor))) .rawHex)
    -- MPI site
    ∧ Mpi.generate cx.sha1 (utf8 vendor) (utf8 cls) address size dp iu .none
      = .ok (IHex.place address (Mpi.padFF size (Mpi.recordCore (Uuid.uuid5 cx.sha1 Uuid.namespaceDNS (utf8 vendor))
          (Uuid.uuid5 cx.sha1 (Uuid.uuid5 cx.sha1 Uuid.namespaceDNS (utf8 vendor)) (utf8 cls)) dp iu 1)))
    -- role table site
    ∧ (assign cx.sha1 tbl vendor cls role).any
        (fun e => e.1 == Uuid.uuid5 cx.sha1 (Uuid.uuid5 cx.sha1 Uuid.namespaceDNS (utf8 vendor)) (utf8 cls) && e.2 == role) = true := by
  refine ⟨by simp [Encode.uuidFromObj, Obj.get?], by simp [Encode.uuidFromObj, Obj.get?],
    by simp [Mpi.generate, Mpi.sigByte, bind, Except.bind, pure, Except.pure], ?_⟩
  simp only [assign, Uuid.cid, Uuid.vid]
  exact tblSet_has tbl _ role

/-- **An assignment applies to exactly the named pair**: entries of every other class id keep their role -/
theorem C13_assign_exact (sha1 : Bytes → Bytes) (tbl : List (Bytes × String)) (vendor cls role : String) (other : Bytes)
    (h : other ≠ Uuid.cid sha1 (utf8 vendor) (utf8 cls)) :
    (assign sha1 tbl vendor cls role).find? (fun e => e.1 == other) = tbl.find? (fun e => e.1 == other) :=
  tblSet_other tbl _ role other h

/-- **A configuration giving one vendor/class pair to two roles is rejected.** -/
theorem C13_kconfig_duplicate_rejected (roles : List String) (acc : List (String × String × String)) (vendor cls : String)
    (h : acc.any (fun a => a.1 == vendor && a.2.1 == cls) = true) (manifest : String) :
    (if acc.any (fun a => a.1 == vendor && a.2.1 == cls) then (.error (.generatorError "duplicate-vid-cid") : R (List (String × String × String)))
     else
       let role := if manifest == "ROOT" then "APP_ROOT" else manifest
       if roles.contains role then pure (acc ++ [(vendor, cls, role)]) else .error .keyError)
      = .error (.generatorError "duplicate-vid-cid") := by
  simp [h]

/-- concrete configurations through the whole parser: a duplicate pair is rejected, distinct pairs are accepted -/
theorem C13_kconfig_examples :
    (match kconfigAssignments (Generated.roles.map (·.1)) (parseConfig
        "SB_CONFIG_SUIT_MPI_ROOT_VENDOR_NAME=\"v\"\nSB_CONFIG_SUIT_MPI_ROOT_CLASS_NAME=\"c\"\nSB_CONFIG_SUIT_MPI_APP_LOCAL_1_VENDOR_NAME=\"v\"\nSB_CONFIG_SUIT_MPI_APP_LOCAL_1_CLASS_NAME=\"c\"\n")
      with | .error (.generatorError _) => true | _ => false) = true
    ∧ (match kconfigAssignments (Generated.roles.map (·.1)) (parseConfig
        "SB_CONFIG_SUIT_MPI_ROOT_VENDOR_NAME=\"v\"\nSB_CONFIG_SUIT_MPI_ROOT_CLASS_NAME=\"c\"\nSB_CONFIG_SUIT_MPI_APP_LOCAL_1_VENDOR_NAME=\"v\"\nSB_CONFIG_SUIT_MPI_APP_LOCAL_1_CLASS_NAME=\"d\"\n")
      with | .ok [("v", "c", "APP_ROOT"), ("v", "d", "APP_LOCAL_1")] => true | _ => false) = true := by
  decide +kernel

end SuitVerif.Props.C13
