import SuitVerif.Props.C04
import SuitVerif.Props.C14
/-! # C18 — output depends only on the inputs

The models of create, parse, storage, MPI and cache generation are pure functions of their arguments (no state is
threaded between calls), so history-independence holds of them by construction; the weight of this property is on the
correspondence over histories (harness/props/c18.py).  What is proved here is the non-trivial part: signing and
encryption differ between runs *only* in the signature value and in IV / ciphertext. -/
namespace SuitVerif.Props.C18
open SuitVerif SuitVerif.Sign SuitVerif.Encrypt

/-- two signing runs of the same envelope (same algorithm and key id) with different signature primitives produce
outputs of the same form `F sig`: they can differ only where the signature bytes sit -/
theorem C18_sign_diff_only_sig (f g : Bytes → Option Bytes) (t : Nat) (m : List (Cbor × Cbor)) (alg : Alg) (keyId : Int)
    (action : Action) (o1 o2 : Cbor) (blocks : List Cbor) (d : Bytes) (rest : List Cbor) (digest : Cbor)
    (hw : wrapperList m = .ok blocks) (hb : blocks = .bstr d :: rest) (hd : loads d = some digest)
    (hns : firstSign1 blocks = some none)
    (h1 : signEnvelope f (.tag t (.map m)) alg keyId action = .ok o1)
    (h2 : signEnvelope g (.tag t (.map m)) alg keyId action = .ok o2) :
    ∃ (F : Bytes → Cbor) (s1 s2 : Bytes), o1 = F s1 ∧ o2 = F s2 := by
  obtain ⟨s1, _, e1⟩ := C04.C04_appended f t m alg keyId action o1 blocks d rest digest hw hb hd hns h1
  obtain ⟨s2, _, e2⟩ := C04.C04_appended g t m alg keyId action o2 blocks d rest digest hw hb hd hns h2
  exact ⟨fun sig => .tag t (.map (Sign.mapSet m (.uint 2)
    (.bstr (enc (.arr (blocks ++ [.bstr (enc (authBlock (enc (protectedMap alg keyId)) sig))])))))), s1, s2, e1, e2⟩

/-- two encryption runs of the same firmware and key id: the published info reads identically except for the IV -/
theorem C18_encrypt_diff_only_iv (gcm : GcmEnc) (key n1 n2 fw : Bytes) (keyId : Int)
    (h1 : n1.length = 12) (h2 : n2.length = 12) (hk : -(2 ^ 64 : Int) ≤ keyId ∧ keyId < 2 ^ 64) :
    ∃ v1 v2, readInfo (encryptAndGenerate ⟨Generated.aadLiteral⟩ gcm key n1 fw keyId).encryptionInfo = some v1
      ∧ readInfo (encryptAndGenerate ⟨Generated.aadLiteral⟩ gcm key n2 fw keyId).encryptionInfo = some v2
      ∧ v1.iv = n1 ∧ v2.iv = n2 ∧ v1.protectedBytes = v2.protectedBytes ∧ v1.keyId = v2.keyId
      ∧ v1.kwAlg = v2.kwAlg ∧ v1.cek = v2.cek := by
  have hshape := fun (n : Bytes) (hn : n.length = 12) =>
    C06.C06_info_shape n none keyId (-6) hk (by decide) (by omega) (by intro c h; cases h)
  have take12 : ∀ (n x y : Bytes), n.length = 12 → (n ++ x ++ y).take 12 = n := by
    intro n x y hn; rw [List.append_assoc, List.take_left' hn]
  refine ⟨{ protectedBytes := protectedHeader, iv := n1, keyId := keyId, kwAlg := -6, cek := none },
    { protectedBytes := protectedHeader, iv := n2, keyId := keyId, kwAlg := -6, cek := none }, ?_, ?_, rfl, rfl, rfl, rfl, rfl, rfl⟩
  · simp only [encryptAndGenerate, generate, splitAsset, take12 _ _ _ h1]
    exact hshape n1 h1
  · simp only [encryptAndGenerate, generate, splitAsset, take12 _ _ _ h2]
    exact hshape n2 h2

end SuitVerif.Props.C18
