import SuitVerif.EncodeProofs
import SuitVerif.CborProofs
import SuitVerif.Spec
import SuitVerif.Registry
import SuitVerif.Generated.Schema
/-! # C01 — created envelopes carry correct manifest and severed-member digests

`Spec.check1` / `Spec.checkRec` (Spec.lean) are the byte-level statement evaluated on the real tool's output.
The theorems below are about the model of `create`: they hold for every schema, file system, hash function and
description, with no bound on sizes or nesting.  What is *not yet* a theorem: the bridge from the tree that is
serialised to `Spec.check1` of its bytes (it needs the typing of nodes built over `Generated.schema`); that step is
covered by evaluating `Spec.checkRec` on the implementation's bytes and by byte-for-byte correspondence. -/
namespace SuitVerif.Props.C01
open SuitVerif SuitVerif.Encode

/-- **Node level, all inputs.** The tree `create` serialises has, in its authentication wrapper, the declared hash of
the manifest's wrapped bytes (`to_cbor()` of the `bstr .cbor` manifest member of *that* tree), and every digest
reference to a severed member that is present equals the declared hash of that member's wrapped bytes. -/
theorem C01_create_digests (cx : Ctx) (fuel : Nat) (o : Obj) (out : Bytes) (h : create cx fuel o = .ok out) :
    ∃ n, out = n.toBytes ∧ DigestsOk cx n := create_digests cx fuel o out h

/-- a digest supplied in the description never survives: whatever the wrapper's digest node held before,
`update_digest` leaves exactly the hash of the manifest there -/
theorem C01_supplied_ignored (cx : Ctx) (env env' : Node) (h : updateDigest cx env = .ok env') :
    ∃ t name es' m d' alg hd, env' = .tagged t name (.kv es') ∧ kvGet es' 3 = some m ∧ authDigest es' = some d'
      ∧ digestAlg d' = some alg ∧ cx.hash alg m.toBytes = some hd ∧ digestBytes d' = some hd := by
  obtain ⟨t, name, _, es', m, d', alg, hd, _, h2, _, h4, h5, h6, h7, h8⟩ := updateDigest_spec cx env env' h
  exact ⟨t, name, es', m, d', alg, hd, h2, h4, h5, h6, h7, h8⟩

/-- the hashed bytes of a `bstr .cbor` member are its content behind a 1/2/3/5/9-byte header, switching exactly at
24, 256, 65536 and 2^32 bytes - the boundaries the property names are ordinary cases of the statement -/
theorem C01_wrapped_header (b : Bytes) :
    (enc (.bstr b)).length = b.length +
      (if b.length < 24 then 1 else if b.length < 256 then 2 else if b.length < 65536 then 3
       else if b.length < 4294967296 then 5 else 9) := by
  simp only [enc, head, List.length_append]
  split
  · simp; omega
  · split
    · simp [beBytes_length]; omega
    · split
      · simp [beBytes_length]; omega
      · split <;> simp [beBytes_length] <;> omega

/-- the strict reader gives back exactly what was encoded, so the bytes the spec hashes (`enc` of a decoded member)
are the bytes of that member inside the envelope -/
theorem C01_span (out : Bytes) (c : Cbor) (h : decodeStrict out = some c) : out = enc c := decodeStrict_sound out c h

/-- the digest algorithms and lengths of the running code are the registry's (SHAKE128 → 16, SHAKE256 → 32 bytes) -/
theorem C01_hash_table : Generated.schema.hashes = Registry.hashLengths := by decide +kernel

end SuitVerif.Props.C01
