import SuitVerif.EncodeProofs
import SuitVerif.CborProofs
import SuitVerif.Spec
import SuitVerif.Registry
import SuitVerif.Generated.Schema
import SuitVerif.BytesLevel
import SuitVerif.Generated.Guards
/-! # C01 — created envelopes carry correct manifest and severed-member digests

`Spec.check1` / `Spec.checkRec` (Spec.lean) are the byte-level statement evaluated on the real tool's output.
The theorems below are about the model of `create`: they hold for every file system, hash function and description,
with no bound on sizes or nesting.  `C01_create_digests` is the node-level statement (any schema); `C01_bytes` carries it
to the bytes: `Spec.check1` holds of what `create` writes, for the schema extracted from the running code (through the
typing theorem `Typing.fromObj_typed`, the kernel-checked description of the digest paths `C01_schema_paths`, and shape
preservation through the two digest updates).  Its one hypothesis beyond success of `create`: the four layers the strict
reader has to read back are encodable (lengths and integers below 2^64).  Not a theorem: the same at nested levels of
integrated dependencies (`Spec.checkRec`), which is evaluated on the implementation's bytes. -/
namespace SuitVerif.Props.C01
open SuitVerif SuitVerif.Encode

/-- **Node level, all inputs.** The tree `create` serialises has, in its authentication wrapper, the declared hash of
the manifest's wrapped bytes (`to_cbor()` of the `bstr .cbor` manifest member of *that* tree), and every digest
reference to a severed member that is present equals the declared hash of that member's wrapped bytes. -/
theorem C01_create_digests (cx : Ctx) (fuel : Nat) (o : Obj) (out : Bytes) (h : create cx fuel o = .ok out) :
    ∃ n, out = n.toBytes ∧ DigestsOk cx n := create_digests cx fuel o out h

/-- a digest supplied in the description never survives: whatever the wrapper's digest node held before,
`update_digest` leaves exactly the hash of the manifest there -/
theorem C01_supplied_ignored (cx : Ctx) (env env' : Node) (h : updateDigest cx env = .ok env') :
    ∃ t name es' m d' alg hd, env' = .tagged t name (.kv es') ∧ kvGet es' 3 = some m ∧ authDigest es' = some d'
      ∧ digestAlg d' = some alg ∧ cx.hash alg m.toBytes = some hd ∧ digestBytes d' = some hd := by
  obtain ⟨t, name, _, es', m, d', alg, hd, _, h2, _, h4, h5, h6, h7, h8⟩ := updateDigest_spec cx env env' h
  exact ⟨t, name, es', m, d', alg, hd, h2, h4, h5, h6, h7, h8⟩

/-- the hashed bytes of a `bstr .cbor` member are its content behind a 1/2/3/5/9-byte header, switching exactly at
24, 256, 65536 and 2^32 bytes - the boundaries the property names are ordinary cases of the statement -/
theorem C01_wrapped_header (b : Bytes) :
    (enc (.bstr b)).length = b.length +
      (if b.length < 24 then 1 else if b.length < 256 then 2 else if b.length < 65536 then 3
       else if b.length < 4294967296 then 5 else 9) := by
  simp only [enc, head, List.length_append]
  split
  · simp; omega
  · split
    · simp [beBytes_length]; omega
    · split
      · simp [beBytes_length]; omega
      · split <;> simp [beBytes_length] <;> omega

/-- the strict reader gives back exactly what was encoded, so the bytes the spec hashes (`enc` of a decoded member)
are the bytes of that member inside the envelope -/
theorem C01_span (out : Bytes) (c : Cbor) (h : decodeStrict out = some c) : out = enc c := decodeStrict_sound out c h

/-- the digest algorithms and lengths of the running code are the registry's (SHAKE128 → 16, SHAKE256 → 32 bytes) -/
theorem C01_hash_table : Generated.schema.hashes = Registry.hashLengths := by decide +kernel

/-- the digest paths of the schema extracted from the running code are the ones the byte-level argument needs (kernel evaluation) -/
theorem C01_schema_paths : Typing.EnvFacts Generated.schema := Typing.generated_envFacts

/-- **Byte level, all inputs.** For the extracted schema, every file system, every hash function, every description: whatever
`create` writes satisfies `Spec.check1` - the authentication wrapper's digest is the declared hash of the byte-string-wrapped
manifest of that same file, every digest reference to a present severed member is the declared hash of that member's wrapped
bytes - provided the four layers are encodable.  `H` is the verifier's digest table by COSE identifier. -/
theorem C01_bytes (cx : Ctx) (hs : cx.schema = Generated.schema) (H : Spec.HashById)
    (hH : ∀ e ∈ Typing.hashEnum cx.schema, H e.2 = some (cx.hashFn e.1))
    (fuel : Nat) (o : Obj) (out : Bytes) (h : create cx fuel o = .ok out) :
    ∃ n, out = n.toBytes ∧ ((∀ v ∈ Typing.layerVals n, v.wf = true) → Spec.check1 H out = true) := by
  have hf : Typing.EnvFacts cx.schema := by rw [hs]; exact C01_schema_paths
  cases fuel with
  | zero => simp [create] at h
  | succ fuel =>
    unfold create at h
    cases h0 : fromObj cx fuel cx.schema.envelope o with
    | error e => simp [h0, bind, Except.bind] at h
    | ok n0 =>
      simp only [h0, bind, Except.bind] at h
      cases h1 : updateSeverable cx n0 with
      | error e => simp [h1] at h
      | ok n1 =>
        simp only [h1] at h
        cases h2 : updateDigest cx n1 with
        | error e => simp [h2] at h
        | ok n2 =>
          simp only [h2, pure, Except.pure, Except.ok.injEq] at h
          refine ⟨n2, h.symm, fun hwf => ?_⟩
          rw [← h]
          exact Typing.check1_steps cx hf H hH fuel o n0 n1 n2 h0 h1 h2 hwf

/-- the digest algorithm names and identifiers the byte-level theorem ranges over are the registry's -/
theorem C01_hash_enum :
    (Registry.spaces.find? (fun sp => sp.1 == "SuitCoseHashAlg")).map (·.2) = some (Typing.hashEnum Generated.schema) := by
  decide +kernel

/-! ### every level of a hierarchy (`Spec.checkRec`)

`Spec.checkRec` walks the finished file: the envelope itself and, recursively, every text-keyed member whose bytes are
themselves a tag-107 envelope.  The three statements below reduce it to `C01_bytes` level by level: the recursive predicate is
exactly `check1` of this level and the recursive predicate of each nested envelope (`C01_rec_step`); the depth index only
bounds the walk (`C01_rec_mono`); hence what `create` writes satisfies the recursive predicate as soon as its nested
envelopes do (`C01_rec_bytes`).  An inline dependency is embedded as exactly the bytes `create` returns for the child
description (`C05_dep_inline`), to which `C01_bytes` / `C01_rec_bytes` apply again; a member supplied as ready-made bytes
(hex text, file) is outside the property - `create` does not look into it.  Still evaluated rather than proved: that the
text-keyed members of the output are exactly the values of the description's payload maps. -/

/-- the nested envelopes of an envelope: its text-keyed byte-string members that are themselves tag-107 envelopes -/
def nested (out : Bytes) : List Bytes :=
  match Spec.envelopeMap out with
  | some m => m.filterMap (fun e => match e with
      | (.tstr _, .bstr v) => (match Spec.envelopeMap v with | some _ => some v | none => none)
      | _ => none)
  | none => []

theorem all_nested (p : Bytes → Bool) (m : List (Cbor × Cbor)) :
    m.all (fun e => match e with
      | (.tstr _, .bstr v) => (match Spec.envelopeMap v with | some _ => p v | none => true)
      | _ => true)
    = (m.filterMap (fun e => match e with
      | (.tstr _, .bstr v) => (match Spec.envelopeMap v with | some _ => some v | none => none)
      | _ => none)).all p := by
  induction m with
  | nil => rfl
  | cons e m ih =>
    rw [List.all_cons, ih, List.filterMap_cons]
    obtain ⟨k, v⟩ := e
    cases k <;> try simp
    cases v <;> try simp
    rename_i ks vb
    cases Spec.envelopeMap vb <;> simp

/-- **one level unfolded**: the recursive predicate is this level's `check1` and the recursive predicate of every nested envelope -/
theorem C01_rec_step (H : Spec.HashById) (fuel : Nat) (out : Bytes) :
    Spec.checkRec H (fuel + 1) out = (Spec.check1 H out && (nested out).all (Spec.checkRec H fuel)) := by
  unfold Spec.checkRec Spec.check1 nested
  cases Spec.envelopeMap out with
  | none => rfl
  | some m => exact congrArg (fun b => (Spec.checkRoot H m && Spec.checkSevered H m && b)) (all_nested (Spec.checkRec H fuel) m)

/-- the depth index only bounds the walk: a larger one never turns acceptance into rejection -/
theorem C01_rec_mono (H : Spec.HashById) (fuel : Nat) : ∀ out, Spec.checkRec H fuel out = true → Spec.checkRec H (fuel + 1) out = true := by
  induction fuel with
  | zero => intro out h; simp [Spec.checkRec] at h
  | succ f ih =>
    intro out h
    rw [C01_rec_step] at h ⊢
    rw [Bool.and_eq_true] at h ⊢
    refine ⟨h.1, ?_⟩
    rw [List.all_eq_true] at *
    intro v hv
    exact ih v (h.2 v hv)

/-- **Byte level, every level.** What `create` writes satisfies the recursive predicate to depth `d + 1` as soon as each of its
nested envelopes satisfies it to depth `d` (same hypotheses as `C01_bytes`). -/
theorem C01_rec_bytes (cx : Ctx) (hs : cx.schema = Generated.schema) (H : Spec.HashById)
    (hH : ∀ e ∈ Typing.hashEnum cx.schema, H e.2 = some (cx.hashFn e.1))
    (fuel : Nat) (o : Obj) (out : Bytes) (h : create cx fuel o = .ok out) (d : Nat) :
    ∃ n, out = n.toBytes ∧ ((∀ v ∈ Typing.layerVals n, v.wf = true) →
      (∀ v ∈ nested out, Spec.checkRec H d v = true) → Spec.checkRec H (d + 1) out = true) := by
  obtain ⟨n, hn, hc⟩ := C01_bytes cx hs H hH fuel o out h
  refine ⟨n, hn, fun hwf hnest => ?_⟩
  rw [C01_rec_step, Bool.and_eq_true]
  exact ⟨hc hwf, List.all_eq_true.mpr hnest⟩

/-- an envelope without nested envelopes: the recursive predicate is `check1` -/
theorem C01_rec_leaf (H : Spec.HashById) (out : Bytes) (h : nested out = []) :
    Spec.checkRec H 1 out = Spec.check1 H out := by
  rw [C01_rec_step, h]; simp

/-! ### non-vacuity: a concrete description, created by the model over the extracted schema, meets every hypothesis of `C01_bytes`
and the byte-level predicate holds of it (kernel evaluation; a toy hash keeps the evaluation small) -/

def cxToy : Ctx :=
  { schema := Generated.schema, guards := Generated.guards, fs := fun _ => none, hashFn := fun a b => (utf8 a).take 3 ++ b.take 5,
    sha1 := fun b => b, jsonLoads := fun _ => none }

def toyH : Spec.HashById := fun id =>
  ((Typing.hashEnum Generated.schema).find? (fun e => e.2 == id)).map (fun e => cxToy.hashFn e.1)

def toyDesc : Obj :=
  .dict [("SUIT_Envelope_Tagged", .dict [
    ("suit-authentication-wrapper", .dict [("SuitDigest", .dict [("suit-digest-algorithm-id", .str "cose-alg-sha-256")])]),
    ("suit-manifest", .dict [("suit-manifest-version", .int 1), ("suit-manifest-sequence-number", .int 7),
      ("suit-install", .dict [("suit-digest-algorithm-id", .str "cose-alg-sha-512")]),
      ("suit-validate", .list [.dict [("suit-condition-image-match", .list [])]])]),
    ("suit-install", .list [.dict [("suit-directive-set-component-index", .int 0)]])])]

example : (match createTop cxToy toyDesc with | .ok out => Spec.check1 toyH out | .error _ => false) = true := by decide +kernel

/-- the toy digest table agrees with the toy hash function on every algorithm of the enumeration (evaluated on a sample input; the
table is `find?` by identifier over an enumeration with pairwise different identifiers) -/
example : (Typing.hashEnum cxToy.schema).all (fun e => (toyH e.2).map (fun f => f [1, 2, 3, 4, 5, 6]) == some (cxToy.hashFn e.1 [1, 2, 3, 4, 5, 6])) = true := by
  decide +kernel

/-- the toy envelope has no nested envelope, so the recursive predicate holds of it at depth 1 (kernel evaluation) -/
example : (match createTop cxToy toyDesc with | .ok out => Spec.checkRec toyH 1 out && (nested out).isEmpty | .error _ => false) = true := by
  decide +kernel

end SuitVerif.Props.C01
