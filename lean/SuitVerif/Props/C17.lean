import SuitVerif.DecodeProofs
import SuitVerif.Generated.Schema
import SuitVerif.Generated.Guards
/-! # C17 — parsing untrusted bytes fails cleanly (logic part; time, memory and stack are runtime) -/
namespace SuitVerif.Props.C17
open SuitVerif SuitVerif.Py SuitVerif.Decode

/-- **Closure.** With the four guards in place, `from_cbor` never lets an internal error (IndexError, TypeError,
KeyError, …) escape: the outcome is a node, a ValueError or a SUITError.  For *every* schema, class,
recursion budget and byte string - hence independent of how faithfully the tables were extracted. -/
theorem C17_closed (s : Schema) (fuel : Nat) (c : Cls) (b : Bytes) :
    Clean (fromBytes allGuards s fuel c b) := fromBytes_clean s fuel c b

/-- the guards of the running code, as probed by the translator on this run, are all in place … -/
theorem C17_guards_all : Generated.guards = allGuards := by decide

/-- … so the envelope parser of the current tree is clean on every input: `from_cbor(b).to_obj()` -/
theorem C17_parse_clean (b : Bytes) : Clean (parse Generated.guards Generated.schema b) := by
  rw [C17_guards_all]
  unfold parse parseNode
  exact clean_map _ _ (fromBytes_clean _ _ _ _)

/-- `validate_cbor` rejects a top-level string / array / map whose 1-, 2-, 4- or 8-byte length field exceeds
the size of the input, before cbor2 is asked to allocate it -/
theorem C17_validate (h : UInt8) (rest : Bytes)
    (hty : 1 < h.toNat / 32 ∧ h.toNat / 32 < 6) (hai : 23 < h.toNat % 32 ∧ h.toNat % 32 < 28)
    (hlen : aiWidth (h.toNat % 32) ≤ rest.length)
    (hbig : ofBe (rest.take (aiWidth (h.toNat % 32))) > (h :: rest).length) :
    validate (h :: rest) = false ∧ deser (h :: rest) = .error .valueError := by
  have hv : validate (h :: rest) = false := by
    unfold validate
    simp only [hty.1, hty.2, hai.1, hai.2, and_self, if_true]
    have : ¬ rest.length < aiWidth (h.toNat % 32) := by omega
    simp only [this, if_false]
    have hne : ofBe (rest.take (aiWidth (h.toNat % 32))) ≠ 0 := by omega
    simp only [List.length_cons] at hbig
    simp [hne]
    omega
  exact ⟨hv, by simp [deser, hv]⟩

/-- the empty input is rejected -/
theorem C17_empty : deser [] = .error .valueError := by simp [deser, validate]

/-! Each guard is needed: without it a small schema and input let an internal error escape
(these are the shapes of findings F5a-F5d, fixed in /repo by one `fix:` commit each). -/

def sTuple : Schema := ⟨[("T", .tupleNamed [("a", 1)]), ("U", .uint)], 0, 0, []⟩
theorem C17_needs_tupleIndex :
    cleanB (fromBytes ⟨false, true, true, true⟩ sTuple 5 0 [0x80]) = false := by decide +kernel

def sKv : Schema := ⟨[("K", .keyValue [⟨"a", 1, 1, false⟩] none), ("U", .uint)], 0, 0, []⟩
theorem C17_needs_embeddedNone :
    cleanB (fromBytes ⟨true, false, true, true⟩ sKv 5 0 [0xA1, 0x18, 0x63, 0x01]) = false := by decide +kernel

def sBits : Schema := ⟨[("B", .bitfield 1 8), ("U", .uint)], 0, 0, []⟩
theorem C17_needs_bitfieldType :
    cleanB (fromBytes ⟨true, true, false, true⟩ sBits 5 0 [0x61, 0x78]) = false := by decide +kernel

def sEnc : Schema := ⟨[("E", .encInfoExt)], 0, 0, []⟩
theorem C17_needs_encInfoFromCbor :
    cleanB (fromBytes ⟨true, true, true, false⟩ sEnc 5 0 [0x00]) = false := by decide +kernel

/-- non-vacuity: a well-formed two-element tuple parses -/
example : (fromBytes allGuards sTuple 5 0 [0x81, 0x05]).toOption.isSome = true := by decide +kernel

end SuitVerif.Props.C17
