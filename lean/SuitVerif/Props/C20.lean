import SuitVerif.Version
/-! # C20 — version strings and default sequence numbers preserve release ordering -/
set_option linter.unusedSimpArgs false
namespace SuitVerif.Props.C20
open SuitVerif.Version

def preList : Option (Label × Option Nat) → List Int
  | none => []
  | some (l, none) => [l.code]
  | some (l, some n) => [l.code, (n : Int)]

theorem conv_eq (v : Ver) : conv v = v.nums.map (fun (n : Nat) => (n : Int)) ++ preList v.pre := by
  unfold conv preList; rcases v.pre with _ | ⟨l, _ | n⟩ <;> rfl

/-- a pre-release number written explicitly as 0 (`alpha.0`): the zero-padded list cannot tell it from `alpha` -/
def ExplicitZero : Option (Label × Option Nat) → Prop
  | some (_, some 0) => True
  | _ => False

theorem lt_same_len (xs ys : List Nat) (p q : List Int) (h : xs.length = ys.length) :
    listLt (xs.map (fun (n : Nat) => (n : Int)) ++ p) (ys.map (fun (n : Nat) => (n : Int)) ++ q)
      = (numsLt xs ys || (numsEq xs ys && listLt p q)) := by
  induction xs generalizing ys with
  | nil =>
    cases ys with
    | nil => simp [numsLt, numsEq, listLt, anyPos, allZero]
    | cons y ys => simp at h
  | cons x xs ih =>
    cases ys with
    | nil => simp at h
    | cons y ys =>
      simp only [List.length_cons, Nat.add_right_cancel_iff] at h
      simp only [List.map_cons, List.cons_append, listLt, numsLt, numsEq, ih ys h]
      by_cases h1 : x < y
      · have : (x : Int) < (y : Int) := by omega
        simp [h1, this]
      · by_cases h2 : y < x
        · have h3 : ¬ ((x : Int) < (y : Int)) := by omega
          have h4 : (y : Int) < (x : Int) := by omega
          have h5 : ¬ (x = y) := by omega
          simp [h1, h2, h3, h4, h5]
        · have h3 : ¬ ((x : Int) < (y : Int)) := by omega
          have h4 : ¬ ((y : Int) < (x : Int)) := by omega
          have h5 : x = y := by omega
          simp [h1, h2, h3, h4, h5]

theorem pre_lt (p q : Option (Label × Option Nat)) (hp : ¬ ExplicitZero p) (hq : ¬ ExplicitZero q) :
    listLt (preList p) (preList q) = preLt p q := by
  rcases p with _ | ⟨l1, _ | n1⟩ <;> rcases q with _ | ⟨l2, _ | n2⟩
  · simp [preList, listLt, zerosLt, ltZeros, preLt]
  · cases l2 <;> simp [preList, listLt, zerosLt, ltZeros, preLt, Label.code]
  · cases l2 <;> simp [preList, listLt, zerosLt, ltZeros, preLt, Label.code]
  · cases l1 <;> simp [preList, listLt, zerosLt, ltZeros, preLt, Label.code]
  · cases l1 <;> cases l2 <;> simp [preList, listLt, zerosLt, ltZeros, preLt, Label.code, Label.rank]
  · have hn : n2 ≠ 0 := by intro h; subst h; exact hq trivial
    cases l1 <;> cases l2 <;> simp [preList, listLt, zerosLt, ltZeros, preLt, Label.code, Label.rank] <;> omega
  · cases l1 <;> simp [preList, listLt, zerosLt, ltZeros, preLt, Label.code]
  · have hn : n1 ≠ 0 := by intro h; subst h; exact hp trivial
    cases l1 <;> cases l2 <;> simp [preList, listLt, zerosLt, ltZeros, preLt, Label.code, Label.rank] <;> omega
  · by_cases h1 : n1 < n2
    · cases l1 <;> cases l2 <;> simp [preList, listLt, zerosLt, ltZeros, preLt, Label.code, Label.rank, h1]
    · by_cases h3 : n2 < n1
      · cases l1 <;> cases l2 <;> simp [preList, listLt, zerosLt, ltZeros, preLt, Label.code, Label.rank, h1, h3]
      · cases l1 <;> cases l2 <;> simp [preList, listLt, zerosLt, ltZeros, preLt, Label.code, Label.rank, h1, h3]

/-- **Order, partial.** For versions with the same number of numeric fields and no pre-release number written
explicitly as 0, semantic-version precedence coincides with zero-padded element-wise comparison of the
integer lists.  Field values are unbounded. -/
theorem C20_order_partial (a b : Ver) (hlen : a.nums.length = b.nums.length)
    (ha : ¬ ExplicitZero a.pre) (hb : ¬ ExplicitZero b.pre) :
    semverLt a b = listLt (conv a) (conv b) := by
  rw [conv_eq, conv_eq, lt_same_len _ _ _ _ hlen, pre_lt _ _ ha hb]; rfl

/-- **Order, full statement fails** (finding F10a): different numbers of numeric fields.
`1.0.0-alpha < 1.0-rc` in semantic-version precedence, but `[1,0,0,-3]` is not below `[1,0,-1]`. -/
theorem C20_full_fails_mixed :
    ∃ a b : Ver, semverLt a b ≠ listLt (conv a) (conv b) :=
  ⟨⟨[1, 0, 0], some (.alpha, none)⟩, ⟨[1, 0], some (.rc, none)⟩, by decide⟩

/-- **Order, full statement fails** (finding F10b): `1.0.0-alpha < 1.0.0-alpha.0` by semver rule 11.4.4, but both
lists are equal under zero padding. -/
theorem C20_full_fails_zero :
    ∃ a b : Ver, a.nums.length = b.nums.length ∧ semverLt a b ≠ listLt (conv a) (conv b) :=
  ⟨⟨[1, 0, 0], some (.alpha, none)⟩, ⟨[1, 0, 0], some (.alpha, some 0)⟩, rfl, by decide⟩

/-- an unsupported pre-release label is rejected: a part that is neither numeric nor alpha/beta/rc converts to
nothing … -/
theorem C20_rejects_part (p : List Char) (h1 : isNumeric p = false) (h2 : labelOf p = none) :
    convertPart p = none := by
  simp [convertPart, h1, h2]

theorem allSome_none {α} (l : List (Option α)) (h : none ∈ l) : allSome l = none := by
  induction l with
  | nil => simp at h
  | cons x xs ih =>
    cases x with
    | none => simp [allSome]
    | some v =>
      simp only [List.mem_cons] at h
      rcases h with h | h
      · cases h
      · simp [allSome, ih h]

/-- … and a version string containing such a part is rejected as a whole. -/
theorem C20_rejects (s : List Char) (p : List Char) (hp : p ∈ splitOn '.' (replaceChar '-' '.' s))
    (h1 : isNumeric p = false) (h2 : labelOf p = none) : parseVersion s = none := by
  unfold parseVersion
  apply allSome_none
  rw [List.mem_map]
  exact ⟨p, hp, C20_rejects_part p h1 h2⟩

/-- lexicographic order on (major, minor, patch, tweak) -/
def lexLt (a b : Nat × Nat × Nat × Nat) : Prop :=
  a.1 < b.1 ∨ (a.1 = b.1 ∧ (a.2.1 < b.2.1 ∨ (a.2.1 = b.2.1 ∧ (a.2.2.1 < b.2.2.1 ∨ (a.2.2.1 = b.2.2.1 ∧ a.2.2.2 < b.2.2.2)))))

/-- the default sequence number is strictly increasing in (major, minor, patch, tweak) order whenever
minor, patch and tweak are below 256 (any major) -/
theorem C20_seq_strict (M m p t M' m' p' t' : Nat)
    (h1 : m < 256) (h2 : p < 256) (h3 : t < 256) (h1' : m' < 256) (h2' : p' < 256) (h3' : t' < 256) :
    lexLt (M, m, p, t) (M', m', p', t') ↔ seqNum M m p t < seqNum M' m' p' t' := by
  simp only [lexLt, seqNum]
  omega

/-- outside that range the order can break: minor = 256 collides with the next major -/
theorem C20_seq_needs_range : seqNum 1 256 0 0 = seqNum 2 0 0 0 := by decide

example : parseVersion "1.2.3-rc.4".toList = some [1, 2, 3, -1, 4] := by decide
example : parseVersion "1.2.3-gamma".toList = none := by decide
example : defaultVersion "1".toList "2".toList "3".toList (some "rc1".toList) = "1.2.3-rc.1".toList := by decide

end SuitVerif.Props.C20
