import SuitVerif.Version
/-! # C20 — version strings and default sequence numbers preserve release ordering -/
set_option linter.unusedSimpArgs false
namespace SuitVerif.Props.C20
open SuitVerif.Version

def preList : Option (Label × Option Nat) → List Int
  | none => []
  | some (l, none) => [l.code]
  | some (l, some n) => [l.code, (n : Int)]

theorem conv_eq (v : Ver) : conv v = v.nums.map (fun (n : Nat) => (n : Int)) ++ preList v.pre := by
  unfold conv preList; rcases v.pre with _ | ⟨l, _ | n⟩ <;> rfl

/-- a pre-release number written explicitly as 0 (`alpha.0`): the zero-padded list cannot tell it from `alpha` -/
def ExplicitZero : Option (Label × Option Nat) → Prop
  | some (_, some 0) => True
  | _ => False

theorem lt_same_len (xs ys : List Nat) (p q : List Int) (h : xs.length = ys.length) :
    listLt (xs.map (fun (n : Nat) => (n : Int)) ++ p) (ys.map (fun (n : Nat) => (n : Int)) ++ q)
      = (numsLt xs ys || (numsEq xs ys && listLt p q)) := by
  induction xs generalizing ys with
  | nil =>
    cases ys with
    | nil => simp [numsLt, numsEq, listLt, anyPos, allZero]
    | cons y ys => simp at h
  | cons x xs ih =>
    cases ys with
    | nil => simp at h
    | cons y ys =>
      simp only [List.length_cons, Nat.add_right_cancel_iff] at h
      simp only [List.map_cons, List.cons_append, listLt, numsLt, numsEq, ih ys h]
      by_cases h1 : x < y
      · have : (x : Int) < (y : Int) := by omega
        simp [h1, this]
      · by_cases h2 : y < x
        · have h3 : ¬ ((x : Int) < (y : Int)) := by omega
          have h4 : (y : Int) < (x : Int) := by omega
          have h5 : ¬ (x = y) := by omega
          simp [h1, h2, h3, h4, h5]
        · have h3 : ¬ ((x : Int) < (y : Int)) := by omega
          have h4 : ¬ ((y : Int) < (x : Int)) := by omega
          have h5 : x = y := by omega
          simp [h1, h2, h3, h4, h5]

theorem pre_lt (p q : Option (Label × Option Nat)) (hp : ¬ ExplicitZero p) (hq : ¬ ExplicitZero q) :
    listLt (preList p) (preList q) = preLt p q := by
  rcases p with _ | ⟨l1, _ | n1⟩ <;> rcases q with _ | ⟨l2, _ | n2⟩
  · simp [preList, listLt, zerosLt, ltZeros, preLt]
  · cases l2 <;> simp [preList, listLt, zerosLt, ltZeros, preLt, Label.code]
  · cases l2 <;> simp [preList, listLt, zerosLt, ltZeros, preLt, Label.code]
  · cases l1 <;> simp [preList, listLt, zerosLt, ltZeros, preLt, Label.code]
  · cases l1 <;> cases l2 <;> simp [preList, listLt, zerosLt, ltZeros, preLt, Label.code, Label.rank]
  · have hn : n2 ≠ 0 := by intro h; subst h; exact hq trivial
    cases l1 <;> cases l2 <;> simp [preList, listLt, zerosLt, ltZeros, preLt, Label.code, Label.rank] <;> omega
  · cases l1 <;> simp [preList, listLt, zerosLt, ltZeros, preLt, Label.code]
  · have hn : n1 ≠ 0 := by intro h; subst h; exact hp trivial
    cases l1 <;> cases l2 <;> simp [preList, listLt, zerosLt, ltZeros, preLt, Label.code, Label.rank] <;> omega
  · by_cases h1 : n1 < n2
    · cases l1 <;> cases l2 <;> simp [preList, listLt, zerosLt, ltZeros, preLt, Label.code, Label.rank, h1]
    · by_cases h3 : n2 < n1
      · cases l1 <;> cases l2 <;> simp [preList, listLt, zerosLt, ltZeros, preLt, Label.code, Label.rank, h1, h3]
      · cases l1 <;> cases l2 <;> simp [preList, listLt, zerosLt, ltZeros, preLt, Label.code, Label.rank, h1, h3]

/-- **Order, partial.** For versions with the same number of numeric fields and no pre-release number written
explicitly as 0, semantic-version precedence coincides with zero-padded element-wise comparison of the
integer lists.  Field values are unbounded. -/
theorem C20_order_partial (a b : Ver) (hlen : a.nums.length = b.nums.length)
    (ha : ¬ ExplicitZero a.pre) (hb : ¬ ExplicitZero b.pre) :
    semverLt a b = listLt (conv a) (conv b) := by
  rw [conv_eq, conv_eq, lt_same_len _ _ _ _ hlen, pre_lt _ _ ha hb]; rfl

/-- **Order, full statement fails** (finding F10a): different numbers of numeric fields.
`1.0.0-alpha < 1.0-rc` in semantic-version precedence, but `[1,0,0,-3]` is not below `[1,0,-1]`. -/
theorem C20_full_fails_mixed :
    ∃ a b : Ver, semverLt a b ≠ listLt (conv a) (conv b) :=
  ⟨⟨[1, 0, 0], some (.alpha, none)⟩, ⟨[1, 0], some (.rc, none)⟩, by decide⟩

/-- **Order, full statement fails** (finding F10b): `1.0.0-alpha < 1.0.0-alpha.0` by semver rule 11.4.4, but both
lists are equal under zero padding. -/
theorem C20_full_fails_zero :
    ∃ a b : Ver, a.nums.length = b.nums.length ∧ semverLt a b ≠ listLt (conv a) (conv b) :=
  ⟨⟨[1, 0, 0], some (.alpha, none)⟩, ⟨[1, 0, 0], some (.alpha, some 0)⟩, rfl, by decide⟩

/-- an unsupported pre-release label is rejected: a part that is neither numeric nor alpha/beta/rc converts to
nothing … -/
theorem C20_rejects_part (p : List Char) (h1 : isNumeric p = false) (h2 : labelOf p = none) :
    convertPart p = none := by
  simp [convertPart, h1, h2]

theorem allSome_none {α} (l : List (Option α)) (h : none ∈ l) : allSome l = none := by
  induction l with
  | nil => simp at h
  | cons x xs ih =>
    cases x with
    | none => simp [allSome]
    | some v =>
      simp only [List.mem_cons] at h
      rcases h with h | h
      · cases h
      · simp [allSome, ih h]

/-- … and a version string containing such a part is rejected as a whole. -/
theorem C20_rejects (s : List Char) (p : List Char) (hp : p ∈ splitOn '.' (replaceChar '-' '.' s))
    (h1 : isNumeric p = false) (h2 : labelOf p = none) : parseVersion s = none := by
  unfold parseVersion
  apply allSome_none
  rw [List.mem_map]
  exact ⟨p, hp, C20_rejects_part p h1 h2⟩

/-- lexicographic order on (major, minor, patch, tweak) -/
def lexLt (a b : Nat × Nat × Nat × Nat) : Prop :=
  a.1 < b.1 ∨ (a.1 = b.1 ∧ (a.2.1 < b.2.1 ∨ (a.2.1 = b.2.1 ∧ (a.2.2.1 < b.2.2.1 ∨ (a.2.2.1 = b.2.2.1 ∧ a.2.2.2 < b.2.2.2)))))

/-- the default sequence number is strictly increasing in (major, minor, patch, tweak) order whenever
minor, patch and tweak are below 256 (any major) -/
theorem C20_seq_strict (M m p t M' m' p' t' : Nat)
    (h1 : m < 256) (h2 : p < 256) (h3 : t < 256) (h1' : m' < 256) (h2' : p' < 256) (h3' : t' < 256) :
    lexLt (M, m, p, t) (M', m', p', t') ↔ seqNum M m p t < seqNum M' m' p' t' := by
  simp only [lexLt, seqNum]
  omega

/-- outside that range the order can break: minor = 256 collides with the next major -/
theorem C20_seq_needs_range : seqNum 1 256 0 0 = seqNum 2 0 0 0 := by decide

/-! ### the supported grammar is parsed to the draft's integer list -/


def natText (n : Nat) : List Char := Nat.toDigits 10 n

def joinWith (sep : Char) : List (List Char) → List Char
  | [] => []
  | [s] => s
  | s :: t :: rest => s ++ sep :: joinWith sep (t :: rest)

def preSegs : Option (Label × Option Nat) → List (List Char)
  | none => []
  | some (l, none) => [l.text]
  | some (l, some n) => [l.text, natText n]

/-- the text of a version of the supported grammar: `N(.N)*[-(alpha|beta|rc)[.N]]` -/
def render (v : Ver) : List Char :=
  joinWith '.' (v.nums.map natText) ++
    (match v.pre with
     | none => []
     | some (l, none) => '-' :: l.text
     | some (l, some n) => '-' :: (l.text ++ '.' :: natText n))

theorem natText_digit (n : Nat) (c : Char) (h : c ∈ natText n) : isDigit c = true := by
  have := Nat.isDigit_of_mem_toDigits (b := 10) (by decide) (by decide) h
  simpa [isDigit, Char.isDigit, Char.le_def] using this

theorem splitOn_ne_nil (sep : Char) (s : List Char) : splitOn sep s ≠ [] := by
  induction s with
  | nil => simp [splitOn]
  | cons c rest ih =>
    unfold splitOn
    split
    · simp
    · split
      · simp
      · simp

theorem splitOn_clean (sep : Char) (s : List Char) (h : sep ∉ s) : splitOn sep s = [s] := by
  induction s with
  | nil => simp [splitOn]
  | cons c rest ih =>
    simp only [List.mem_cons, not_or] at h
    have hc : ¬ (c = sep) := fun e => h.1 e.symm
    simp [splitOn, hc, ih h.2]

theorem splitOn_append (sep : Char) (s t : List Char) (h : sep ∉ s) :
    splitOn sep (s ++ sep :: t) = s :: splitOn sep t := by
  induction s with
  | nil => simp [splitOn]
  | cons c rest ih =>
    simp only [List.mem_cons, not_or] at h
    have hc : ¬ (c = sep) := fun e => h.1 e.symm
    simp [splitOn, hc, ih h.2]

theorem splitOn_join (sep : Char) (segs : List (List Char)) (hne : segs ≠ []) (h : ∀ s ∈ segs, sep ∉ s) :
    splitOn sep (joinWith sep segs) = segs := by
  induction segs with
  | nil => exact absurd rfl hne
  | cons s rest ih =>
    cases rest with
    | nil => simpa [joinWith] using splitOn_clean sep s (h s (by simp))
    | cons t rest =>
      simp only [joinWith]
      rw [splitOn_append sep s _ (h s (by simp)), ih (by simp) (fun x hx => h x (by simp [hx]))]


theorem joinWith_append (sep : Char) (a b : List (List Char)) (ha : a ≠ []) (hb : b ≠ []) :
    joinWith sep (a ++ b) = joinWith sep a ++ sep :: joinWith sep b := by
  induction a with
  | nil => exact absurd rfl ha
  | cons s rest ih =>
    cases rest with
    | nil =>
      cases b with
      | nil => exact absurd rfl hb
      | cons t r => simp [joinWith]
    | cons t r =>
      have := ih (by simp)
      simp only [List.cons_append] at this ⊢
      simp [joinWith, this]

theorem replaceChar_clean (a b : Char) (s : List Char) (h : a ∉ s) : replaceChar a b s = s := by
  induction s with
  | nil => rfl
  | cons c rest ih =>
    simp only [List.mem_cons, not_or] at h
    have hc : ¬ (c = a) := fun e => h.1 e.symm
    simp only [replaceChar, List.map_cons, hc, if_false] at ih ⊢
    rw [ih h.2]

theorem replaceChar_append (a b : Char) (s t : List Char) : replaceChar a b (s ++ t) = replaceChar a b s ++ replaceChar a b t := by
  simp [replaceChar]

theorem natText_no (n : Nat) (c : Char) (hc : isDigit c = false) : c ∉ natText n := by
  intro h; have := natText_digit n c h; simp [hc] at this

theorem join_no (c : Char) (hc : isDigit c = false) (hd : c ≠ '.') (ns : List Nat) : c ∉ joinWith '.' (ns.map natText) := by
  induction ns with
  | nil => simp [joinWith]
  | cons n rest ih =>
    cases rest with
    | nil => simpa [joinWith] using natText_no n c hc
    | cons m r =>
      simp only [List.map_cons, joinWith, List.mem_append, List.mem_cons, not_or] at ih ⊢
      exact ⟨natText_no n c hc, hd, ih⟩

theorem label_no_dash (l : Label) : '-' ∉ l.text := by cases l <;> decide
theorem label_no_dot (l : Label) : '.' ∉ l.text := by cases l <;> decide

theorem render_dots (v : Ver) (hne : v.nums ≠ []) :
    replaceChar '-' '.' (render v) = joinWith '.' (v.nums.map natText ++ preSegs v.pre) := by
  have hn : '-' ∉ joinWith '.' (v.nums.map natText) := join_no '-' (by decide) (by decide) _
  have hm : v.nums.map natText ≠ [] := by simpa using hne
  unfold render
  rcases v.pre with _ | ⟨l, _ | n⟩
  · simp [preSegs, replaceChar_clean _ _ _ hn]
  · rw [replaceChar_append, replaceChar_clean _ _ _ hn, joinWith_append _ _ _ hm (by simp [preSegs])]
    simp [preSegs, joinWith, replaceChar, replaceChar_clean _ _ _ (label_no_dash l)]
    have := replaceChar_clean '-' '.' _ (label_no_dash l)
    simpa [replaceChar] using this
  · rw [replaceChar_append, replaceChar_clean _ _ _ hn, joinWith_append _ _ _ hm (by simp [preSegs])]
    have h1 := replaceChar_clean '-' '.' _ (label_no_dash l)
    have h2 := replaceChar_clean '-' '.' _ (natText_no n '-' (by decide))
    simp only [replaceChar] at h1 h2
    simp [preSegs, joinWith, replaceChar, h1, h2]

theorem digitsToNat_eq (s : List Char) : digitsToNat s = Nat.ofDigitChars 10 s 0 := by
  unfold digitsToNat Nat.ofDigitChars
  congr 1; funext acc c; simp [Nat.mul_comm]

theorem convertPart_nat (n : Nat) : convertPart (natText n) = some (n : Int) := by
  have h1 : isNumeric (natText n) = true := by
    simp only [isNumeric, Bool.and_eq_true, Bool.not_eq_true', List.all_eq_true]
    refine ⟨?_, fun c hc => natText_digit n c hc⟩
    have := Nat.toDigits_ne_nil (n := n) (b := 10)
    cases h : natText n with
    | nil => exact absurd h this
    | cons _ _ => rfl
  unfold convertPart
  rw [if_pos h1]
  simp [digitsToNat_eq, natText]

theorem convertPart_label (l : Label) : convertPart l.text = some l.code := by cases l <;> decide

theorem allSome_map_some {α β} (f : α → Option β) (g : α → β) (l : List α) (h : ∀ x ∈ l, f x = some (g x)) :
    allSome (l.map f) = some (l.map g) := by
  induction l with
  | nil => rfl
  | cons x xs ih =>
    simp [allSome, h x (by simp), ih (fun y hy => h y (by simp [hy]))]

theorem allSome_append {α} (a b : List (Option α)) (x y : List α) (ha : allSome a = some x) (hb : allSome b = some y) :
    allSome (a ++ b) = some (x ++ y) := by
  induction a generalizing x with
  | nil => simp [allSome] at ha; subst ha; simpa using hb
  | cons o rest ih =>
    cases o with
    | none => simp [allSome] at ha
    | some v =>
      simp only [allSome, Option.map_eq_some_iff] at ha
      obtain ⟨r, hr, rfl⟩ := ha
      simp [allSome, ih r hr]

/-- **Parsing the supported grammar.** Every version of the grammar `N(.N)*[-(alpha|beta|rc)[.N]]`, with unbounded
numbers, is accepted and read as the integer list the draft assigns to it. -/
theorem C20_parse_render (v : Ver) (hne : v.nums ≠ []) : parseVersion (render v) = some (conv v) := by
  obtain ⟨nums, pre⟩ := v
  simp only at hne
  unfold parseVersion
  rw [render_dots _ hne, splitOn_join]
  · rw [List.map_append, conv_eq]
    apply allSome_append
    · rw [List.map_map]
      exact allSome_map_some _ _ _ (fun n _ => convertPart_nat n)
    · rcases pre with _ | ⟨l, _ | n⟩
      · rfl
      · simp [preSegs, preList, allSome, convertPart_label]
      · simp [preSegs, preList, allSome, convertPart_label, convertPart_nat]
  · simp [hne]
  · intro s hs
    simp only [List.mem_append, List.mem_map] at hs
    rcases hs with ⟨n, _, rfl⟩ | hs
    · exact natText_no n '.' (by decide)
    · rcases pre with _ | ⟨l, _ | n⟩
      · simp [preSegs] at hs
      · simp only [preSegs, List.mem_singleton] at hs; subst hs; exact label_no_dot l
      · simp only [preSegs, List.mem_cons, List.not_mem_nil, or_false] at hs
        rcases hs with rfl | rfl
        · exact label_no_dot l
        · exact natText_no n '.' (by decide)

example : render ⟨[1, 20, 3], some (.rc, some 4)⟩ = "1.20.3-rc.4".toList := by decide

/-! ### the default version string of `ncs/build.py` is in the grammar -/


theorem natText_all_digit (n : Nat) : (natText n).all isDigit = true := by
  rw [List.all_eq_true]; exact fun c hc => natText_digit n c hc

theorem natText_ne_nil (n : Nat) : natText n ≠ [] := Nat.toDigits_ne_nil

theorem natText_head_not_dot (n : Nat) : ∀ r, natText n ≠ '.' :: r := by
  intro r h
  have : '.' ∈ natText n := by rw [h]; simp
  exact natText_no n '.' (by decide) this

/-- `EXTRAVERSION` of the forms `label`, `labelN`, `label.N` is recognised as that label and number -/
theorem matchExtra_label (l : Label) : matchExtra l.text = some (l, none) := by cases l <;> decide

theorem matchExtra_label_num (l : Label) (n : Nat) (dot : Bool) :
    matchExtra (l.text ++ (if dot then ['.'] else []) ++ natText n) = some (l, some (natText n)) := by
  have hd := natText_all_digit n
  have hne := natText_ne_nil n
  cases hnt : natText n with
  | nil => exact absurd hnt hne
  | cons c cs =>
    have hc : c ≠ '.' := by
      intro h; subst h; exact natText_head_not_dot n cs hnt
    rw [hnt] at hd
    cases l <;> cases dot <;>
      simp [matchExtra, Label.text, List.isPrefixOf, Option.orElse, hd, hc, List.drop]
  

/-- the `EXTRAVERSION` text of a pre-release (`dot`: written `rc.1` rather than `rc1`) -/
def extraOf (pre : Option (Label × Option Nat)) (dot : Bool) : Option (List Char) :=
  match pre with
  | none => none
  | some (l, none) => some l.text
  | some (l, some n) => some (l.text ++ (if dot then ['.'] else []) ++ natText n)

/-- **Default version string.** For every VERSION file with numeric MAJOR / MINOR / PATCHLEVEL and an EXTRAVERSION that is absent or of
the form label, labelN or label.N, the default version string `ncs/build.py` derives is the text of the grammar for exactly that
version (unbounded numbers) … -/
theorem C20_default_version (M m p : Nat) (pre : Option (Label × Option Nat)) (dot : Bool) :
    defaultVersion (natText M) (natText m) (natText p) (extraOf pre dot) = render ⟨[M, m, p], pre⟩ := by
  rcases pre with _ | ⟨l, _ | n⟩
  · simp [defaultVersion, extraOf, render, joinWith, List.append_assoc]
  · simp [defaultVersion, extraOf, render, joinWith, matchExtra_label, List.append_assoc]
  · simp only [defaultVersion, extraOf, matchExtra_label_num, render, joinWith, List.map_cons, List.map_nil]
    simp [List.append_assoc]

/-- … and therefore the manifest encoder reads it as the integer list the draft assigns to that version -/
theorem C20_default_version_parses (M m p : Nat) (pre : Option (Label × Option Nat)) (dot : Bool) :
    parseVersion (defaultVersion (natText M) (natText m) (natText p) (extraOf pre dot)) = some (conv ⟨[M, m, p], pre⟩) := by
  rw [C20_default_version]; exact C20_parse_render _ (by simp)

example : defaultVersion (natText 1) (natText 2) (natText 3) (extraOf (some (.rc, some 1)) false) = "1.2.3-rc.1".toList := by decide

example : parseVersion "1.2.3-rc.4".toList = some [1, 2, 3, -1, 4] := by decide
example : parseVersion "1.2.3-gamma".toList = none := by decide
example : defaultVersion "1".toList "2".toList "3".toList (some "rc1".toList) = "1.2.3-rc.1".toList := by decide

end SuitVerif.Props.C20
