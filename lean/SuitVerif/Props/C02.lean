import SuitVerif.Props.C08
import SuitVerif.CborProofs
import SuitVerif.Decode
import SuitVerif.Typing
/-! # C02 — envelope wire format is the SUIT/COSE encoding of the description

Decomposed: (1) vocabulary = registry (C08, re-exported); (2) byte-string wrapping at exactly the prescribed layers and
command sequences as flat pairs: tables checked by the kernel against the extracted schema; (3) definite-length
shortest form, order preservation and single wrapping as theorems about the encoder (`Node.toVal` / `Node.toBytes`);
(4) the three-way comparison with the verifier's reference encoder on every generated description (harness). -/
namespace SuitVerif.Props.C02
open SuitVerif

/-- (1) every registered name has its registered integer in the running code -/
theorem C02_vocabulary :
    Registry.spaces.all (fun sp => sp.2.all (fun e => (Generated.schema.space sp.1).contains e)) = true :=
  C08.C08_registry_present

/-- (2a) `bstr .cbor` at exactly the prescribed members of the key-value classes -/
theorem C02_wrap_members :
    Registry.wrapTable.all (fun e => Generated.schema.memberWrapped e.1 e.2.1 == some e.2.2) = true := by
  decide +kernel

/-- (2b) … and at exactly the prescribed fields of the COSE / SUIT tuples -/
theorem C02_wrap_fields :
    Registry.wrapTupleTable.all (fun e => Generated.schema.fieldWrapped e.1 e.2.1 == some e.2.2) = true := by
  decide +kernel

/-- (2c) command sequences are lists grouped by two: flat (code, argument) pairs -/
theorem C02_command_sequences_flat :
    Registry.groupedLists.all (fun e => Generated.schema.groupOf e.1 == some e.2) = true := by
  decide +kernel

/-- (3a) a `cbstr` class adds exactly one byte-string layer around the encoding of its content -/
theorem C02_wrapped_once (n : Node) : (Node.wrapped n).toVal = .bstr n.toBytes ∧ (Node.wrapped n).toBytes = enc (.bstr n.toBytes) := by
  constructor <;> simp [Node.toVal, Node.toBytes]

/-- (3b) the envelope is the encoding of one CBOR value … -/
theorem C02_envelope_is_enc (t : Nat) (name : String) (n : Node) :
    (Node.tagged t name n).toBytes = enc (.tag t n.toVal) := by simp [Node.toBytes]

/-- … and every encoding is in definite-length shortest form: the strict reader accepts it and returns the value -/
theorem C02_shortest (t : Nat) (name : String) (n : Node) (hwf : (Cbor.tag t n.toVal).wf = true) :
    decodeStrict (Node.tagged t name n).toBytes = some (.tag t n.toVal) := by
  rw [C02_envelope_is_enc]; exact decodeStrict_enc _ hwf

/-- (3c) lists keep the order and number of their elements -/
theorem valList_map (xs : List Node) : valList xs = xs.map Node.toVal := by
  induction xs with
  | nil => simp [valList]
  | cons x xs ih => simp [valList, ih]

theorem C02_list_order (xs : List Node) : (Node.list false xs).toVal = .arr (xs.map Node.toVal) := by
  simp [Node.toVal, valList_map]

/-- (3d) a command sequence of single-entry commands is the flat list code₁, arg₁, code₂, arg₂, … in description order -/
theorem flatList_commands (cmds : List (KvKey × Node)) :
    flatList (cmds.map (fun c => Node.kvTuple [c])) = cmds.flatMap (fun c => [Cbor.ofInt c.1.id, c.2.toVal]) := by
  induction cmds with
  | nil => simp [flatList]
  | cons c rest ih =>
    obtain ⟨k, a⟩ := c
    simp [flatList, Node.toVal, kvFlat, ih]

theorem C02_flat_pairs (cmds : List (KvKey × Node)) :
    (Node.list true (cmds.map (fun c => Node.kvTuple [c]))).toVal
      = .arr (cmds.flatMap (fun c => [Cbor.ofInt c.1.id, c.2.toVal])) := by
  simp [Node.toVal, flatList_commands]

/-- (3e) a key-value node whose codes are pairwise different (and without flattened payload maps) encodes to the map
of (code, value) pairs in description order: nothing sorted, dropped or duplicated -/
theorem dictSet_new (d : List (Cbor × Cbor)) (k v : Cbor) (h : d.any (fun e => e.1 == k) = false) :
    dictSet d k v = d ++ [(k, v)] := by simp [dictSet, h]

theorem ofInt_beq (a b : Int) : ((Cbor.ofInt a) == (Cbor.ofInt b)) = (a == b) := by
  unfold Cbor.ofInt
  by_cases ha : a < 0 <;> by_cases hb : b < 0 <;> simp [ha, hb, BEq.beq, Cbor.beq] <;> omega

theorem C02_map_order (es : List (KvKey × Node)) :
    ∀ (acc : List (Cbor × Cbor)),
      (∀ e ∈ es, e.1.merge = false) →
      (es.map (·.1.id)).Nodup → (∀ e ∈ es, acc.any (fun a => a.1 == Cbor.ofInt e.1.id) = false) →
      kvPairs es acc = acc ++ es.map (fun e => (Cbor.ofInt e.1.id, e.2.toVal)) := by
  induction es with
  | nil => intro acc _ _ _; simp [kvPairs]
  | cons e rest ih =>
    intro acc hm hnd hacc
    obtain ⟨k, n⟩ := e
    have hk : k.merge = false := hm (k, n) (by simp)
    simp only [List.map_cons, List.nodup_cons] at hnd
    have hnew := hacc (k, n) (by simp)
    simp only [kvPairs, hk, Bool.false_eq_true, if_false]
    rw [dictSet_new _ _ _ hnew, ih _ (fun e he => hm e (by simp [he])) hnd.2]
    · simp [List.append_assoc]
    · intro e he
      have h1 := hacc e (by simp [he])
      simp only [List.any_append, h1, List.any_cons, List.any_nil, Bool.or_false, Bool.false_or]
      rw [ofInt_beq]
      have : k.id ≠ e.1.id := by
        intro heq
        exact hnd.1 (List.mem_map.mpr ⟨e, he, heq.symm⟩)
      simpa using this

/-! ### byte-string layers exactly where the schema prescribes them, in every tree `from_obj` builds (typing theorem) -/

/-- (4a) whatever `from_obj` builds for a class has the node shape the schema prescribes for that class: for every schema,
description, file system and hash function -/
theorem C02_typed (cx : Encode.Ctx) (fuel : Nat) (c : Cls) (o : Obj) (n : Node) (h : Encode.fromObj cx fuel c o = .ok n) :
    Typing.HasTy cx.schema c n := Typing.fromObj_typed cx fuel c o n h

/-- (4b) at a `bstr .cbor` class there is exactly one byte-string layer, around a tree of the inner class -/
theorem C02_layer_present (cx : Encode.Ctx) (fuel : Nat) (c inner : Cls) (o : Obj) (n : Node)
    (h : Encode.fromObj cx fuel c o = .ok n) (hc : cx.schema.ty c = some (.cbstr inner)) :
    ∃ m, n = .wrapped m ∧ Typing.HasTy cx.schema inner m ∧ n.toVal = .bstr m.toBytes :=
  let ⟨m, hm, ht⟩ := Typing.inv_cbstr (C02_typed cx fuel c o n h) hc
  ⟨m, hm, ht, by rw [hm]; simp [Node.toVal]⟩

/-- (4c) … and at a map, tag or tuple class there is none: the value is embedded directly -/
theorem C02_layer_absent_map (cx : Encode.Ctx) (fuel : Nat) (c : Cls) (es : List Entry) (emb : Option String) (o : Obj) (n : Node)
    (h : Encode.fromObj cx fuel c o = .ok n) (hc : cx.schema.ty c = some (.keyValue es emb)) :
    ∃ r, n = .kv r ∧ n.toVal = .map (kvPairs r []) :=
  let ⟨r, hr, _, _⟩ := Typing.inv_kv (C02_typed cx fuel c o n h) hc
  ⟨r, hr, by rw [hr]; simp [Node.toVal]⟩

theorem C02_layer_absent_tag (cx : Encode.Ctx) (fuel : Nat) (c : Cls) (t : Nat) (name : String) (child : Cls) (o : Obj) (n : Node)
    (h : Encode.fromObj cx fuel c o = .ok n) (hc : cx.schema.ty c = some (.tag t name child)) :
    ∃ m, n = .tagged t name m ∧ n.toVal = .tag t m.toVal :=
  let ⟨m, hm, _⟩ := Typing.inv_tag (C02_typed cx fuel c o n h) hc
  ⟨m, hm, by rw [hm]; simp [Node.toVal]⟩

end SuitVerif.Props.C02
