import SuitVerif.CacheProofs
/-! # C10 — DFU cache partitions are well-formed, aligned and content-preserving

Property theorems only.  `Cache.check` is the executable statement of the property on the bytes of the
output file (see `Cache.lean`); the same predicate is evaluated by the harness on the files the real tool
writes.  Domain: erase-block size ≥ 1, non-empty URIs shorter than 2^64 bytes, payloads below 2^32 bytes,
lengths below 2^53 (where Python's float `ceil(len/eb)` is exact). -/
namespace SuitVerif.Props.C10
open SuitVerif SuitVerif.Cache

/-- Every file written by `cache_create from_payloads` for at least one slot satisfies the property:
single indefinite map of exactly the supplied pairs plus zero-filled empty-key padding, 4-byte payload
lengths, every slot after the first at a multiple of the erase-block size. All `eb`, all lengths. -/
theorem C10_from_payloads (eb : Nat) (slots : List (Bytes × Bytes)) (out : Bytes)
    (h : fromPayloads eb slots = .ok out) (hne : slots ≠ [])
    (hs : ∀ e ∈ slots, e.1 ≠ [] ∧ e.1.length < 2 ^ 64) :
    check eb slots out = true := by
  unfold fromPayloads at h
  cases h1 : addSlots eb {} slots with
  | error e => simp [h1, bind, Except.bind] at h
  | ok s' =>
    simp only [h1, bind, Except.bind, pure, Except.pure, Except.ok.injEq] at h
    obtain ⟨body, k, hdata, hk, hwalk⟩ := addSlots_walk eb slots {} s' h1 hs
    have hne' : slots.isEmpty = false := by cases slots <;> simp_all
    simp only [hne', Bool.not_false, Bool.and_true, if_true, List.nil_append] at hdata
    subst h
    unfold close
    rw [hdata]
    simp only [check, List.cons_append, hne', Bool.not_false, Bool.true_and]
    have hw := hwalk 1 (0xBF :: (body ++ [0xFF])).length ((0xBF :: (body ++ [0xFF])).length + 1 - k) [0xFF]
      (by simp) (by simp; omega)
    have e1 : (0xBF :: (body ++ [0xFF])).length + 1 - k + k = (0xBF :: (body ++ [0xFF])).length + 1 := by
      simp; omega
    rw [e1] at hw
    rw [hw]
    have : ∃ f, (0xBF :: (body ++ [0xFF] : Bytes)).length + 1 - k = f + 1 := ⟨(body ++ [0xFF]).length + 1 - k, by simp; omega⟩
    obtain ⟨f, hf⟩ := this
    rw [hf]
    simp [checkWalk]

/-- the alignment argument on its own: whatever `add_padding` returns is a multiple of `eb` long, extends the
input, and the extension is empty or one well-formed padding entry (at least 2 bytes). -/
theorem C10_padding (eb : Nat) (d out : Bytes) (h : addPadding eb d = .ok out) :
    out.length % eb = 0 ∧ ∃ pad, out = d ++ pad ∧ PadShape pad :=
  (addPadding_spec eb d out h).2

/-- the branches of the padding rule: nothing at residue 0; a whole extra block at residue 1 -/
theorem C10_padding_residue0 (eb : Nat) (d : Bytes) (heb : 0 < eb) (h : d.length % eb = 0) :
    addPadding eb d = .ok d := by
  unfold addPadding
  have : roundUp eb d.length = d.length := by
    unfold roundUp
    obtain ⟨q, hq⟩ := Nat.dvd_of_mod_eq_zero h
    rw [hq]
    have : (eb * q + eb - 1) / eb = q := by
      rw [show eb * q + eb - 1 = eb * q + (eb - 1) by omega, Nat.mul_add_div heb]
      rw [Nat.div_eq_of_lt (by omega)]; simp
    rw [this, Nat.mul_comm]
  simp [this, Nat.ne_of_gt heb]

/-- a duplicate URI is rejected, not overwritten -/
theorem C10_duplicate_rejected (eb : Nat) (s : State) (u p : Bytes) (h : u ∈ s.uris) :
    addSlot eb s u p = .error .valueError := by
  unfold addSlot
  have : s.uris.contains u = true := by simpa using h
  rw [if_pos this]

/-- every accepted slot records its URI, so a later duplicate anywhere in the sequence is rejected -/
theorem C10_uris_recorded (eb : Nat) (s s' : State) (u p : Bytes) (h : addSlot eb s u p = .ok s') :
    s'.uris = s.uris ++ [u] ∧ u ∉ s.uris := by
  obtain ⟨hc, _, padded, _, hs1⟩ := addSlot_ok eb s s' u p h
  subst hs1
  exact ⟨rfl, by simpa using hc⟩

/-- **Merge.** The file written by `cache_create merge` satisfies the property for the concatenation, in order, of the
slots of its input files (as loaded: empty-key padding entries dropped): one map, every slot exactly once, 4-byte
lengths, erase-block alignment re-established for the *new* erase-block size. -/
theorem C10_merge (eb : Nat) (files : List Bytes) (out : Bytes) (h : merge eb files = .ok out)
    (hne : files.flatMap filePairs ≠ []) (hs : ∀ e ∈ files.flatMap filePairs, e.1.length < 2 ^ 64) :
    check eb (files.flatMap filePairs) out = true := by
  obtain ⟨_, hfp⟩ := merge_eq_fromPayloads eb files out h
  refine C10_from_payloads eb _ out hfp hne (fun e he => ⟨?_, hs e he⟩)
  obtain ⟨f, _, hef⟩ := List.mem_flatMap.mp he
  have := (List.mem_filter.mp hef).2
  simpa using this

/-- **Merge preserves every slot of every input.** If each input file satisfies the property for its own slot list
(e.g. it was written by `from_payloads`, theorem `C10_from_payloads`, with any erase-block size of its own), the merged
file satisfies it for the concatenation of those lists. -/
theorem C10_merge_preserves (eb : Nat) (inputs : List (Nat × List (Bytes × Bytes) × Bytes)) (out : Bytes)
    (hin : ∀ i ∈ inputs, check i.1 i.2.1 i.2.2 = true ∧ (i.2.1.map (·.1)).Nodup)
    (h : merge eb (inputs.map (·.2.2)) = .ok out)
    (hne : inputs.flatMap (·.2.1) ≠ []) (hs : ∀ e ∈ inputs.flatMap (·.2.1), e.1.length < 2 ^ 64) :
    check eb (inputs.flatMap (·.2.1)) out = true := by
  have heq : (inputs.map (·.2.2)).flatMap filePairs = inputs.flatMap (·.2.1) := by
    clear h hne hs
    induction inputs with
    | nil => rfl
    | cons i rest ih =>
      have hi := hin i (by simp)
      simp only [List.map_cons, List.flatMap_cons]
      rw [filePairs_of_check i.1 i.2.1 i.2.2 hi.1 hi.2, ih (fun j hj => hin j (by simp [hj]))]
  have := C10_merge eb (inputs.map (·.2.2)) out h (by rw [heq]; exact hne) (by rw [heq]; exact hs)
  rwa [heq] at this

/-- reading back: what `check` accepts is loaded to exactly the expected pairs -/
theorem C10_read_back (eb : Nat) (slots : List (Bytes × Bytes)) (out : Bytes) (h : check eb slots out = true)
    (hnd : (slots.map (·.1)).Nodup) : filePairs out = slots := filePairs_of_check eb slots out h hnd

/-- non-vacuity: a concrete two-slot cache with eb = 8 is produced and checks. -/
example : (fromPayloads 8 [([0x23, 0x61], [1, 2]), ([0x23, 0x62], [])]).toOption.map (check 8 [([0x23, 0x61], [1, 2]), ([0x23, 0x62], [])]) = some true := by
  decide

end SuitVerif.Props.C10
