import SuitVerif.Storage
import SuitVerif.Generated.Layout
import SuitVerif.IHexText
/-! # C07 — boot storage images place each installed envelope intact in its role's slot -/
namespace SuitVerif.Props.C07
open SuitVerif SuitVerif.Storage SuitVerif.IHex

/-- two slots do not share an address -/
def disjoint (a b : Slot) : Bool := a.offset + a.size ≤ b.offset || b.offset + b.size ≤ a.offset

def pairwise {α} (p : α → α → Bool) : List α → Bool
  | [] => true
  | x :: xs => xs.all (p x) && pairwise p xs

/-- **Slots never overlap**: all slots of a SoC are pairwise disjoint - across domains too, not only inside one hex
file - for both layouts as extracted from the running code -/
theorem C07_layout_disjoint :
    pairwise disjoint Generated.layout_nrf54h20 = true ∧ pairwise disjoint Generated.layout_nrf9280 = true := by
  decide +kernel

/-- every role has at most one slot, every slot a positive size, in both layouts -/
theorem C07_layout_roles_unique :
    pairwise (fun a b => a.role != b.role) Generated.layout_nrf54h20 = true
    ∧ pairwise (fun a b => a.role != b.role) Generated.layout_nrf9280 = true
    ∧ Generated.layout_nrf54h20.all (fun s => 0 < s.size) = true
    ∧ Generated.layout_nrf9280.all (fun s => 0 < s.size) = true := by
  decide +kernel

/-- every slot's role and domain are members of the role / domain enumerations, and all 11 roles have a slot -/
theorem C07_layout_roles_known :
    Generated.layout_nrf54h20.all (fun s => (Generated.roles.map (·.1)).contains s.role && Generated.domains.contains s.domain) = true
    ∧ Generated.layout_nrf9280.all (fun s => (Generated.roles.map (·.1)).contains s.role && Generated.domains.contains s.domain) = true
    ∧ Generated.layout_nrf54h20.length = 11 ∧ Generated.layout_nrf9280.length = 11 := by
  decide +kernel

/-- the slot map keys / version: `{0: 1, 1: offset, 2: envelope}` -/
theorem C07_slot_keys : Generated.slotKeys = (0, 1, 1, 2) := by decide

theorem isPrefixOf_take (p s : Bytes) (h : p.isPrefixOf s = true) : s.take p.length = p := by
  induction p generalizing s with
  | nil => simp
  | cons x xs ih =>
    cases s with
    | nil => simp [List.isPrefixOf] at h
    | cons y ys =>
      simp only [List.isPrefixOf, Bool.and_eq_true, beq_iff_eq] at h
      simp [h.1, ih ys h.2]

/-- `bytes.find`: at the returned position the pattern really occurs -/
theorem findSub_sound (pat : Bytes) : ∀ (s : Bytes) (i0 i : Nat), findSub pat s i0 = some i →
    i0 ≤ i ∧ (s.drop (i - i0)).take pat.length = pat := by
  intro s
  induction s with
  | nil =>
    intro i0 i h
    simp only [findSub] at h
    split at h
    · simp only [Option.some.injEq] at h; subst h
      rename_i he
      have : pat = [] := by simpa using he
      simp [this]
    · cases h
  | cons c rest ih =>
    intro i0 i h
    simp only [findSub] at h
    split at h
    · rename_i hp
      simp only [Option.some.injEq] at h; subst h
      simp [isPrefixOf_take pat (c :: rest) hp]
    · obtain ⟨h1, h2⟩ := ih (i0 + 1) i h
      refine ⟨by omega, ?_⟩
      have : i - i0 = (i - (i0 + 1)) + 1 := by omega
      rw [this, List.drop_succ_cons]
      exact h2

/-- **Class UUID at the recorded offset.** The search pattern is the encoded `suit-manifest-component-id` entry
`05 82 4C 6B "INSTLD_MFST" 50 <uuid>`: wherever `find` locates it in the stored envelope, the 16 bytes at
(position + 16) - the offset recorded in the slot - are the UUID of that pattern.  (So no "first occurrence" caveat
is needed: any occurrence of the 32-byte pattern carries the UUID.) -/
theorem C07_class_at_offset (pre uuid : Bytes) (severed : Bytes) (i : Nat) (hpre : pre.length = 16) (hu : uuid.length = 16)
    (h : findSub (pre ++ uuid) severed 0 = some i) : slice16 severed (i + 16) = uuid := by
  obtain ⟨_, h2⟩ := findSub_sound (pre ++ uuid) severed 0 i h
  simp only [Nat.sub_zero, List.length_append, hpre, hu] at h2
  unfold slice16
  have : (severed.drop (i + 16)) = (severed.drop i).drop 16 := by simp [Nat.add_comm]
  rw [this]
  have h3 : ((severed.drop i).take 32).drop 16 = uuid := by
    rw [h2, List.drop_left' hpre]
  have h4 : ((severed.drop i).drop 16).take 16 = ((severed.drop i).take 32).drop 16 := by
    rw [List.drop_take]
  rw [h4, h3]

/-- the prefix of the pattern before the UUID is exactly 16 bytes: key 5, array(2), bstr(12) of tstr(11) "INSTLD_MFST",
bstr(16) head -/
theorem C07_pattern_prefix :
    ([0x05, 0x82, 0x4C, 0x6B] ++ utf8 "INSTLD_MFST" ++ [0x50] : Bytes).length = 16 := by decide +kernel

/-- **Slot content, and nothing else**: *every* segment of a domain's image is the slot of a stored envelope whose role
belongs to that domain, at base + the role's offset: the slot map followed by 0xFF up to the slot size -/
theorem C07_slot (layout : List Slot) (base : Nat) (stored : List Stored) (domain : String) (a : Nat) (b : Bytes)
    (h : (a, b) ∈ domainImage layout base stored domain) :
    ∃ s e, s ∈ layout ∧ s.domain = domain ∧ e ∈ stored ∧ e.role = s.role ∧ a = base + s.offset
      ∧ b = e.bytes ++ List.replicate (s.size - e.bytes.length) 0xFF := by
  unfold domainImage at h
  rw [List.mem_filterMap] at h
  obtain ⟨s, hs, hm⟩ := h
  split at hm
  · rename_i hd
    cases hf : stored.find? (fun e => e.role == s.role) with
    | none => simp [hf] at hm
    | some e =>
      simp only [hf, Option.map_some, Option.some.injEq, Prod.mk.injEq] at hm
      have he := List.find?_some hf
      have hmem := List.mem_of_find?_eq_some hf
      exact ⟨s, e, hs, by simpa using hd, hmem, by simpa using he, hm.1.symm, by rw [← hm.2]; rfl⟩
  · cases hm

/-- rejections of `add_envelope`, as the last four checks: unknown class, no slot, too large, duplicate role.
Stated on the decision after the slot map has been built. -/
theorem C07_reject_duplicate (stored : List Stored) (role : String) (h : stored.any (fun s => s.role == role) = true)
    (slot : Slot) (slotMap : Bytes) (hfit : ¬ slot.size < slotMap.length) :
    (if slot.size < slotMap.length then (.error (.generatorError "fit") : R (List Stored))
     else if stored.any (fun s => s.role == role) then .error (.generatorError "duplicate")
     else .ok (stored ++ [{ role := role, bytes := slotMap }])) = .error (.generatorError "duplicate") := by
  simp [hfit, h]

/-- all envelopes are added before any image is produced: if one is rejected, `boot` yields no image at all -/
theorem C07_no_partial_output (cx : Encode.Ctx) (layout : List Slot) (domains : List String) (tbl : List (Bytes × String))
    (base : Nat) (files : List Bytes) (e : Err)
    (h : files.foldlM (fun st f => addEnvelope cx layout tbl st f) [] = .error e) :
    boot cx layout domains tbl base files = .error e := by
  simp [boot, h, bind, Except.bind]

/-! ### file level: the text of a domain's hex file

The statements above are about the image of a domain (the slots at base + offset); a domain's file holds several separate blocks.  `IHexImage.lean`
models the third-party writer for whole images (extension records, 16-byte records cut at 64 KiB borders and at the end of every block); the strict
reader gives the image back, for every canonical image below 2^32.  The harness compares the model's text with the file the tool wrote for every
domain of every run (`writer-model:*` in the evidence). -/

/-- the text of the file the writer model produces for a canonical image reads back, with the strict reader, as exactly that image -/
theorem C07_file_reads_back (c : Image) (hsep : IHex.Separated c) (hb : ∀ s ∈ c, s.1 + s.2.length ≤ 2 ^ 32) :
    IHex.read (IHex.writeImageText c) = some c := IHex.read_writeImageText c hsep hb

/-- whatever the strict reader returns for a domain's file (any file it accepts) is a canonical image: non-empty blocks, ascending, at least
one undefined address between them -/
theorem C07_read_image_canonical (text : String) (c : Image) (h : IHex.read text = some c) : IHex.Separated c := IHex.read_sep text c h

/-- ... and is a fixed point of write-then-read: the writer model's text for it reads back as that same image -/
theorem C07_file_stable (text : String) (c : Image) (h : IHex.read text = some c) (hb : ∀ s ∈ c, s.1 + s.2.length ≤ 2 ^ 32) :
    IHex.read (IHex.writeImageText c) = some c := IHex.read_stable text c h hb

/-- what the reader returns for a domain's file is its own canonical form, so the slot predicates (which look at `canon img`) look at the image itself -/
theorem C07_read_image_fixed (text : String) (c : Image) (h : IHex.read text = some c) : IHex.canon c = some c := IHex.read_canon text c h

/-- a concrete file of two slots in one domain, the second beyond a 64 KiB border (kernel evaluation; hypotheses of the theorem met) -/
example : IHex.read (IHex.writeImageText [(0x0E1EFFF0, (List.range 40).map UInt8.ofNat), (0x0E1F0400, [1, 2, 3])])
    = some [(0x0E1EFFF0, (List.range 40).map UInt8.ofNat), (0x0E1F0400, [1, 2, 3])] := by decide +kernel

example : IHex.Separated [(0x0E1EFFF0, (List.range 40).map UInt8.ofNat), (0x0E1F0400, [1, 2, 3])] := by
  refine ⟨by decide, by decide, ?_⟩
  show ([1, 2, 3] : Bytes) ≠ []
  decide

end SuitVerif.Props.C07
