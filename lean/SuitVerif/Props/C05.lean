import SuitVerif.EncodeProofs
/-! # C05 — digests, sizes and payloads taken from files describe those exact files

Every theorem is for all file systems `cx.fs`, all hash functions `cx.hashFn`, all budgets. The statements say what
the encoder is handed in place of a file reference; the node kinds then encode that value (a digest pair, an
unsigned integer, a byte string) as for a literal. -/
namespace SuitVerif.Props.C05
open SuitVerif SuitVerif.Encode SuitVerif.Py

/-! ### hexadecimal text is a faithful carrier: `a2b_hex(b.hex()) = b` (lower and upper case) -/

theorem hexVal_hexDigit (n : Nat) (h : n < 16) : hexVal (hexDigit n) = some n := by
  have : n = 0 ∨ n = 1 ∨ n = 2 ∨ n = 3 ∨ n = 4 ∨ n = 5 ∨ n = 6 ∨ n = 7 ∨ n = 8 ∨ n = 9 ∨ n = 10 ∨ n = 11
      ∨ n = 12 ∨ n = 13 ∨ n = 14 ∨ n = 15 := by omega
  rcases this with h|h|h|h|h|h|h|h|h|h|h|h|h|h|h|h <;> subst h <;> decide

theorem hexVal_hexDigitU (n : Nat) (h : n < 16) : hexVal (hexDigitU n) = some n := by
  have : n = 0 ∨ n = 1 ∨ n = 2 ∨ n = 3 ∨ n = 4 ∨ n = 5 ∨ n = 6 ∨ n = 7 ∨ n = 8 ∨ n = 9 ∨ n = 10 ∨ n = 11
      ∨ n = 12 ∨ n = 13 ∨ n = 14 ∨ n = 15 := by omega
  rcases this with h|h|h|h|h|h|h|h|h|h|h|h|h|h|h|h <;> subst h <;> decide

theorem byte_recompose (b : UInt8) : UInt8.ofNat (b.toNat / 16 * 16 + b.toNat % 16) = b := by
  have : b.toNat / 16 * 16 + b.toNat % 16 = b.toNat := by omega
  rw [this]; simp

theorem C05_hex_roundtrip (b : Bytes) : ofHexChars (toHexChars b) = some b := by
  induction b with
  | nil => simp [toHexChars, ofHexChars]
  | cons x xs ih =>
    have hx := x.toNat_lt
    simp only [toHexChars, ofHexChars, hexVal_hexDigit _ (show x.toNat / 16 < 16 by omega),
      hexVal_hexDigit _ (show x.toNat % 16 < 16 by omega), ih, byte_recompose]

theorem C05_hex_roundtrip_upper (b : Bytes) : ofHexChars (toHexCharsU b) = some b := by
  induction b with
  | nil => simp [toHexCharsU, ofHexChars]
  | cons x xs ih =>
    have hx := x.toNat_lt
    simp only [toHexCharsU, ofHexChars, hexVal_hexDigitU _ (show x.toNat / 16 < 16 by omega),
      hexVal_hexDigitU _ (show x.toNat % 16 < 16 by omega), ih, byte_recompose]

/-! ### digests -/

def withBytes (kvs : List (String × Obj)) (v : Obj) : Obj :=
  .dict (kvs.map (fun e => if e.1 = "suit-digest-bytes" then (e.1, v) else e))

/-- `{file: p}`: the digest is the hash, under the named algorithm, of exactly the bytes of file `p` -/
theorem C05_file_digest (cx : Ctx) (fuel : Nat) (c raw : Cls) (kvs : List (String × Obj)) (a p : String)
    (content : Bytes) (hty : cx.schema.ty c = some (.digestExt raw))
    (halg : Obj.get? "suit-digest-algorithm-id" kvs = some (.str a))
    (hb : Obj.get? "suit-digest-bytes" kvs = some (.dict [("file", .str p)]))
    (hsup : cx.schema.hashes.any (fun e => e.1 == a) = true) (hfs : cx.fs p = some content) :
    fromObj cx (fuel + 1) c (.dict kvs) = fromObj cx fuel raw (withBytes kvs (.str (toHex (cx.hashFn a content)))) := by
  rw [fromObj]
  simp only [hty, leafFromObj, halg, hb, Obj.get?, Ctx.hash, hsup, if_true, hfs, withBytes]

/-- `{file_direct: p}`: the digest bytes are the bytes in the file, verbatim -/
theorem C05_file_direct_digest (cx : Ctx) (fuel : Nat) (c raw : Cls) (kvs : List (String × Obj)) (a : Obj) (p : String)
    (content : Bytes) (hty : cx.schema.ty c = some (.digestExt raw))
    (halg : Obj.get? "suit-digest-algorithm-id" kvs = some a)
    (hb : Obj.get? "suit-digest-bytes" kvs = some (.dict [("file_direct", .str p)]))
    (hfs : cx.fs p = some content) :
    fromObj cx (fuel + 1) c (.dict kvs) = fromObj cx fuel raw (withBytes kvs (.str (toHex content))) := by
  rw [fromObj]
  simp only [hty, leafFromObj, halg, hb, Obj.get?, withBytes]
  simp [hfs]

/-- a missing file is an error, never a silent default -/
theorem C05_file_missing (cx : Ctx) (fuel : Nat) (c raw : Cls) (kvs : List (String × Obj)) (a p : String)
    (hty : cx.schema.ty c = some (.digestExt raw))
    (halg : Obj.get? "suit-digest-algorithm-id" kvs = some (.str a))
    (hb : Obj.get? "suit-digest-bytes" kvs = some (.dict [("file", .str p)]))
    (hsup : cx.schema.hashes.any (fun e => e.1 == a) = true) (hfs : cx.fs p = none) :
    fromObj cx (fuel + 1) c (.dict kvs) = .error .osError := by
  rw [fromObj]
  simp only [hty, leafFromObj, halg, hb, Obj.get?, Ctx.hash, hsup, if_true, hfs]

/-- a dependency given inline: the parent records the hash, under the algorithm *the parent* names, of the wrapped
manifest of the child after the child's own digests were refreshed -/
theorem C05_dep_digest_inline (cx : Ctx) (fuel : Nat) (c raw : Cls) (kvs e : List (String × Obj)) (a : String)
    (node : Node) (d : Bytes) (hty : cx.schema.ty c = some (.digestExt raw))
    (halg : Obj.get? "suit-digest-algorithm-id" kvs = some (.str a))
    (hb : Obj.get? "suit-digest-bytes" kvs = some (.dict [("envelope", .dict e)]))
    (hchild : fromObj cx fuel cx.schema.envelope (.dict e) = .ok node)
    (hd : subEnvelopeDigest cx node a = .ok d) :
    fromObj cx (fuel + 1) c (.dict kvs) = fromObj cx fuel raw (withBytes kvs (.str (toHex d))) := by
  rw [fromObj]
  simp only [hty, leafFromObj, halg, hb, Obj.get?, withBytes]
  simp [hchild, hd, bind, Except.bind]

/-- … and that digest is the hash of the same manifest bytes the child's own authentication wrapper digests:
both are taken from the child tree after `update_severable_digests` and `update_digest` -/
theorem C05_dep_digest_same_bytes (cx : Ctx) (node : Node) (a : String) (d : Bytes)
    (h : subEnvelopeDigest cx node a = .ok d) :
    ∃ n1 n2 t name es m d' alg hd,
      updateSeverable cx node = .ok n1 ∧ updateDigest cx n1 = .ok n2
      ∧ n2 = .tagged t name (.kv es) ∧ kvGet es 3 = some m
      ∧ cx.hash a m.toBytes = some d                                   -- what the parent records
      ∧ authDigest es = some d' ∧ digestAlg d' = some alg
      ∧ cx.hash alg m.toBytes = some hd ∧ digestBytes d' = some hd      -- what the child's own wrapper holds
      := by
  unfold subEnvelopeDigest at h
  cases h1 : updateSeverable cx node with
  | error e => simp [h1, bind, Except.bind] at h
  | ok n1 =>
    simp only [h1, bind, Except.bind] at h
    cases h2 : updateDigest cx n1 with
    | error e => simp [h2] at h
    | ok n2 =>
      simp only [h2] at h
      obtain ⟨t, name, es1, es2, m, d', alg, hd, hn1, hn2, h33, hm2, hauth, halg, hhash, hbytes⟩ :=
        updateDigest_spec cx n1 n2 h2
      subst hn2
      simp only [envelopeMap, manifestDigest, hm2] at h
      split at h
      · rename_i dd hdd
        simp only [Except.ok.injEq] at h
        subst h
        exact ⟨n1, _, t, name, es2, m, d', alg, hd, rfl, h2, rfl, hm2, hdd, hauth, halg, hhash, hbytes⟩
      · cases h

/-! ### sizes -/

/-- `{file: p}`: the image size is exactly the length of file `p` -/
theorem C05_size_file (cx : Ctx) (fuel : Nat) (c : Cls) (kvs : List (String × Obj)) (p : String) (content : Bytes)
    (hty : cx.schema.ty c = some .imageSize) (hraw : Obj.get? "raw" kvs = none)
    (hf : Obj.get? "file" kvs = some (.str p)) (hfs : cx.fs p = some content) :
    fromObj cx (fuel + 1) c (.dict kvs) = .ok (.leaf (.uint content.length) .rawInt) := by
  rw [fromObj]
  simp only [hty, leafFromObj, hraw, hf, hfs, scalarOk, scalarVal, Cbor.ofInt]
  simp

/-- `{envelope: {...}}`: the size is the length of the child envelope as created on its own -/
theorem C05_size_envelope (cx : Ctx) (fuel : Nat) (c : Cls) (kvs e : List (String × Obj)) (child : Bytes)
    (hty : cx.schema.ty c = some .imageSize) (hraw : Obj.get? "raw" kvs = none) (hf : Obj.get? "file" kvs = none)
    (he : Obj.get? "envelope" kvs = some (.dict e)) (hc : create cx fuel (.dict e) = .ok child) :
    fromObj cx (fuel + 1) c (.dict kvs) = .ok (.leaf (.uint child.length) .rawInt) := by
  rw [fromObj]
  simp only [hty, leafFromObj, hraw, hf, he, hc, bind, Except.bind, scalarOk, scalarVal, Cbor.ofInt]
  simp

/-! ### integrated payloads and dependencies -/

/-- a payload given by the path of an existing file (the text is not all hex digits): the member is exactly the
file's content (handed to the byte-string kind as upper-case hex, which `C05_hex_roundtrip_upper` turns back) -/
theorem C05_payload_path (cx : Ctx) (fuel : Nat) (kc vc : Cls) (k p : String) (rest : List (String × Obj))
    (acc : List (String × Node × Node)) (content : Bytes)
    (hnothex : p.toList.all isHexDigit = false) (hfs : cx.fs p = some content) :
    fromObjPayloads cx (fuel + 1) kc vc ((k, .str p) :: rest) acc =
      (match fromObj cx fuel kc (.str k) with
       | .ok kn => (match fromObj cx fuel vc (.str (toHexU content)) with
          | .ok vn => fromObjPayloads cx fuel kc vc rest (Decode.strSet acc k (kn, vn))
          | .error e => .error e)
       | .error e => .error e) := by
  rw [fromObjPayloads]
  simp only [payloadAllHex, hnothex, hfs]
  simp
  cases fromObj cx fuel kc (Obj.str k) with
  | error e => rfl
  | ok kn => cases fromObj cx fuel vc (Obj.str (toHexU content)) <;> rfl

/-- a dependency given inline is embedded as exactly the bytes that creating it on its own produces -/
theorem C05_dep_inline (cx : Ctx) (fuel : Nat) (kc vc : Cls) (k : String) (e : String × Obj) (es : List (String × Obj))
    (rest : List (String × Obj)) (acc : List (String × Node × Node)) (child : Bytes)
    (hc : create cx fuel (.dict (e :: es)) = .ok child) :
    fromObjPayloads cx (fuel + 1) kc vc ((k, .dict (e :: es)) :: rest) acc =
      (match fromObj cx fuel kc (.str k) with
       | .ok kn => (match fromObj cx fuel vc (.str (toHexU child)) with
          | .ok vn => fromObjPayloads cx fuel kc vc rest (Decode.strSet acc k (kn, vn))
          | .error e => .error e)
       | .error e => .error e) := by
  rw [fromObjPayloads]
  simp only [payloadAllHex, List.isEmpty_cons, hc, bind, Except.bind, pure, Except.pure]
  simp
  cases fromObj cx fuel kc (Obj.str k) with
  | error e => rfl
  | ok kn => cases fromObj cx fuel vc (Obj.str (toHexU child)) <;> rfl

/-- the byte-string kind turns the upper-case hex text back into exactly those bytes -/
theorem C05_hex_leaf (cx : Ctx) (b : Bytes) :
    leafFromObj cx .hex (.str (toHexU b)) = some (.ok (.leaf (.bstr b) .hex)) := by
  simp [leafFromObj, hexOfObj, ofHex, toHexU, C05_hex_roundtrip_upper, bind, Except.bind, pure, Except.pure]

end SuitVerif.Props.C05
