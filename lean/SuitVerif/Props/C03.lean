import SuitVerif.Encode
import SuitVerif.CborProofs
import SuitVerif.Generated.Schema
import SuitVerif.Generated.Guards
/-! # C03 — parse then create reproduces the envelope (partial)

Proved here: the full statement is false on the extracted schema (finding F4, kernel-checked witness), and the
building blocks of the round trip for the scalar kinds.  The whole-language round-trip theorem (`C03_partial` of
DESIGN.md) is not yet proved; the property is decided on every generated envelope by the correspondence on `parse`
and by byte comparison of the re-created envelope (harness/props/c03.py). -/
namespace SuitVerif.Props.C03
open SuitVerif SuitVerif.Py SuitVerif.Decode SuitVerif.Encode

/-- a context with no files and a constant hash (the statement below does not depend on them) -/
def cx0 : Ctx :=
  { schema := Generated.schema, guards := Generated.guards, fs := fun _ => none, hashFn := fun _ _ => [0],
    sha1 := fun b => b, jsonLoads := fun _ => none }

def envelopeWith (content : String) : Obj :=
  .dict [("SUIT_Envelope_Tagged", .dict [
    ("suit-authentication-wrapper", .dict [("SuitDigest", .dict [("suit-digest-algorithm-id", .str "cose-alg-sha-256")])]),
    ("suit-manifest", .dict [("suit-manifest-version", .int 1), ("suit-manifest-sequence-number", .int 0),
      ("suit-validate", .list [.dict [("suit-directive-override-parameters",
          .dict [("suit-parameter-content", .str content)])]])])])]

/-- create, parse, create again; are the two envelopes equal? -/
def roundTripEqual (o : Obj) : Option Bool :=
  match createTop cx0 o with
  | .ok b => match parse cx0.guards cx0.schema b with
    | .ok o' => match createTop cx0 o' with
      | .ok b' => some (b == b')
      | .error _ => none
    | .error _ => none
  | .error _ => none

/-- **The full statement fails** (finding F4): the raw content `h'0506'` is parsed as the integer 5 (cbor2 ignores
the trailing byte) and re-created as `h'05'`. Checked by the kernel on the schema extracted from the running code. -/
theorem C03_full_fails : roundTripEqual (envelopeWith "0506") = some false := by decide +kernel

/-- non-vacuity / the unambiguous neighbour: content that does not decode as an integer round-trips -/
theorem C03_unambiguous_example : roundTripEqual (envelopeWith "ff0506") = some true := by decide +kernel

/-! ### scalar kinds: `from_cbor(to_cbor(x))` gives back the same object -/

theorem head_first (major n : Nat) : ∃ ai rest, head major n = UInt8.ofNat (major * 32 + ai) :: rest ∧ ai < 28 := by
  unfold head
  split
  · exact ⟨n, [], rfl, by omega⟩
  · split
    · exact ⟨24, _, rfl, by omega⟩
    · split
      · exact ⟨25, _, rfl, by omega⟩
      · split
        · exact ⟨26, _, rfl, by omega⟩
        · exact ⟨27, _, rfl, by omega⟩

/-- an unsigned-integer leaf -/
theorem C03_uint (g : Guards) (n : Nat) (h : n < 2 ^ 64) :
    leafFrom g .uint (enc (.uint n)) = some (.ok (.leaf (.uint n) .plain)) := by
  have hl : loads (enc (.uint n)) = some (.uint n) := by
    have := loads_enc (.uint n) [] (by simpa [Cbor.wf] using h); simpa using this
  obtain ⟨ai, rest, hh, hai⟩ := head_first 0 n
  have hb : (UInt8.ofNat (0 * 32 + ai)).toNat = ai := by
    rw [u8_toNat_ofNat (by omega)]; omega
  have hv : validate (enc (.uint n)) = true := by
    simp only [enc, hh, validate, hb]
    have : ¬ (1 < ai / 32) := by omega
    simp [this]
  have hff : (enc (.uint n)).head? ≠ some 0xFF := by
    simp only [enc, hh, List.head?_cons, ne_eq, Option.some.injEq]
    intro hc
    have := congrArg UInt8.toNat hc
    rw [hb] at this
    simp at this
    omega
  simp [leafFrom, deser, hv, hl, hff, norm, isNone, intLike, bind, Except.bind, pure, Except.pure]

/-- a byte-string leaf: the child receives the content and keeps it verbatim -/
theorem C03_bstr (g : Guards) (b : Bytes) : leafFrom g .bstr (ensure (.bstr b)) = some (.ok (.leaf (.bstr b) .hex)) := by
  simp [leafFrom, ensure]

/-- a UUID leaf -/
theorem C03_uuid (g : Guards) (b : Bytes) (h : b.length = 16) :
    leafFrom g .uuid (ensure (.bstr b)) = some (.ok (.leaf (.bstr b) .rawHex)) := by
  simp [leafFrom, ensure, h]

end SuitVerif.Props.C03
